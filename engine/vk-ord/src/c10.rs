//! C10 — one total order: make_comparator, sort / sort_to_indices / sort_limit / lexsort(_to_indices),
//! LexicographicalComparator, rank, partition and the comparison kernels agree with one model order.
use crate::model::*;
use crate::report::Rp;
use crate::space::*;
use arrow_array::{Array, ArrayRef, BooleanArray, Scalar, UInt32Array};
use arrow_ord::cmp as k;
use arrow_ord::ord::make_comparator;
use arrow_ord::partition::partition;
use arrow_ord::rank::rank;
use arrow_ord::sort::{LexicographicalComparator, SortColumn, lexsort, lexsort_to_indices, partial_sort, partition_validity, sort, sort_limit, sort_to_indices};
use std::cmp::Ordering;
use vcore::serde_json::{self, Value, json};
use vcore::{Ctx, Level, Stats, catch, par_for};

// -------------------------------------------------------------------------------------------------
// support matrix (derived from the documentation / dispatch tables of the APIs under test)

fn can_rank(ty: &Ty) -> bool {
    matches!(ty, Ty::Prim(_) | Ty::Bool | Ty::Bytes(_))
}
fn can_sort(ty: &Ty) -> bool {
    match ty {
        Ty::Prim(_) | Ty::Bool | Ty::Bytes(_) | Ty::Fsb(_) => true,
        Ty::List(_, c) | Ty::Fsl(_, c) => can_rank(c),
        Ty::Dict(_, v) => can_rank(v),
        Ty::Ree(_, v) => can_sort(v),
        _ => false,
    }
}
fn can_kernel(ty: &Ty) -> bool {
    let t = match ty {
        Ty::Ree(_, v) => v.as_ref(),
        t => t,
    };
    let t = match t {
        Ty::Dict(_, v) => v.as_ref(),
        t => t,
    };
    matches!(t, Ty::Prim(_) | Ty::Bool | Ty::Bytes(_) | Ty::Fsb(_) | Ty::Null)
}
/// value type seen by the comparison kernels after unwrapping run-end / dictionary
fn kernel_leaf(ty: &Ty) -> &Ty {
    let t = match ty {
        Ty::Ree(_, v) => v.as_ref(),
        t => t,
    };
    match t {
        Ty::Dict(_, v) => v.as_ref(),
        t => t,
    }
}

// -------------------------------------------------------------------------------------------------
// reporting helper

fn ord_name(o: Ordering) -> &'static str {
    match o {
        Ordering::Less => "Less",
        Ordering::Equal => "Equal",
        Ordering::Greater => "Greater",
    }
}

fn limits_for(n: usize, all: bool) -> Vec<Option<usize>> {
    let mut v = vec![None];
    if all {
        v.extend((0..=n + 1).map(Some));
    } else {
        let mut l = vec![0, 1, n.saturating_sub(1), n + 1];
        l.sort();
        l.dedup();
        v.extend(l.into_iter().map(Some));
    }
    v
}

/// model-sorted index order (stable, so deterministic)
fn model_sorted(n: usize, cmp: &dyn Fn(usize, usize) -> Ordering) -> Vec<usize> {
    let mut idx: Vec<usize> = (0..n).collect();
    idx.sort_by(|a, b| cmp(*a, *b));
    idx
}

/// `idx` must be `want_len` distinct in-range indices whose keys are position-wise Equal to the keys of
/// the model-sorted order: this is "sorted and multiset-equal to the want_len smallest keys".
fn check_perm(idx: &UInt32Array, n: usize, want_len: usize, exp: &[usize], cmp: &dyn Fn(usize, usize) -> Ordering) -> Result<(), String> {
    if idx.len() != want_len {
        return Err(format!("returned {} indices, expected {want_len}", idx.len()));
    }
    if idx.null_count() != 0 {
        return Err("index array contains nulls".into());
    }
    let mut seen = vec![false; n];
    for k in 0..want_len {
        let i = idx.value(k) as usize;
        if i >= n {
            return Err(format!("index {i} out of range (len {n})"));
        }
        if seen[i] {
            return Err(format!("index {i} returned twice: {:?}", idx.values()));
        }
        seen[i] = true;
    }
    for k in 0..want_len {
        let i = idx.value(k) as usize;
        if cmp(i, exp[k]) != Ordering::Equal {
            return Err(format!("position {k}: got row {i}, model-sorted order has a row with a different key (row {}); returned {:?}, model order {:?}", exp[k], idx.values(), &exp[..want_len]));
        }
    }
    Ok(())
}

fn want_len(n: usize, limit: Option<usize>) -> usize {
    limit.map_or(n, |l| l.min(n))
}

// -------------------------------------------------------------------------------------------------
// the individual oracles

/// make_comparator(a, b, o)(i, j) == model order for all (i, j)
fn check_comparator(a: &ArrayRef, b: &ArrayRef, va: &[Val], vb: &[Val], o: Opts, rp: &mut Rp, label: &str) -> u64 {
    let r = catch(|| make_comparator(a.as_ref(), b.as_ref(), o.arrow()));
    let cmp = match r {
        Err(p) => {
            rp.panic("make_comparator", &p, format!("{label} {}", o.show()));
            return 0;
        }
        Ok(Err(e)) => {
            rp.fail("make_comparator", "unsupported", format!("{label}: make_comparator returned an error for a supported type: {e}"));
            return 0;
        }
        Ok(Ok(c)) => c,
    };
    let mut evals = 0;
    let mut oc = [0u64; 3];
    let flush = |st: &mut Stats, oc: &[u64; 3]| {
        st.outcome_n("comparator:Less", oc[0]);
        st.outcome_n("comparator:Equal", oc[1]);
        st.outcome_n("comparator:Greater", oc[2]);
    };
    for i in 0..va.len() {
        for j in 0..vb.len() {
            let want = cmp_opts(&va[i], &vb[j], o);
            match catch(|| cmp(i, j)) {
                Ok(got) => {
                    evals += 1;
                    oc[(got as i8 + 1) as usize] += 1;
                    if got != want {
                        rp.fail(
                            "make_comparator",
                            "order",
                            format!("{label} {}: cmp({i},{j}) = {} but model order of {} vs {} is {}", o.show(), ord_name(got), va[i].show(), vb[j].show(), ord_name(want)),
                        );
                        flush(rp.st, &oc);
                        return evals;
                    }
                }
                Err(p) => {
                    rp.panic("make_comparator", &p, format!("{label} {} cmp({i},{j})", o.show()));
                    flush(rp.st, &oc);
                    return evals;
                }
            }
        }
    }
    flush(rp.st, &oc);
    evals
}

/// single-row slices are `==` exactly when the logical values are structurally equal
fn check_eq_consistency(a: &ArrayRef, va: &[Val], rp: &mut Rp, label: &str) -> u64 {
    let mut evals = 0;
    let a_has_view = { let t = format!("{}", a.data_type()); t.contains("Utf8View") || t.contains("BinaryView") };
    for i in 0..va.len() {
        for j in 0..va.len() {
            let (x, y) = (a.slice(i, 1), a.slice(j, 1));
            match catch(|| x.as_ref() == y.as_ref()) {
                Ok(got) => {
                    evals += 1;
                    if got != (va[i] == va[j]) {
                        let msg = format!("{label}: slice({i},1) == slice({j},1) is {got} but the values are {} and {}", va[i].show(), va[j].show());
                        if a_has_view {
                            // one class for every container that reaches a byte-view child (byte_view_equal)
                            rp.raw("c10:array_eq:comparator-consistency:view-child".to_string(), msg);
                        } else {
                            rp.fail("array_eq", "comparator-consistency", msg);
                        }
                        return evals;
                    }
                }
                Err(p) => {
                    rp.panic("array_eq", &p, format!("{label} rows {i},{j}"));
                    return evals;
                }
            }
        }
    }
    evals
}

fn check_sorted_array(api: &str, out: &ArrayRef, ty: &Ty, exp_vals: &[&Val], rp: &mut Rp, label: &str) {
    if let Err(e) = validate(out.as_ref()) {
        rp.wf(api, format!("{label}: result fails validate_full: {e}"));
        return;
    }
    if out.data_type() != &ty.data_type() {
        rp.fail(api, "data-type", format!("{label}: result type {} != input type {}", out.data_type(), ty.data_type()));
        return;
    }
    let got = match catch(|| extract(out.as_ref())) {
        Ok(g) => g,
        Err(p) => {
            rp.panic(api, &p, format!("{label}: reading the result"));
            return;
        }
    };
    if got.len() != exp_vals.len() {
        // one class for every API that materialises the sorted rows with `take`
        let fp = format!("c10:sorted-take:len:{}", rp.kind);
        let msg = format!("{api} {label}: result has {} rows, expected {} (the index form of the same sort is checked separately)", got.len(), exp_vals.len());
        rp.raw(fp, msg);
        return;
    }
    if got.iter().zip(exp_vals.iter()).any(|(g, e)| g != *e) {
        rp.fail(api, "values", format!("{label}: result {} but the model-sorted prefix is [{}]", show_col(&got), exp_vals.iter().map(|v| v.show()).collect::<Vec<_>>().join(", ")));
    }
}

/// everything that takes one column
fn unary_checks(ty: &Ty, vals: &[Val], lay: Lay, all_limits: bool, do_eq: bool, rp: &mut Rp) -> u64 {
    let n = vals.len();
    let mut evals = 0u64;
    let label = format!("{} {} {}", ty.name(), show_col(vals), lay.show());
    let arr = match catch(|| realise(ty, vals, lay)) {
        Ok(a) => a,
        Err(p) => {
            rp.fail("harness", "realise-panic", format!("{label}: {} at {}:{}", p.msg, p.file, p.line));
            return 0;
        }
    };
    if let Err(e) = validate(arr.as_ref()) {
        rp.fail("harness", "realise-invalid", format!("{label}: {e}"));
        return 0;
    }
    match catch(|| extract(arr.as_ref())) {
        Ok(back) if back == vals => {}
        Ok(back) => {
            rp.fail("harness", "extract-roundtrip", format!("{label}: extract gives {}", show_col(&back)));
            return 0;
        }
        Err(p) => {
            rp.fail("harness", "extract-panic", format!("{label}: {} at {}:{}", p.msg, p.file, p.line));
            return 0;
        }
    }
    // dictionaries in the alt encoding reach nulls through a null dictionary value: `==` compares the
    // physical key validity there (documented refinement, DESIGN 3.1), so the consistency check is
    // restricted to layouts without that indirection; unions: null of branch A vs null of branch B are
    // Equal for the comparator (logical_nulls) but different values, also excluded.
    let has_dict_alt = lay.alt && type_has_dict(ty);
    if do_eq && !has_dict_alt && !type_has_union(ty) {
        evals += check_eq_consistency(&arr, vals, rp, &label);
    }
    // partition_validity: (indices of physically valid slots, indices of physically null slots), ascending
    {
        evals += 1;
        match catch(|| partition_validity(arr.as_ref())) {
            Err(p) => rp.panic("partition_validity", &p, label.clone()),
            Ok((v, nl)) => {
                let want_v: Vec<u32> = (0..n).filter(|i| !arr.is_null(*i)).map(|i| i as u32).collect();
                let want_n: Vec<u32> = (0..n).filter(|i| arr.is_null(*i)).map(|i| i as u32).collect();
                if v != want_v || nl != want_n {
                    rp.fail("partition_validity", "indices", format!("{label}: got valid {v:?} null {nl:?}, expected {want_v:?} / {want_n:?}"));
                }
            }
        }
    }
    let sortable = can_sort(ty);
    let rankable = can_rank(ty);
    for o in ALL_OPTS {
        evals += check_comparator(&arr, &arr, vals, vals, o, rp, &label);
        let cmp = |i: usize, j: usize| cmp_opts(&vals[i], &vals[j], o);
        let exp = model_sorted(n, &cmp);
        let exp_vals: Vec<&Val> = exp.iter().map(|i| &vals[*i]).collect();
        let lab = format!("{label} {}", o.show());

        // ---- sort_to_indices / sort_limit / lexsort_to_indices(1 column) / lexsort
        for limit in limits_for(n, all_limits) {
            let wl = want_len(n, limit);
            let lab = format!("{lab} limit={limit:?}");
            evals += 1;
            match catch(|| sort_to_indices(arr.as_ref(), Some(o.arrow()), limit)) {
                Err(p) => rp.panic("sort_to_indices", &p, lab.clone()),
                Ok(Err(e)) => {
                    rp.st.outcome("sort_to_indices:error");
                    if sortable {
                        rp.fail("sort_to_indices", "unsupported", format!("{lab}: error for a supported type: {e}"));
                    }
                }
                Ok(Ok(idx)) => {
                    rp.st.outcome("sort_to_indices:ok");
                    if let Err(e) = validate(&idx) {
                        rp.wf("sort_to_indices", format!("{lab}: {e}"));
                    } else if let Err(e) = check_perm(&idx, n, wl, &exp, &cmp) {
                        rp.fail("sort_to_indices", "order", format!("{lab}: {e}"));
                    }
                }
            }
            evals += 1;
            match catch(|| sort_limit(arr.as_ref(), Some(o.arrow()), limit)) {
                Err(p) => rp.panic("sort_limit", &p, lab.clone()),
                Ok(Err(e)) => {
                    rp.st.outcome("sort_limit:error");
                    if sortable {
                        rp.fail("sort_limit", "unsupported", format!("{lab}: error for a supported type: {e}"));
                    }
                }
                Ok(Ok(out)) => {
                    rp.st.outcome("sort_limit:ok");
                    check_sorted_array("sort_limit", &out, ty, &exp_vals[..wl], rp, &lab);
                }
            }
            // single-column lexsort: sort_to_indices fast path for sortable types, the
            // LexicographicalComparator path for everything else (structs, maps, unions, ...)
            let cols = vec![SortColumn { values: arr.clone(), options: Some(o.arrow()) }];
            evals += 1;
            match catch(|| lexsort_to_indices(&cols, limit)) {
                Err(p) => rp.panic("lexsort_to_indices", &p, lab.clone()),
                Ok(Err(e)) => {
                    rp.st.outcome("lexsort_to_indices:error");
                    rp.fail("lexsort_to_indices", "unsupported", format!("{lab}: error: {e}"));
                }
                Ok(Ok(idx)) => {
                    rp.st.outcome("lexsort_to_indices:ok");
                    if let Err(e) = validate(&idx) {
                        rp.wf("lexsort_to_indices", format!("{lab}: {e}"));
                    } else if let Err(e) = check_perm(&idx, n, wl, &exp, &cmp) {
                        rp.fail("lexsort_to_indices", "order-1col", format!("{lab}: {e}"));
                    }
                }
            }
            evals += 1;
            match catch(|| lexsort(&cols, limit)) {
                Err(p) => rp.panic("lexsort", &p, lab.clone()),
                Ok(Err(e)) => {
                    // lexsort = lexsort_to_indices + take; `take` may not support every type
                    rp.st.outcome("lexsort:error");
                    if sortable {
                        rp.fail("lexsort", "unsupported", format!("{lab}: error for a supported type: {e}"));
                    }
                }
                Ok(Ok(out)) => {
                    rp.st.outcome("lexsort:ok");
                    if out.len() != 1 {
                        rp.fail("lexsort", "columns", format!("{lab}: {} columns returned", out.len()));
                    } else {
                        check_sorted_array("lexsort", &out[0], ty, &exp_vals[..wl], rp, &lab);
                    }
                }
            }
        }
        // ---- sort
        evals += 1;
        match catch(|| sort(arr.as_ref(), Some(o.arrow()))) {
            Err(p) => rp.panic("sort", &p, lab.clone()),
            Ok(Err(e)) => {
                rp.st.outcome("sort:error");
                if sortable {
                    rp.fail("sort", "unsupported", format!("{lab}: error for a supported type: {e}"));
                }
            }
            Ok(Ok(out)) => {
                rp.st.outcome("sort:ok");
                check_sorted_array("sort", &out, ty, &exp_vals, rp, &lab);
            }
        }
        // ---- rank: "where values are equal, they will be assigned the highest of their ranks":
        // rank(i) = #{j : key(j) <= key(i)} in the option's order
        evals += 1;
        match catch(|| rank(arr.as_ref(), Some(o.arrow()))) {
            Err(p) => rp.panic("rank", &p, lab.clone()),
            Ok(Err(e)) => {
                rp.st.outcome("rank:error");
                if rankable {
                    rp.fail("rank", "unsupported", format!("{lab}: error for a supported type: {e}"));
                }
            }
            Ok(Ok(r)) => {
                rp.st.outcome("rank:ok");
                let want: Vec<u32> = (0..n).map(|i| (0..n).filter(|j| cmp(*j, i) != Ordering::Greater).count() as u32).collect();
                if r != want {
                    rp.fail("rank", "values", format!("{lab}: rank = {r:?}, expected {want:?}"));
                }
            }
        }
        // ---- LexicographicalComparator on one column
        evals += 1;
        match catch(|| LexicographicalComparator::try_new(&[SortColumn { values: arr.clone(), options: Some(o.arrow()) }])) {
            Err(p) => rp.panic("LexicographicalComparator", &p, lab.clone()),
            Ok(Err(e)) => rp.fail("LexicographicalComparator", "unsupported", format!("{lab}: {e}")),
            Ok(Ok(lc)) => {
                'outer: for i in 0..n {
                    for j in 0..n {
                        match catch(|| lc.compare(i, j)) {
                            Ok(got) => {
                                if got != cmp(i, j) {
                                    rp.fail("LexicographicalComparator", "order", format!("{lab}: compare({i},{j}) = {} but model says {}", ord_name(got), ord_name(cmp(i, j))));
                                    break 'outer;
                                }
                            }
                            Err(p) => {
                                rp.panic("LexicographicalComparator", &p, lab.clone());
                                break 'outer;
                            }
                        }
                    }
                }
            }
        }
        // ---- partition on the model-sorted column (documented precondition: sorted input)
        let sorted_vals: Vec<Val> = exp_vals.iter().map(|v| (*v).clone()).collect();
        if let Ok(sarr) = catch(|| realise(ty, &sorted_vals, lay)) {
            evals += 1;
            check_partition(&[sarr], n, &|i, j| cmp_opts(&sorted_vals[i], &sorted_vals[j], o) == Ordering::Equal, rp, &lab);
        }
    }
    evals
}

fn type_has_dict(ty: &Ty) -> bool {
    match ty {
        Ty::Dict(..) => true,
        Ty::Ree(_, v) | Ty::List(_, v) | Ty::Fsl(_, v) => type_has_dict(v),
        Ty::Struct(fs) => fs.iter().any(type_has_dict),
        Ty::Map(k, v) => type_has_dict(k) || type_has_dict(v),
        Ty::Union(_, cs) => cs.iter().any(|c| type_has_dict(&c.1)),
        _ => false,
    }
}
fn type_has_union(ty: &Ty) -> bool {
    match ty {
        Ty::Union(..) => true,
        Ty::Dict(_, v) | Ty::Ree(_, v) | Ty::List(_, v) | Ty::Fsl(_, v) => type_has_union(v),
        Ty::Struct(fs) => fs.iter().any(type_has_union),
        Ty::Map(k, v) => type_has_union(k) || type_has_union(v),
        _ => false,
    }
}

/// partition boundaries exactly where some column's values differ between adjacent rows
fn check_partition(cols: &[ArrayRef], n: usize, row_eq: &dyn Fn(usize, usize) -> bool, rp: &mut Rp, lab: &str) {
    match catch(|| partition(cols)) {
        Err(p) => rp.panic("partition", &p, lab.to_string()),
        Ok(Err(e)) => {
            rp.st.outcome("partition:error");
            rp.fail("partition", "unsupported", format!("{lab}: {e}"));
        }
        Ok(Ok(parts)) => {
            rp.st.outcome("partition:ok");
            let got = parts.ranges();
            let mut want = vec![];
            if n > 0 {
                let mut s = 0;
                for i in 0..n - 1 {
                    if !row_eq(i, i + 1) {
                        want.push(s..i + 1);
                        s = i + 1;
                    }
                }
                want.push(s..n);
            }
            if got != want {
                rp.fail("partition", "ranges", format!("{lab}: partition ranges {got:?}, expected {want:?}"));
            } else if parts.len() != want.len() || parts.is_empty() != (n == 0) {
                rp.fail("partition", "len", format!("{lab}: Partitions::len() = {} is_empty = {} for {} ranges", parts.len(), parts.is_empty(), want.len()));
            }
        }
    }
}

// ---- comparison kernels

const OPS: [&str; 8] = ["eq", "neq", "lt", "lt_eq", "gt", "gt_eq", "distinct", "not_distinct"];

fn run_op(op: usize, l: &dyn arrow_array::Datum, r: &dyn arrow_array::Datum) -> Result<BooleanArray, arrow_schema::ArrowError> {
    match op {
        0 => k::eq(l, r),
        1 => k::neq(l, r),
        2 => k::lt(l, r),
        3 => k::lt_eq(l, r),
        4 => k::gt(l, r),
        5 => k::gt_eq(l, r),
        6 => k::distinct(l, r),
        _ => k::not_distinct(l, r),
    }
}

fn model_op(op: usize, a: &Val, b: &Val) -> Option<bool> {
    let (an, bn) = (a.is_null(), b.is_null());
    if op >= 6 {
        let same = if an || bn { an && bn } else { cmp_nonnull(a, b, true) == Ordering::Equal };
        return Some(if op == 6 { !same } else { same });
    }
    if an || bn {
        return None;
    }
    let c = cmp_nonnull(a, b, true);
    Some(match op {
        0 => c == Ordering::Equal,
        1 => c != Ordering::Equal,
        2 => c == Ordering::Less,
        3 => c != Ordering::Greater,
        4 => c == Ordering::Greater,
        _ => c != Ordering::Less,
    })
}

/// all 8 kernels on (l, r) in the given Datum form.
/// Fingerprints are input-class level: the 8 operators share one implementation (`compare_op`), so a
/// failure is keyed by (operator group, symptom, operand kind) and two special input classes get their
/// own key: "both operands scalar with an encoded right side" and "empty run-end slice vs scalar".
fn check_kernels(l: &ArrayRef, l_scalar: bool, r: &ArrayRef, r_scalar: bool, lv: &[Val], rv: &[Val], supported: bool, rp: &mut Rp, label: &str) -> u64 {
    use arrow_schema::DataType;
    let n = if l_scalar { rv.len() } else { lv.len() };
    let form = match (l_scalar, r_scalar) {
        (false, false) => "array/array",
        (false, true) => "array/scalar",
        (true, false) => "scalar/array",
        (true, true) => "scalar/scalar",
    };
    let is_ree = |a: &ArrayRef| matches!(a.data_type(), DataType::RunEndEncoded(..));
    let is_enc = |a: &ArrayRef| matches!(a.data_type(), DataType::Dictionary(..) | DataType::RunEndEncoded(..));
    let class: Option<&str> = if l_scalar && r_scalar && is_enc(r) {
        Some("c10:cmp-kernels:scalar-scalar-encoded-rhs")
    } else if (is_ree(l) && !l_scalar && l.is_empty()) || (is_ree(r) && !r_scalar && r.is_empty()) {
        Some("c10:cmp-kernels:empty-ree-slice")
    } else {
        None
    };
    let ls = l_scalar.then(|| Scalar::new(l.clone()));
    let rs = r_scalar.then(|| Scalar::new(r.clone()));
    let ld: &dyn arrow_array::Datum = match &ls {
        Some(s) => s,
        None => l,
    };
    let rd: &dyn arrow_array::Datum = match &rs {
        Some(s) => s,
        None => r,
    };
    let mut evals = 0;
    let (mut c_null, mut c_true, mut c_false, mut c_err) = (0u64, 0u64, 0u64, 0u64);
    let report = |rp: &mut Rp, op: usize, symptom: &str, msg: String| {
        let group = if op >= 6 { "distinct" } else { "ordered" };
        let fp = match class {
            Some(c) => c.to_string(),
            None => format!("c10:cmp-kernels:{group}:{symptom}:{}", rp.kind),
        };
        rp.raw(fp, msg);
    };
    for op in 0..8 {
        evals += 1;
        let api = OPS[op];
        match catch(|| run_op(op, ld, rd)) {
            Err(p) => report(rp, op, &crate::report::panic_fp(&p), format!("{api} panicked: {} at {}:{} ({label} {form})", p.msg, p.file, p.line)),
            Ok(Err(e)) => {
                c_err += 1;
                if supported {
                    report(rp, op, "unsupported", format!("{api} {label} {form}: error for a supported type: {e}"));
                }
            }
            Ok(Ok(out)) => {
                if let Err(e) = validate(&out) {
                    report(rp, op, "wf", format!("wf: {api} {label} {form}: {e}"));
                    continue;
                }
                if out.len() != n {
                    report(rp, op, "len", format!("{api} {label} {form}: result has {} rows, expected {n}", out.len()));
                    continue;
                }
                for i in 0..n {
                    let a = &lv[if l_scalar { 0 } else { i }];
                    let b = &rv[if r_scalar { 0 } else { i }];
                    let want = model_op(op, a, b);
                    let got = if out.is_null(i) { None } else { Some(out.value(i)) };
                    match got {
                        None => c_null += 1,
                        Some(true) => c_true += 1,
                        Some(false) => c_false += 1,
                    }
                    if got != want {
                        report(rp, op, "value", format!("{api} {label} {form}: row {i}: {} {api} {} = {got:?}, expected {want:?}", a.show(), b.show()));
                        break;
                    }
                }
            }
        }
    }
    rp.st.outcome_n("kernel:null", c_null);
    rp.st.outcome_n("kernel:true", c_true);
    rp.st.outcome_n("kernel:false", c_false);
    rp.st.outcome_n("kernel:error", c_err);
    evals
}

// -------------------------------------------------------------------------------------------------
// sub-engine drivers

pub const UNARY_LAYOUTS: [Lay; 5] = [
    COMPACT,
    Lay { garbage: false, alt: false, lead: 1, trail: 1 },
    Lay { garbage: true, alt: false, lead: 0, trail: 0 },
    Lay { garbage: false, alt: true, lead: 0, trail: 0 },
    Lay { garbage: true, alt: true, lead: 3, trail: 0 },
];

fn col_vals(al: &[Val], col: &[u8]) -> Vec<Val> {
    col.iter().map(|i| al[*i as usize].clone()).collect()
}

fn nontrivial(vals: &[Val]) -> bool {
    vals.len() >= 2 && vals.iter().any(|v| v != &vals[0])
}

struct TyJob {
    ty: Ty,
    al: Vec<Val>,
    space: ColSpace,
    start: u64,
}

fn locate<'a>(jobs: &'a [TyJob], idx: u64) -> (&'a TyJob, u64) {
    let p = jobs.partition_point(|j| j.start <= idx) - 1;
    (&jobs[p], idx - jobs[p].start)
}

fn lay_json(l: Lay) -> Value {
    json!({"garbage": l.garbage, "alt": l.alt, "lead": l.lead, "trail": l.trail})
}
fn lay_from(v: &Value) -> Lay {
    Lay { garbage: v["garbage"].as_bool().unwrap_or(false), alt: v["alt"].as_bool().unwrap_or(false), lead: v["lead"].as_u64().unwrap_or(0) as usize, trail: v["trail"].as_u64().unwrap_or(0) as usize }
}

fn all_types(thorough: bool) -> Vec<Ty> {
    let mut v = leaf_types(thorough);
    v.extend(composite_types(thorough));
    v
}

fn find_type(name: &str) -> Ty {
    all_types(true).into_iter().find(|t| t.name() == name).unwrap_or_else(|| {
        eprintln!("MACHINERY: unknown type {name}");
        std::process::exit(2)
    })
}

fn run_unary_case(ty: &Ty, col: &[u8], lays: &[Lay], all_limits: bool, st: &mut Stats, order: u64, verbose: bool) -> u64 {
    let al = alphabet(ty);
    let vals = col_vals(&al, col);
    let mut evals = 0;
    for (li, lay) in lays.iter().enumerate() {
        let case = || json!({"sub": "unary", "type": ty.name(), "col": col, "layout": lay_json(*lay), "values": show_col(&vals)});
        let mut rp = Rp { st, order, prop: "c10", kind: kind_of(ty), case: &case, verbose };
        evals += unary_checks(ty, &vals, *lay, all_limits || li < 2, li == 0 || li == 3, &mut rp);
    }
    evals
}

// ---- pairs: two-array comparator + comparison kernels

/// encodings of one value type that the kernels accept on either side
fn family(v: &Ty, wide: bool) -> Vec<Ty> {
    use arrow_schema::DataType::*;
    let mut f = vec![v.clone()];
    if matches!(v, Ty::Null) {
        return f;
    }
    if wide {
        f.push(dict(Int8, v.clone()));
        f.push(ree(Int16, v.clone()));
        f.push(dict(UInt32, v.clone()));
        f.push(ree(Int64, dict(Int16, v.clone())));
    }
    f
}

const PAIR_LAYOUTS: [(Lay, Lay); 4] = [
    (COMPACT, COMPACT),
    (Lay { garbage: true, alt: false, lead: 1, trail: 0 }, Lay { garbage: false, alt: true, lead: 0, trail: 1 }),
    (Lay { garbage: false, alt: true, lead: 0, trail: 0 }, Lay { garbage: true, alt: false, lead: 2, trail: 1 }),
    (Lay { garbage: true, alt: true, lead: 3, trail: 0 }, Lay { garbage: true, alt: true, lead: 1, trail: 1 }),
];

fn run_pair_case(lt: &Ty, rt: &Ty, lcol: &[u8], rcol: &[u8], lay_pairs: &[(Lay, Lay)], st: &mut Stats, order: u64, verbose: bool) -> u64 {
    let leaf = kernel_leaf(lt).clone();
    let al = alphabet(&leaf);
    let al_l = alphabet(lt);
    let al_r = alphabet(rt);
    debug_assert_eq!(al_l, al);
    debug_assert_eq!(al_r, al);
    let lv = col_vals(&al, lcol);
    let rv = col_vals(&al, rcol);
    let mut evals = 0;
    let supported = can_kernel(lt) && can_kernel(rt);
    for (ll, rl) in lay_pairs {
        let case = || json!({"sub": "pair", "ltype": lt.name(), "rtype": rt.name(), "lcol": lcol, "rcol": rcol, "llayout": lay_json(*ll), "rlayout": lay_json(*rl), "lvalues": show_col(&lv), "rvalues": show_col(&rv)});
        let mut rp = Rp { st, order, prop: "c10", kind: kind_of(lt), case: &case, verbose };
        let label = format!("{} {} [{}] vs {} {} [{}]", lt.name(), show_col(&lv), ll.show(), rt.name(), show_col(&rv), rl.show());
        let (l, r) = match catch(|| (realise(lt, &lv, *ll), realise(rt, &rv, *rl))) {
            Ok(x) => x,
            Err(p) => {
                rp.fail("harness", "realise-panic", format!("{label}: {} at {}:{}", p.msg, p.file, p.line));
                continue;
            }
        };
        if extract(l.as_ref()) != lv || extract(r.as_ref()) != rv || validate(l.as_ref()).is_err() || validate(r.as_ref()).is_err() {
            rp.fail("harness", "extract-roundtrip", label.clone());
            continue;
        }
        // two-array comparator (same type on both sides only)
        if lt == rt {
            for o in ALL_OPTS {
                evals += check_comparator(&l, &r, &lv, &rv, o, &mut rp, &label);
            }
        }
        if rp.kind == "union" || !matches!(leaf, Ty::Prim(_) | Ty::Bool | Ty::Bytes(_) | Ty::Fsb(_) | Ty::Null) {
            // nested: the kernels must refuse (documented: "Nested types ... are not supported")
            if lcol.len() == rcol.len() {
                evals += check_kernels(&l, false, &r, false, &lv, &rv, false, &mut rp, &label);
            }
            continue;
        }
        if lcol.len() == rcol.len() {
            evals += check_kernels(&l, false, &r, false, &lv, &rv, supported, &mut rp, &label);
        }
        if rcol.len() == 1 {
            evals += check_kernels(&l, false, &r, true, &lv, &rv, supported, &mut rp, &label);
        }
        if lcol.len() == 1 {
            evals += check_kernels(&l, true, &r, false, &lv, &rv, supported, &mut rp, &label);
        }
        if lcol.len() == 1 && rcol.len() == 1 {
            evals += check_kernels(&l, true, &r, true, &lv, &rv, supported, &mut rp, &label);
        }
    }
    evals
}

// ---- tuples: lexsort / LexicographicalComparator / partition with independent options

fn run_tuple_case(tys: &[Ty], rows: &[Vec<u8>], lays: &[Lay], opt_sets: &[Vec<Opts>], st: &mut Stats, order: u64, verbose: bool) -> u64 {
    let nc = tys.len();
    let n = rows.len();
    let als: Vec<Vec<Val>> = tys.iter().map(alphabet).collect();
    let cols_v: Vec<Vec<Val>> = (0..nc).map(|c| rows.iter().map(|r| als[c][r[c] as usize].clone()).collect()).collect();
    let mut evals = 0;
    let tname = tys.iter().map(|t| t.name()).collect::<Vec<_>>().join(" | ");
    for lay in lays {
        let case = || json!({"sub": "tuple", "types": tys.iter().map(|t| t.name()).collect::<Vec<_>>(), "rows": rows, "layout": lay_json(*lay), "values": cols_v.iter().map(|c| show_col(c)).collect::<Vec<_>>()});
        let mut rp = Rp { st, order, prop: "c10", kind: "tuple", case: &case, verbose };
        let arrs: Vec<ArrayRef> = match catch(|| (0..nc).map(|c| realise(&tys[c], &cols_v[c], *lay)).collect()) {
            Ok(a) => a,
            Err(p) => {
                rp.fail("harness", "realise-panic", format!("{tname}: {} at {}:{}", p.msg, p.file, p.line));
                continue;
            }
        };
        for os in opt_sets {
            let lab = format!("({tname}) {} [{}] {}", cols_v.iter().map(|c| show_col(c)).collect::<Vec<_>>().join(" "), lay.show(), os.iter().map(|o| o.show()).collect::<Vec<_>>().join(","));
            let cmp = |i: usize, j: usize| {
                for c in 0..nc {
                    match cmp_opts(&cols_v[c][i], &cols_v[c][j], os[c]) {
                        Ordering::Equal => {}
                        r => return r,
                    }
                }
                Ordering::Equal
            };
            let exp = model_sorted(n, &cmp);
            let scols: Vec<SortColumn> = (0..nc).map(|c| SortColumn { values: arrs[c].clone(), options: Some(os[c].arrow()) }).collect();
            // LexicographicalComparator
            evals += 1;
            match catch(|| LexicographicalComparator::try_new(&scols)) {
                Err(p) => rp.panic("LexicographicalComparator", &p, lab.clone()),
                Ok(Err(e)) => rp.fail("LexicographicalComparator", "unsupported", format!("{lab}: {e}")),
                Ok(Ok(lc)) => {
                    'outer: for i in 0..n {
                        for j in 0..n {
                            let got = lc.compare(i, j);
                            if got != cmp(i, j) {
                                rp.fail("LexicographicalComparator", "order", format!("{lab}: compare({i},{j}) = {} but model says {}", ord_name(got), ord_name(cmp(i, j))));
                                break 'outer;
                            }
                        }
                    }
                }
            }
            for limit in limits_for(n, true) {
                let wl = want_len(n, limit);
                let lab = format!("{lab} limit={limit:?}");
                evals += 1;
                match catch(|| lexsort_to_indices(&scols, limit)) {
                    Err(p) => rp.panic("lexsort_to_indices", &p, lab.clone()),
                    Ok(Err(e)) => rp.fail("lexsort_to_indices", "unsupported", format!("{lab}: {e}")),
                    Ok(Ok(idx)) => {
                        rp.st.outcome("lexsort_to_indices:ok");
                        if let Err(e) = validate(&idx) {
                            rp.wf("lexsort_to_indices", format!("{lab}: {e}"));
                        } else if let Err(e) = check_perm(&idx, n, wl, &exp, &cmp) {
                            rp.fail("lexsort_to_indices", "order", format!("{lab}: {e}"));
                        }
                    }
                }
                evals += 1;
                match catch(|| lexsort(&scols, limit)) {
                    Err(p) => rp.panic("lexsort", &p, lab.clone()),
                    Ok(Err(e)) => {
                        rp.st.outcome("lexsort:error");
                        // take() does not support every comparable type; an error is acceptable, a wrong answer is not
                        let _ = e;
                    }
                    Ok(Ok(out)) => {
                        rp.st.outcome("lexsort:ok");
                        if out.len() != nc {
                            rp.fail("lexsort", "columns", format!("{lab}: {} columns returned", out.len()));
                        } else {
                            for c in 0..nc {
                                let ev: Vec<&Val> = exp[..wl].iter().map(|i| &cols_v[c][*i]).collect();
                                check_sorted_array("lexsort", &out[c], &tys[c], &ev, &mut rp, &format!("{lab} column {c}"));
                            }
                        }
                    }
                }
            }
            // partition on the model-sorted tuple columns
            let sorted_cols: Vec<Vec<Val>> = (0..nc).map(|c| exp.iter().map(|i| cols_v[c][*i].clone()).collect()).collect();
            if let Ok(sarrs) = catch(|| (0..nc).map(|c| realise(&tys[c], &sorted_cols[c], *lay)).collect::<Vec<ArrayRef>>()) {
                evals += 1;
                let row_eq = |i: usize, j: usize| (0..nc).all(|c| cmp_opts(&sorted_cols[c][i], &sorted_cols[c][j], os[c]) == Ordering::Equal);
                check_partition(&sarrs, n, &row_eq, &mut rp, &lab);
            }
        }
    }
    evals
}

fn opt_product(nc: usize) -> Vec<Vec<Opts>> {
    let mut out = vec![vec![]];
    for _ in 0..nc {
        let mut next = vec![];
        for p in &out {
            for o in ALL_OPTS {
                let mut q: Vec<Opts> = p.clone();
                q.push(o);
                next.push(q);
            }
        }
        out = next;
    }
    out
}

// ---- long structured families

#[derive(Clone, Copy, Debug)]
enum Pat {
    Const,
    RampUp,
    RampDown,
    Alternate,
    LfsrA,
    LfsrB,
    Outlier(u8),
}
const PATS: [Pat; 9] = [Pat::Const, Pat::RampUp, Pat::RampDown, Pat::Alternate, Pat::LfsrA, Pat::LfsrB, Pat::Outlier(0), Pat::Outlier(1), Pat::Outlier(2)];
#[derive(Clone, Copy, Debug)]
enum NullPat {
    None,
    Every3,
    FirstHalf,
    Lfsr,
    AllButOne,
}
const NPATS: [NullPat; 5] = [NullPat::None, NullPat::Every3, NullPat::FirstHalf, NullPat::Lfsr, NullPat::AllButOne];

fn long_column(al_nn: &[Val], nullable: bool, len: usize, p: Pat, np: NullPat, streams: &(Vec<u8>, Vec<u8>, Vec<u8>)) -> Vec<Val> {
    let k = al_nn.len().max(1);
    (0..len)
        .map(|i| {
            let is_null = nullable
                && match np {
                    NullPat::None => false,
                    NullPat::Every3 => i % 3 == 1,
                    NullPat::FirstHalf => i < len / 2,
                    NullPat::Lfsr => streams.2[i % streams.2.len()] & 3 == 0,
                    NullPat::AllButOne => i != len / 3,
                };
            if is_null || al_nn.is_empty() {
                return Val::Null;
            }
            let li = match p {
                Pat::Const => 0,
                Pat::RampUp => i % k,
                Pat::RampDown => (len - 1 - i) % k,
                Pat::Alternate => (i % 2) * (k - 1),
                Pat::LfsrA => streams.0[i % streams.0.len()] as usize % k,
                Pat::LfsrB => streams.1[i % streams.1.len()] as usize % k,
                Pat::Outlier(w) => {
                    let pos = match w {
                        0 => 0,
                        1 => len / 2,
                        _ => len - 1,
                    };
                    if i == pos { k - 1 } else { 0 }
                }
            };
            al_nn[li].clone()
        })
        .collect()
}

fn long_limits(n: usize) -> Vec<Option<usize>> {
    let mut l = vec![0, 1, 2, (n / 10).saturating_sub(1), n / 10, n / 10 + 1, n / 2, n.saturating_sub(1), n, n + 1];
    l.sort();
    l.dedup();
    let mut v = vec![None];
    v.extend(l.into_iter().map(Some));
    v
}

fn run_long_case(tys: &[Ty], len: usize, pats: &[(Pat, NullPat)], lay: Lay, os: &[Opts], st: &mut Stats, order: u64, verbose: bool) -> u64 {
    let streams = (vcore::lfsr_bytes(2048, vcore::LFSR_A), vcore::lfsr_bytes(2048, vcore::LFSR_B), vcore::lfsr_bytes(2048, vcore::LFSR_C));
    let nc = tys.len();
    let cols_v: Vec<Vec<Val>> = (0..nc).map(|c| long_column(&alphabet_nn(&tys[c]), tys[c].is_nullable_top(), len, pats[c].0, pats[c].1, &streams)).collect();
    let case = || json!({"sub": "long", "types": tys.iter().map(|t| t.name()).collect::<Vec<_>>(), "len": len, "patterns": pats.iter().map(|p| format!("{:?}/{:?}", p.0, p.1)).collect::<Vec<_>>(), "layout": lay_json(lay), "opts": os.iter().map(|o| o.idx()).collect::<Vec<_>>()});
    let kind = if nc == 1 { kind_of(&tys[0]) } else { "tuple" };
    let mut rp = Rp { st, order, prop: "c10", kind, case: &case, verbose };
    let lab = format!("long ({}) len={len} {:?} [{}] {}", tys.iter().map(|t| t.name()).collect::<Vec<_>>().join(" | "), pats, lay.show(), os.iter().map(|o| o.show()).collect::<Vec<_>>().join(","));
    let arrs: Vec<ArrayRef> = match catch(|| (0..nc).map(|c| realise(&tys[c], &cols_v[c], lay)).collect()) {
        Ok(a) => a,
        Err(p) => {
            rp.fail("harness", "realise-panic", format!("{lab}: {} at {}:{}", p.msg, p.file, p.line));
            return 0;
        }
    };
    for c in 0..nc {
        if extract(arrs[c].as_ref()) != cols_v[c] {
            rp.fail("harness", "extract-roundtrip", lab.clone());
            return 0;
        }
    }
    let n = len;
    let mut evals = 0;
    let cmp = |i: usize, j: usize| {
        for c in 0..nc {
            match cmp_opts(&cols_v[c][i], &cols_v[c][j], os[c]) {
                Ordering::Equal => {}
                r => return r,
            }
        }
        Ordering::Equal
    };
    let exp = model_sorted(n, &cmp);
    let scols: Vec<SortColumn> = (0..nc).map(|c| SortColumn { values: arrs[c].clone(), options: Some(os[c].arrow()) }).collect();
    let all_sortable = tys.iter().all(can_sort);
    for limit in long_limits(n) {
        let wl = want_len(n, limit);
        let lab = format!("{lab} limit={limit:?}");
        // the public partial_sort helper with the model order as comparator: the first `limit` entries are
        // the smallest ones, sorted; the slice stays a permutation
        if let Some(l) = limit.filter(|l| *l <= n) {
            evals += 1;
            let mut v: Vec<usize> = (0..n).collect();
            match catch(|| partial_sort(&mut v, l, |a, b| cmp(*a, *b))) {
                Err(p) => rp.panic("partial_sort", &p, lab.clone()),
                Ok(()) => {
                    let mut seen = vec![false; n];
                    let perm = v.len() == n && v.iter().all(|i| *i < n && !std::mem::replace(&mut seen[*i], true));
                    if !perm || (0..l).any(|q| cmp(v[q], exp[q]) != Ordering::Equal) {
                        rp.fail("partial_sort", "order", format!("{lab}: first {l} entries are not the model-sorted prefix (or the slice is no longer a permutation)"));
                    }
                }
            }
        }
        evals += 1;
        match catch(|| lexsort_to_indices(&scols, limit)) {
            Err(p) => rp.panic("lexsort_to_indices", &p, lab.clone()),
            Ok(Err(e)) => rp.fail("lexsort_to_indices", "unsupported", format!("{lab}: {e}")),
            Ok(Ok(idx)) => {
                if let Err(e) = check_perm(&idx, n, wl, &exp, &cmp) {
                    rp.fail("lexsort_to_indices", if nc == 1 { "order-1col" } else { "order" }, format!("{lab}: {e}"));
                }
            }
        }
        if nc == 1 {
            let ty = &tys[0];
            evals += 1;
            match catch(|| sort_to_indices(arrs[0].as_ref(), Some(os[0].arrow()), limit)) {
                Err(p) => rp.panic("sort_to_indices", &p, lab.clone()),
                Ok(Err(e)) => {
                    if all_sortable {
                        rp.fail("sort_to_indices", "unsupported", format!("{lab}: {e}"));
                    }
                }
                Ok(Ok(idx)) => {
                    if let Err(e) = check_perm(&idx, n, wl, &exp, &cmp) {
                        rp.fail("sort_to_indices", "order", format!("{lab}: {e}"));
                    }
                }
            }
            evals += 1;
            match catch(|| sort_limit(arrs[0].as_ref(), Some(os[0].arrow()), limit)) {
                Err(p) => rp.panic("sort_limit", &p, lab.clone()),
                Ok(Err(e)) => {
                    if all_sortable {
                        rp.fail("sort_limit", "unsupported", format!("{lab}: {e}"));
                    }
                }
                Ok(Ok(out)) => {
                    let ev: Vec<&Val> = exp[..wl].iter().map(|i| &cols_v[0][*i]).collect();
                    check_sorted_array("sort_limit", &out, ty, &ev, &mut rp, &lab);
                }
            }
        }
    }
    if nc == 1 {
        let ty = &tys[0];
        evals += 1;
        match catch(|| sort(arrs[0].as_ref(), Some(os[0].arrow()))) {
            Err(p) => rp.panic("sort", &p, lab.clone()),
            Ok(Err(e)) => {
                if all_sortable {
                    rp.fail("sort", "unsupported", format!("{lab}: {e}"));
                }
            }
            Ok(Ok(out)) => {
                let ev: Vec<&Val> = exp.iter().map(|i| &cols_v[0][*i]).collect();
                check_sorted_array("sort", &out, ty, &ev, &mut rp, &lab);
            }
        }
        evals += 1;
        match catch(|| rank(arrs[0].as_ref(), Some(os[0].arrow()))) {
            Err(p) => rp.panic("rank", &p, lab.clone()),
            Ok(Err(e)) => {
                if can_rank(ty) {
                    rp.fail("rank", "unsupported", format!("{lab}: {e}"));
                }
            }
            Ok(Ok(r)) => {
                // rank(i) = #{j: key(j) <= key(i)}: position after the last equal key in the sorted order
                let mut want = vec![0u32; n];
                let mut kpos = 0;
                while kpos < n {
                    let mut e = kpos;
                    while e + 1 < n && cmp(exp[e + 1], exp[kpos]) == Ordering::Equal {
                        e += 1;
                    }
                    for q in kpos..=e {
                        want[exp[q]] = (e + 1) as u32;
                    }
                    kpos = e + 1;
                }
                if r != want {
                    let first = (0..n).find(|i| r[*i] != want[*i]).unwrap();
                    rp.fail("rank", "values", format!("{lab}: rank[{first}] = {} expected {}", r[first], want[first]));
                }
            }
        }
        // kernels against itself shifted by one row and against a scalar (64-bit chunk boundaries)
        if can_kernel(ty) && n >= 2 {
            let a = arrs[0].slice(0, n - 1);
            let b = arrs[0].slice(1, n - 1);
            evals += check_kernels(&a, false, &b, false, &cols_v[0][..n - 1], &cols_v[0][1..], true, &mut rp, &lab);
            let s = arrs[0].slice(n / 2, 1);
            evals += check_kernels(&arrs[0], false, &s, true, &cols_v[0], &cols_v[0][n / 2..n / 2 + 1], true, &mut rp, &lab);
            evals += check_kernels(&s, true, &arrs[0], false, &cols_v[0][n / 2..n / 2 + 1], &cols_v[0], true, &mut rp, &lab);
        }
    }
    // partition on sorted columns
    let sorted_cols: Vec<Vec<Val>> = (0..nc).map(|c| exp.iter().map(|i| cols_v[c][*i].clone()).collect()).collect();
    if let Ok(sarrs) = catch(|| (0..nc).map(|c| realise(&tys[c], &sorted_cols[c], lay)).collect::<Vec<ArrayRef>>()) {
        evals += 1;
        let row_eq = |i: usize, j: usize| (0..nc).all(|c| cmp_opts(&sorted_cols[c][i], &sorted_cols[c][j], os[c]) == Ordering::Equal);
        check_partition(&sarrs, n, &row_eq, &mut rp, &lab);
    }
    evals
}


// ---- top-k: lexsort_to_indices with a limit on both sides of the `limit <= rows / 10` switch
// (bounded max-heap path vs partial-sort path), driven by rank sequences

/// columns (types, options, values) that encode a rank sequence so that the tuple order under the
/// options is exactly the rank order (encodings 0-2) - mixed options, nulls and 2-3 columns
fn rank_cols(enc: usize, ranks: &[u32]) -> (Vec<Ty>, Vec<Opts>, Vec<Vec<Val>>) {
    use arrow_schema::DataType::*;
    let asc_nf = Opts { descending: false, nulls_first: true };
    let asc_nl = Opts { descending: false, nulls_first: false };
    let desc_nl = Opts { descending: true, nulls_first: false };
    let desc_nf = Opts { descending: true, nulls_first: true };
    match enc {
        0 => (
            vec![p(Int32), p(Int32)],
            vec![asc_nf, asc_nf],
            vec![ranks.iter().map(|r| Val::I(*r as i128)).collect(), ranks.iter().map(|_| Val::I(0)).collect()],
        ),
        1 => (
            vec![p(Int32), by(Utf8)],
            vec![desc_nl, asc_nf],
            vec![ranks.iter().map(|r| Val::I(-((*r / 2) as i128))).collect(), ranks.iter().map(|r| if r % 2 == 0 { Val::Null } else { Val::B(b"a".to_vec()) }).collect()],
        ),
        _ => (
            vec![p(Int32), p(Float64), p(Int8)],
            vec![asc_nl, desc_nf, asc_nl],
            vec![
                ranks.iter().map(|r| Val::I((*r / 16) as i128)).collect(),
                ranks.iter().map(|r| Val::F64((-(((*r / 4) % 4) as f64)).to_bits())).collect(),
                ranks.iter().map(|r| if r % 4 == 3 { Val::Null } else { Val::I((*r % 4) as i128) }).collect(),
            ],
        ),
    }
}

fn run_topk_case(enc: usize, ranks: &[u32], limits: &[usize], st: &mut Stats, order: u64, verbose: bool) -> u64 {
    let n = ranks.len();
    let (tys, os, cols_v) = rank_cols(enc, ranks);
    let nc = tys.len();
    let case = || json!({"sub": "topk", "enc": enc, "ranks": ranks, "limits": limits});
    let mut rp = Rp { st, order, prop: "c10", kind: "tuple", case: &case, verbose };
    let lab = format!("topk enc={enc} rows={n} ranks={ranks:?}");
    let arrs: Vec<ArrayRef> = match catch(|| (0..nc).map(|c| realise(&tys[c], &cols_v[c], COMPACT)).collect()) {
        Ok(a) => a,
        Err(pi) => {
            rp.fail("harness", "realise-panic", format!("{lab}: {} at {}:{}", pi.msg, pi.file, pi.line));
            return 0;
        }
    };
    let cmp = |i: usize, j: usize| {
        for c in 0..nc {
            match cmp_opts(&cols_v[c][i], &cols_v[c][j], os[c]) {
                Ordering::Equal => {}
                r => return r,
            }
        }
        Ordering::Equal
    };
    let exp = model_sorted(n, &cmp);
    // harness self-check: the encoding is order-isomorphic to the ranks
    if (0..n.saturating_sub(1)).any(|q| ranks[exp[q]] > ranks[exp[q + 1]]) {
        rp.fail("harness", "rank-encoding", format!("{lab}: tuple order differs from the rank order"));
        return 0;
    }
    let scols: Vec<SortColumn> = (0..nc).map(|c| SortColumn { values: arrs[c].clone(), options: Some(os[c].arrow()) }).collect();
    let mut evals = 0;
    for &l in limits {
        evals += 1;
        let lab = format!("{lab} limit={l}");
        match catch(|| lexsort_to_indices(&scols, Some(l))) {
            Err(pi) => rp.panic("lexsort_to_indices", &pi, lab.clone()),
            Ok(Err(e)) => rp.fail("lexsort_to_indices", "unsupported", format!("{lab}: {e}")),
            Ok(Ok(idx)) => {
                rp.st.outcome(if l <= n / 10 { "topk:heap-path" } else { "topk:partial-sort-path" });
                if let Err(e) = check_perm(&idx, n, want_len(n, Some(l)), &exp, &cmp) {
                    rp.fail("lexsort_to_indices", "order", format!("{lab}: {e}"));
                }
            }
        }
    }
    evals
}

/// idx-th permutation of 0..k (factorial number system)
fn nth_permutation(k: usize, mut idx: u64) -> Vec<usize> {
    let mut pool: Vec<usize> = (0..k).collect();
    let mut out = Vec::with_capacity(k);
    for i in (1..=k).rev() {
        let f: u64 = (1..i as u64).product();
        let q = (idx / f) as usize;
        idx %= f;
        out.push(pool.remove(q));
    }
    out
}

/// probe families appended after the first `l` rows (ranks of the first rows are 16+10, 16+20, ...):
/// c smallest values for every c in 0..=l+1 (equal / descending / ascending), values falling between the
/// keys in both directions, and a mixed one. Everything after the probes is larger than every key.
fn probe_families(l: usize) -> Vec<Vec<u32>> {
    let mut f: Vec<Vec<u32>> = vec![vec![]];
    for c in 1..=l + 1 {
        f.push(vec![5; c]);
        f.push((0..c).map(|i| (c - i) as u32).collect());
        f.push((0..c).map(|i| (i + 1) as u32).collect());
    }
    f.push((0..l).map(|i| (16 + 10 * (l - i) - 5) as u32).collect());
    f.push((0..l).map(|i| (16 + 10 * (i + 1) - 5) as u32).collect());
    f.push(vec![9, 8, 7, 16 + 15]);
    f
}

fn topk_perm_ranks(l: usize, perm: &[usize], probes: &[u32], n: usize) -> Vec<u32> {
    let mut r: Vec<u32> = perm.iter().map(|q| (16 + 10 * (q + 1)) as u32).collect();
    r.extend_from_slice(probes);
    let mut i = 0;
    while r.len() < n {
        r.push(1000 + i);
        i += 1;
    }
    debug_assert!(r.len() == n && probes.len() + l <= n);
    r
}

/// deterministic non-monotone rank families of length n
fn long_rank_families(n: usize) -> Vec<(String, Vec<u32>)> {
    let a = vcore::lfsr_bytes(2 * n + 2, vcore::LFSR_A);
    let b = vcore::lfsr_bytes(2 * n + 2, vcore::LFSR_B);
    let mut out: Vec<(String, Vec<u32>)> = vec![
        ("lfsrA16".into(), (0..n).map(|i| a[2 * i] as u32 * 256 + a[2 * i + 1] as u32).collect()),
        ("lfsrB16".into(), (0..n).map(|i| b[2 * i] as u32 * 256 + b[2 * i + 1] as u32).collect()),
        ("lfsrA8".into(), (0..n).map(|i| a[i] as u32).collect()),
        ("lfsrB4".into(), (0..n).map(|i| (b[i] % 16) as u32).collect()),
        ("zigzag".into(), (0..n).map(|i| if i % 2 == 0 { (i / 2) as u32 } else { (n - i / 2) as u32 }).collect()),
        ("zagzig".into(), (0..n).map(|i| if i % 2 == 1 { (i / 2) as u32 } else { (n - i / 2) as u32 }).collect()),
        ("descending".into(), (0..n).map(|i| (n - i) as u32).collect()),
        ("ascending".into(), (0..n).map(|i| i as u32).collect()),
    ];
    for blk in [3usize, 5, 8, 13] {
        // descending runs, blocks ascending / blocks descending
        out.push((format!("desc-runs-{blk}-up"), (0..n).map(|i| ((i / blk) * blk + (blk - 1 - i % blk)) as u32).collect()));
        out.push((format!("desc-runs-{blk}-down"), (0..n).map(|i| ((n / blk - i / blk) * blk + (blk - 1 - i % blk)) as u32).collect()));
        out.push((format!("asc-runs-{blk}-down"), (0..n).map(|i| ((n / blk - i / blk) * blk + i % blk) as u32).collect()));
    }
    for s in [3usize, 7, 11, 37] {
        out.push((format!("stride-{s}"), (0..n).map(|i| ((i * s) % n) as u32).collect()));
    }
    // first k small (non-monotone), then large values with small outliers at moving positions
    for k in [7usize, 8] {
        for pos in [k, k + 1, n / 2, n - 5] {
            let mut r: Vec<u32> = (0..n).map(|i| 1000 + i as u32).collect();
            for (i, v) in [50u32, 40, 10, 30, 5, 4, 20, 45].iter().take(k).enumerate() {
                r[i] = 100 + *v;
            }
            for (j, v) in [9u32, 8, 7, 115].iter().enumerate() {
                if pos + j < n {
                    r[pos + j] = *v;
                }
            }
            out.push((format!("first-{k}-then-outliers-at-{pos}"), r));
        }
    }
    out
}

fn topk_long_limits(n: usize) -> Vec<usize> {
    let mut l = vec![1, 2, 3, 4, 5, 6, 7, 8, (n / 10).saturating_sub(1), n / 10, n / 10 + 1];
    l.retain(|x| *x >= 1 && *x <= n);
    l.sort();
    l.dedup();
    l
}

// -------------------------------------------------------------------------------------------------

fn parse_col(v: &Value) -> Vec<u8> {
    v.as_array().map(|a| a.iter().map(|x| x.as_u64().unwrap() as u8).collect()).unwrap_or_default()
}

fn replay(case: &Value) -> u64 {
    let mut st = Stats::new();
    match case["sub"].as_str().unwrap_or("") {
        "unary" => {
            let ty = find_type(case["type"].as_str().unwrap());
            run_unary_case(&ty, &parse_col(&case["col"]), &[lay_from(&case["layout"])], true, &mut st, 0, true);
        }
        "pair" => {
            let find = |name: &str| -> Ty {
                for leaf in leaf_types(true).into_iter().chain(composite_types(true)) {
                    for t in family(&leaf, true) {
                        if t.name() == name {
                            return t;
                        }
                    }
                }
                find_type(name)
            };
            let (lt, rt) = (find(case["ltype"].as_str().unwrap()), find(case["rtype"].as_str().unwrap()));
            run_pair_case(&lt, &rt, &parse_col(&case["lcol"]), &parse_col(&case["rcol"]), &[(lay_from(&case["llayout"]), lay_from(&case["rlayout"]))], &mut st, 0, true);
        }
        "tuple" => {
            let tys: Vec<Ty> = case["types"].as_array().unwrap().iter().map(|t| find_type(t.as_str().unwrap())).collect();
            let rows: Vec<Vec<u8>> = case["rows"].as_array().unwrap().iter().map(parse_col).collect();
            run_tuple_case(&tys, &rows, &[lay_from(&case["layout"])], &opt_product(tys.len()), &mut st, 0, true);
        }
        "long" => {
            let tys: Vec<Ty> = case["types"].as_array().unwrap().iter().map(|t| find_type(t.as_str().unwrap())).collect();
            let pats: Vec<(Pat, NullPat)> = case["patterns"]
                .as_array()
                .unwrap()
                .iter()
                .map(|p| {
                    let s = p.as_str().unwrap();
                    let (a, b) = s.split_once('/').unwrap();
                    (*PATS.iter().find(|x| format!("{x:?}") == a).unwrap(), *NPATS.iter().find(|x| format!("{x:?}") == b).unwrap())
                })
                .collect();
            let os: Vec<Opts> = case["opts"].as_array().unwrap().iter().map(|o| ALL_OPTS[o.as_u64().unwrap() as usize]).collect();
            run_long_case(&tys, case["len"].as_u64().unwrap() as usize, &pats, lay_from(&case["layout"]), &os, &mut st, 0, true);
        }
        "topk" => {
            let ranks: Vec<u32> = case["ranks"].as_array().unwrap().iter().map(|x| x.as_u64().unwrap() as u32).collect();
            let limits: Vec<usize> = case["limits"].as_array().unwrap().iter().map(|x| x.as_u64().unwrap() as usize).collect();
            run_topk_case(case["enc"].as_u64().unwrap() as usize, &ranks, &limits, &mut st, 0, true);
        }
        other => {
            eprintln!("MACHINERY: unknown sub-engine {other:?} in replay");
            std::process::exit(2)
        }
    }
    st.viol_counts.values().sum()
}

/// `--only <sub-engine>` (debugging aid): run one sub-engine; such a run is recorded as capped
fn only_filter(ctx: &Ctx) -> Option<String> {
    ctx.extra_args.iter().position(|a| a == "--only").and_then(|i| ctx.extra_args.get(i + 1).cloned())
}

pub fn run(ctx: &Ctx) -> ! {
    if let Some(case) = vcore::load_replay(ctx) {
        println!("replay case: {case}");
        let n = replay(&case);
        println!("replay outcome: {}", if n == 0 { "all components agree with the model order".to_string() } else { format!("{n} mismatches (listed above)") });
        std::process::exit(if n == 0 { 0 } else { 1 });
    }
    let thorough = !ctx.quick();
    let mut st = Stats::new();
    let mut order_base = 0u64;
    let only = only_filter(ctx);
    let wants = |s: &str| only.as_deref().is_none_or(|o| o == s);
    if let Some(o) = &only {
        st.cap(format!("--only {o}: the other sub-engines were not run"));
    }
    let mut support = serde_json::Map::new();

    use arrow_schema::DataType::*;
    // the cheap, structurally diverse families run first so that a time-budget cap cannot skip them
    // ---------------- long structured families
    let long_lens: Vec<usize> = if thorough {
        vec![7, 8, 9, 10, 11, 15, 16, 17, 19, 20, 21, 30, 31, 32, 33, 40, 63, 64, 65, 100, 127, 128, 129, 255, 256, 257, 511, 512, 513, 1023, 1024, 1025]
    } else {
        vec![9, 10, 11, 20, 21, 31, 33, 63, 64, 65, 100, 129, 257, 1025]
    };
    let long_single: Vec<Ty> = vec![
        Ty::Bool,
        p(Int32),
        p(UInt8),
        p(Float64),
        p(Float16),
        p(Decimal256(40, 3)),
        p(Interval(arrow_schema::IntervalUnit::DayTime)),
        by(Utf8),
        by(Utf8View),
        by(BinaryView),
        by(LargeBinary),
        Ty::Fsb(3),
        dict(Int8, by(Utf8)),
        dict(UInt16, p(Int32)),
        dict(Int32, by(Utf8View)),
        ree(Int16, p(Int32)),
        ree(Int32, by(Utf8)),
        ree(Int64, Ty::Bool),
        ree(Int32, dict(Int8, by(Utf8))),
        list(LK::List, p(Int32)),
        list(LK::LargeListView, by(Utf8View)),
        fsl(2, p(Int32)),
        Ty::Struct(vec![p(Int32), by(Utf8)]),
    ];
    let long_tuples: Vec<Vec<Ty>> = vec![
        vec![p(Int32), by(Utf8)],
        vec![Ty::Bool, p(Float64)],
        vec![dict(Int8, by(Utf8)), p(Int32), Ty::Bool],
        vec![by(Utf8View), ree(Int16, p(Int32))],
        vec![p(Int8), p(Int8), p(Int8), p(Int8)],
        vec![Ty::Bool, Ty::Bool, Ty::Bool, Ty::Bool, p(Int32)],
        vec![Ty::Bool, Ty::Bool, Ty::Bool, Ty::Bool, Ty::Bool, p(Int32)],
    ];
    let long_lays = [COMPACT, Lay { garbage: true, alt: false, lead: 3, trail: 1 }, Lay { garbage: false, alt: true, lead: 0, trail: 0 }];
    let pat_pairs: Vec<(Pat, NullPat)> = {
        let mut v = vec![];
        for (pi, p) in PATS.iter().enumerate() {
            for (ni, np) in NPATS.iter().enumerate() {
                // complete product in thorough; a fixed sub-lattice in quick
                if thorough || (pi + ni) % 2 == 0 {
                    v.push((*p, *np));
                }
            }
        }
        v
    };
    // single columns: type x len x (pattern, nullpattern) x layout x 4 options
    let n_ls = (long_single.len() * long_lens.len() * pat_pairs.len() * long_lays.len() * 4) as u64;
    st.merge(par_for(ctx, "long-single", if wants("long-single") { n_ls } else { 0 }, 2, |idx, st| {
        let mut i = idx as usize;
        let o = ALL_OPTS[i % 4];
        i /= 4;
        let lay = long_lays[i % long_lays.len()];
        i /= long_lays.len();
        let pp = pat_pairs[i % pat_pairs.len()];
        i /= pat_pairs.len();
        let len = long_lens[i % long_lens.len()];
        i /= long_lens.len();
        let ty = &long_single[i];
        let ev = run_long_case(std::slice::from_ref(ty), len, &[pp], lay, &[o], st, order_base + idx, false);
        st.add("long-single", ev, 1);
        if idx == n_ls - 1 {
            st.sample("long-single", || json!({"type": ty.name(), "len": len, "pattern": format!("{pp:?}"), "layout": lay.show(), "opts": o.show()}));
        }
    }));
    order_base += n_ls;
    // tuples: tuple x len x pattern assignment x layout x option assignment (rotations)
    let tup_pats: Vec<Vec<(Pat, NullPat)>> = vec![
        vec![(Pat::Alternate, NullPat::None), (Pat::LfsrA, NullPat::Every3), (Pat::LfsrB, NullPat::None), (Pat::RampUp, NullPat::Lfsr), (Pat::RampDown, NullPat::None), (Pat::LfsrA, NullPat::None)],
        vec![(Pat::Const, NullPat::Lfsr), (Pat::RampDown, NullPat::None), (Pat::LfsrA, NullPat::Lfsr), (Pat::LfsrB, NullPat::None), (Pat::Alternate, NullPat::None), (Pat::LfsrB, NullPat::Every3)],
        vec![(Pat::LfsrA, NullPat::FirstHalf), (Pat::LfsrB, NullPat::Lfsr), (Pat::Alternate, NullPat::Every3), (Pat::Const, NullPat::None), (Pat::LfsrA, NullPat::None), (Pat::RampUp, NullPat::None)],
        vec![(Pat::Const, NullPat::None), (Pat::Const, NullPat::None), (Pat::Const, NullPat::None), (Pat::Const, NullPat::None), (Pat::Const, NullPat::None), (Pat::LfsrA, NullPat::Lfsr)],
    ];
    let opt_rot: Vec<Vec<Opts>> = (0..4).map(|r| (0..6).map(|c| ALL_OPTS[(r + c * (r + 1)) % 4]).collect()).collect();
    let n_lt = (long_tuples.len() * long_lens.len() * tup_pats.len() * long_lays.len() * opt_rot.len()) as u64;
    st.merge(par_for(ctx, "long-tuples", if wants("long-tuples") { n_lt } else { 0 }, 2, |idx, st| {
        let mut i = idx as usize;
        let os = &opt_rot[i % opt_rot.len()];
        i /= opt_rot.len();
        let lay = long_lays[i % long_lays.len()];
        i /= long_lays.len();
        let pp = &tup_pats[i % tup_pats.len()];
        i /= tup_pats.len();
        let len = long_lens[i % long_lens.len()];
        i /= long_lens.len();
        let tys = &long_tuples[i];
        let ev = run_long_case(tys, len, &pp[..tys.len()], lay, &os[..tys.len()], st, order_base + idx, false);
        st.add("long-tuples", ev, 1);
        if idx == n_lt - 1 {
            st.sample("long-tuples", || json!({"types": tys.iter().map(|t| t.name()).collect::<Vec<_>>(), "len": len, "layout": lay.show()}));
        }
    }));
    order_base += n_lt;
    // ---------------- top-k: exhaustive heap-build shapes. For every heap size L: ALL L! orders of the
    // first L rows x probe families x rows in {10L-1 (partial-sort path), 10L, 10L+1 (heap path)} x 3
    // column encodings with mixed options
    let topk_ls: Vec<usize> = if thorough { vec![2, 3, 4, 5, 6, 7, 8, 9] } else { vec![2, 3, 4, 5, 6, 7, 8] };
    struct KJob {
        l: usize,
        fams: Vec<Vec<u32>>,
        perms: u64,
        start: u64,
    }
    let mut kjobs: Vec<KJob> = vec![];
    let mut ktotal = 0u64;
    for &l in &topk_ls {
        let fams = probe_families(l);
        let perms: u64 = (1..=l as u64).product();
        let c = perms * fams.len() as u64 * 9;
        kjobs.push(KJob { l, fams, perms, start: ktotal });
        ktotal += c;
    }
    st.merge(par_for(ctx, "topk-perm", if wants("topk-perm") { ktotal } else { 0 }, 64, |idx, st| {
        let pi = kjobs.partition_point(|j| j.start <= idx) - 1;
        let job = &kjobs[pi];
        let mut off = idx - job.start;
        let enc = (off % 3) as usize;
        off /= 3;
        let n = 10 * job.l - 1 + (off % 3) as usize;
        off /= 3;
        let fam = &job.fams[(off % job.fams.len() as u64) as usize];
        off /= job.fams.len() as u64;
        debug_assert!(off < job.perms);
        let perm = nth_permutation(job.l, off);
        let ranks = topk_perm_ranks(job.l, &perm, fam, n);
        let ev = run_topk_case(enc, &ranks, &[job.l], st, order_base + idx, false);
        st.add("topk-perm", ev, 1);
        if idx == ktotal - 1 {
            st.sample("topk-perm", || json!({"heap_size": job.l, "rows": n, "encoding": enc, "ranks": ranks}));
        }
    }));
    order_base += ktotal;
    // ---------------- top-k: structured non-monotone families x lengths x limits around rows/10
    let topk_lens: Vec<usize> = if thorough { vec![69, 70, 71, 79, 80, 81, 100, 129, 257, 513, 1025] } else { vec![69, 70, 71, 100, 129, 257] };
    let n_fams = long_rank_families(70).len();
    let n_tl = (topk_lens.len() * n_fams * 3) as u64;
    st.merge(par_for(ctx, "topk-long", if wants("topk-long") { n_tl } else { 0 }, 1, |idx, st| {
        let mut i = idx as usize;
        let enc = i % 3;
        i /= 3;
        let fi = i % n_fams;
        i /= n_fams;
        let n = topk_lens[i];
        let (name, ranks) = long_rank_families(n).swap_remove(fi);
        let limits = topk_long_limits(n);
        let ev = run_topk_case(enc, &ranks, &limits, st, order_base + idx, false);
        st.add("topk-long", ev, 1);
        if idx == n_tl - 1 {
            st.sample("topk-long", || json!({"family": name, "rows": n, "encoding": enc, "limits": limits}));
        }
    }));
    order_base += n_tl;
    st.extra.insert("topk_cases".into(), json!({"perm": ktotal, "heap_sizes": topk_ls, "long": n_tl, "long_lengths": topk_lens, "long_families": n_fams}));
    st.extra.insert("long_cases".into(), json!({"single": n_ls, "tuples": n_lt, "lengths": long_lens}));

    // ---------------- unary: every (type, column) x layouts x options x limits
    let types = all_types(thorough);
    let mut jobs: Vec<TyJob> = vec![];
    let mut total = 0u64;
    for ty in &types {
        let al = alphabet(ty);
        let a = al.len();
        let space = if thorough { ColSpace::new(a, &[(a, 4), (7, 5)]) } else { ColSpace::new(a, &[(a, 3), (6, 4)]) };
        support.insert(ty.name(), json!({"make_comparator": true, "sort": can_sort(ty), "rank": can_rank(ty), "cmp_kernels": can_kernel(ty), "alphabet": a, "columns": space.describe()}));
        jobs.push(TyJob { ty: ty.clone(), al, space: space.clone(), start: total });
        total += space.count();
    }
    let n_layouts = UNARY_LAYOUTS.len() as u64;
    st.merge(par_for(ctx, "unary", if wants("unary") { total } else { 0 }, 16, |idx, st| {
        let (job, off) = locate(&jobs, idx);
        let col = job.space.decode(off);
        let vals = col_vals(&job.al, &col);
        let ev = run_unary_case(&job.ty, &col, &UNARY_LAYOUTS, false, st, order_base + idx, false);
        st.add("unary", ev, if nontrivial(&vals) { n_layouts * 4 } else { 0 });
        if off == job.space.count() - 1 && (job.start == 0 || idx == total - 1) {
            st.sample("unary", || json!({"type": job.ty.name(), "values": show_col(&vals), "layouts": UNARY_LAYOUTS.iter().map(|l| l.show()).collect::<Vec<_>>()}));
        }
    }));
    order_base += total;
    st.extra.insert("unary_columns".into(), json!(total));

    // ---------------- pairs: two-array comparator and comparison kernels
    // (value type, left encoding, right encoding) x all pairs of columns of length <= 3
    struct PairJob {
        lt: Ty,
        rt: Ty,
        space: ColSpace,
        start: u64,
    }
    let mut pjobs: Vec<PairJob> = vec![];
    let mut ptotal = 0u64;
    let wide_leafs: Vec<String> = ["Boolean", "Int32", "Float32", "Utf8", "Utf8View", "FixedSizeBinary(3)", "Decimal128(10, -1)"].iter().map(|s| s.to_string()).collect();
    for leaf in leaf_types(thorough) {
        let wide = thorough || wide_leafs.contains(&leaf.name());
        let fam = family(&leaf, wide);
        let a = alphabet(&leaf).len();
        for lt in &fam {
            for rt in &fam {
                let same = lt == rt;
                // pair columns: (lcol, rcol) encoded as one column over the product alphabet is awkward;
                // instead enumerate lcol and rcol independently from the same column space
                let letters = if same && matches!(lt, Ty::Prim(_) | Ty::Bool | Ty::Bytes(_) | Ty::Fsb(_) | Ty::Null) { a.min(if thorough { 8 } else { 6 }) } else { a.min(4) };
                let space = if thorough { ColSpace::new(a, &[(letters, 2), (letters.min(5), 3)]) } else { ColSpace::new(a, &[(letters, 2), (letters.min(4), 3)]) };
                let c = space.count();
                pjobs.push(PairJob { lt: lt.clone(), rt: rt.clone(), space, start: ptotal });
                ptotal += c * c;
            }
        }
    }
    // nested / encoded types: two-array comparator only (the kernels must refuse nested types)
    for ty in composite_types(thorough) {
        let a = alphabet(&ty).len();
        let space = ColSpace::new(a, &[(a.min(6), 2), (a.min(4), 3)]);
        let c = space.count();
        pjobs.push(PairJob { lt: ty.clone(), rt: ty.clone(), space, start: ptotal });
        ptotal += c * c;
    }
    let pair_lays: &[(Lay, Lay)] = &PAIR_LAYOUTS;
    st.merge(par_for(ctx, "pairs", if wants("pairs") { ptotal } else { 0 }, 64, |idx, st| {
        let p = pjobs.partition_point(|j| j.start <= idx) - 1;
        let job = &pjobs[p];
        let off = idx - job.start;
        let c = job.space.count();
        let (lcol, rcol) = (job.space.decode(off / c), job.space.decode(off % c));
        // kernels need equal lengths or a length-1 side; the comparator takes any pair
        let ev = run_pair_case(&job.lt, &job.rt, &lcol, &rcol, pair_lays, st, order_base + idx, false);
        st.add("pairs", ev, if lcol.len() + rcol.len() >= 2 { pair_lays.len() as u64 } else { 0 });
        if off == c * c - 1 && (p == 0 || p == pjobs.len() - 1) {
            st.sample("pairs", || json!({"ltype": job.lt.name(), "rtype": job.rt.name(), "lcol": lcol, "rcol": rcol}));
        }
    }));
    order_base += ptotal;
    st.extra.insert("pair_cases".into(), json!(ptotal));

    // ---------------- tuples
    let mut tuple_types: Vec<Vec<Ty>> = vec![
        vec![p(Int32), by(Utf8)],
        vec![by(Utf8View), p(Float64)],
        vec![Ty::Bool, dict(Int8, by(Utf8))],
        vec![list(LK::List, p(Int32)), p(Int8)],
        vec![Ty::Struct(vec![p(Int32), by(Utf8)]), Ty::Bool],
        vec![ree(Int16, p(Int32)), by(Binary)],
        vec![p(Float32), p(Float32)],
        vec![Ty::Fsb(3), p(Interval(arrow_schema::IntervalUnit::MonthDayNano))],
        vec![Ty::Union(true, vec![(0, p(Int32)), (5, by(Utf8))]), p(Int32)],
        vec![Ty::Map(Box::new(by(Utf8)), Box::new(p(Int32))), p(Decimal128(10, -1))],
        vec![Ty::Null, p(Int32)],
    ];
    if thorough {
        tuple_types.extend([
            vec![p(Decimal256(40, 3)), by(LargeUtf8)],
            vec![dict(UInt16, p(Int32)), dict(Int32, by(Utf8View))],
            vec![list(LK::ListView, p(Int32)), fsl(2, p(Int32))],
            vec![p(Float16), by(BinaryView)],
            vec![ts(arrow_schema::TimeUnit::Second, None), p(Date32)],
            vec![ree(Int32, by(Utf8)), ree(Int64, Ty::Bool)],
        ]);
    }
    let mut triple_types: Vec<Vec<Ty>> = vec![vec![p(Int32), by(Utf8), Ty::Bool], vec![p(Float64), dict(Int8, by(Utf8)), list(LK::List, p(Int32))]];
    if thorough {
        triple_types.push(vec![by(Utf8View), p(UInt8), Ty::Struct(vec![p(Int32), by(Utf8)])]);
        triple_types.push(vec![Ty::Bool, Ty::Bool, p(Int64)]);
    }
    struct TupJob {
        tys: Vec<Ty>,
        letters: Vec<usize>,
        #[allow(dead_code)]
        maxrows: usize,
        start: u64,
    }
    let mut tjobs: Vec<TupJob> = vec![];
    let mut ttotal = 0u64;
    let rows_count = |letters: &[usize], maxrows: usize| -> u64 {
        let per: u64 = letters.iter().map(|l| *l as u64).product();
        (0..=maxrows).map(|n| per.pow(n as u32)).sum()
    };
    for tys in tuple_types.iter() {
        let letters: Vec<usize> = tys.iter().map(|t| alphabet(t).len().min(4)).collect();
        let maxrows = 3;
        tjobs.push(TupJob { tys: tys.clone(), letters: letters.clone(), maxrows, start: ttotal });
        ttotal += rows_count(&letters, maxrows);
    }
    for tys in triple_types.iter() {
        let letters: Vec<usize> = tys.iter().map(|t| alphabet(t).len().min(3)).collect();
        let maxrows = if thorough { 3 } else { 2 };
        tjobs.push(TupJob { tys: tys.clone(), letters: letters.clone(), maxrows, start: ttotal });
        ttotal += rows_count(&letters, maxrows);
    }
    // 4-row tuples over 2-letter alphabets (partial-sort / select_nth paths with ties)
    for tys in tuple_types.iter().take(if thorough { tuple_types.len() } else { 3 }) {
        let letters: Vec<usize> = tys.iter().map(|t| alphabet(t).len().min(2)).collect();
        tjobs.push(TupJob { tys: tys.clone(), letters: letters.clone(), maxrows: 4, start: ttotal });
        ttotal += rows_count(&letters, 4);
    }
    let tuple_lays = [COMPACT, Lay { garbage: true, alt: true, lead: 1, trail: 1 }];
    st.merge(par_for(ctx, "tuples", if wants("tuples") { ttotal } else { 0 }, 8, |idx, st| {
        let pi = tjobs.partition_point(|j| j.start <= idx) - 1;
        let job = &tjobs[pi];
        let mut off = idx - job.start;
        let per: u64 = job.letters.iter().map(|l| *l as u64).product();
        let mut nrows = 0;
        loop {
            let c = per.pow(nrows as u32);
            if off < c {
                break;
            }
            off -= c;
            nrows += 1;
        }
        let mut rows: Vec<Vec<u8>> = vec![];
        for _ in 0..nrows {
            let mut r = off % per;
            off /= per;
            let mut row = vec![];
            for l in &job.letters {
                row.push((r % *l as u64) as u8);
                r /= *l as u64;
            }
            rows.push(row);
        }
        let ev = run_tuple_case(&job.tys, &rows, &tuple_lays, &opt_product(job.tys.len()), st, order_base + idx, false);
        let nt = rows.len() >= 2 && rows.iter().any(|r| r != &rows[0]);
        st.add("tuples", ev, if nt { (tuple_lays.len() * opt_product(job.tys.len()).len()) as u64 } else { 0 });
        if idx == ttotal - 1 {
            st.sample("tuples", || json!({"types": job.tys.iter().map(|t| t.name()).collect::<Vec<_>>(), "rows": rows}));
        }
    }));
    st.extra.insert("tuple_cases".into(), json!(ttotal));

    st.extra.insert("support_matrix".into(), Value::Object(support));
    st.extra.insert("types".into(), json!(types.len()));

    vcore::finish(
        ctx,
        Level {
            category: "exploration",
            rule: "cases are enumerated, never sampled. unary: for every type of the grid, every column (all sequences up to the stated length over the type's alphabet prefix) x 5 layouts x 4 SortOptions x limits; pairs: all ordered pairs of columns of length <= 3 x 4 layout pairs x encodings; tuples: all row sequences over the product alphabet x 4^k option assignments x all limits; long: complete product of the listed lengths x patterns x layouts x options; topk-perm: for every heap size L, all L! orders of the first L rows x probe families x rows in {10L-1,10L,10L+1} x 3 column encodings, lexsort_to_indices with limit L; topk-long: lengths x non-monotone rank families x 3 encodings x limits {1..8, rows/10-1, rows/10, rows/10+1}. Every enumerated point is distinct by construction; it is counted non-trivial when the column (or tuple column set) has >= 2 rows and >= 2 distinct values (long families: always).".into(),
            assumptions: vec![
                "model order: IEEE totalOrder on bit patterns, bytewise unsigned for strings/binary, signed/unsigned integers, decimals by unscaled value, intervals field-wise (months|days, days|millis, nanos) as the derived Ord of the native structs, lists lexicographic then by length, structs field-wise, unions by type id then value, child options {descending:false, nulls_first: nulls_first != descending}".into(),
                "union slots whose selected child is null are logical nulls (logical_nulls), so nulls of different branches compare Equal".into(),
                "partition is only given lexicographically sorted input (documented precondition); the sorted input is produced by the model".into(),
                "`==` consistency is not asserted for dictionary layouts that reach null through a null dictionary value, nor for unions (documented physical-validity semantics of ==)".into(),
            ],
            exhaustive_space: "property quantifier restricted to: type grid in coverage.support_matrix; columns up to the per-type length/alphabet bounds there; limits 0..=len+1 and None; tuples of <= 3 columns (<= 6 in the long families); long families up to 1025 rows".into(),
        },
        st,
    )
}
