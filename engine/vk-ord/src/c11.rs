//! C11 — the arrow-row format is order-preserving, injective and invertible.
use crate::model::*;
use crate::report::Rp;
use crate::space::*;
use arrow_array::{Array, ArrayRef};
use arrow_row::{OwnedRow, Row, RowConverter, Rows, SortField};
use arrow_schema::DataType;
use std::cmp::Ordering;
use vcore::serde_json::{self, Value, json};
use vcore::{Ctx, Level, Stats, catch, par_for};

// -------------------------------------------------------------------------------------------------
// documented support / hydration

/// DataType::is_nested
fn nested(ty: &Ty) -> bool {
    match ty {
        Ty::Dict(_, v) | Ty::Ree(_, v) => nested(v),
        Ty::List(..) | Ty::Fsl(..) | Ty::Struct(_) | Ty::Map(..) | Ty::Union(..) => true,
        _ => false,
    }
}
/// RowConverter::supports_fields as documented by its dispatch: everything non-nested, lists / maps /
/// structs / unions / run-ends of supported types; dictionaries only with non-nested values
fn row_supported(ty: &Ty) -> bool {
    match ty {
        t if !nested(t) => true,
        Ty::List(_, c) | Ty::Fsl(_, c) => row_supported(c),
        Ty::Map(k, v) => row_supported(k) && row_supported(v),
        Ty::Struct(fs) => fs.iter().all(row_supported),
        Ty::Ree(_, v) => row_supported(v),
        Ty::Union(_, cs) => cs.iter().all(|c| row_supported(&c.1)),
        _ => false,
    }
}
/// "dictionary arrays are flattened (hydrated) to their underlying values"
fn hydrate(ty: &Ty) -> Ty {
    match ty {
        Ty::Dict(_, v) => hydrate(v),
        Ty::Ree(r, v) => Ty::Ree(r.clone(), Box::new(hydrate(v))),
        Ty::List(k, c) => Ty::List(*k, Box::new(hydrate(c))),
        Ty::Fsl(n, c) => Ty::Fsl(*n, Box::new(hydrate(c))),
        Ty::Struct(fs) => Ty::Struct(fs.iter().map(hydrate).collect()),
        Ty::Map(k, v) => Ty::Map(Box::new(hydrate(k)), Box::new(hydrate(v))),
        Ty::Union(d, cs) => Ty::Union(*d, cs.iter().map(|(i, t)| (*i, hydrate(t))).collect()),
        t => t.clone(),
    }
}

fn ord_name(o: Ordering) -> &'static str {
    match o {
        Ordering::Less => "Less",
        Ordering::Equal => "Equal",
        Ordering::Greater => "Greater",
    }
}

fn show_tuple(t: &[&Val]) -> String {
    format!("({})", t.iter().map(|v| v.show()).collect::<Vec<_>>().join(", "))
}

fn hex(b: &[u8]) -> String {
    b.iter().map(|x| format!("{x:02x}")).collect()
}

// -------------------------------------------------------------------------------------------------
// one case: k fields with options, two column sets A and B in two layouts

pub struct Case<'a> {
    pub tys: &'a [Ty],
    pub os: &'a [Opts],
    pub a: &'a [Vec<Val>],
    pub b: &'a [Vec<Val>],
    pub la: Lay,
    pub lb: Lay,
    /// selection depth for convert_rows: 2 = all ordered pairs, 3 = all ordered triples
    pub sel_depth: usize,
}

fn case_label(c: &Case) -> String {
    format!(
        "fields ({}) opts ({}) A={} [{}] B={} [{}]",
        c.tys.iter().map(|t| t.name()).collect::<Vec<_>>().join(", "),
        c.os.iter().map(|o| o.show()).collect::<Vec<_>>().join(", "),
        c.a.iter().map(|x| show_col(x)).collect::<Vec<_>>().join(" "),
        c.la.show(),
        c.b.iter().map(|x| show_col(x)).collect::<Vec<_>>().join(" "),
        c.lb.show()
    )
}

pub fn case_json(sub: &str, c: &Case) -> Value {
    let lay = |l: Lay| json!({"garbage": l.garbage, "alt": l.alt, "lead": l.lead, "trail": l.trail});
    json!({"sub": sub, "types": c.tys.iter().map(|t| t.name()).collect::<Vec<_>>(), "opts": c.os.iter().map(|o| o.idx()).collect::<Vec<_>>(),
        "a": c.a.iter().map(|x| col_to_json(x)).collect::<Vec<_>>(), "b": c.b.iter().map(|x| col_to_json(x)).collect::<Vec<_>>(),
        "la": lay(c.la), "lb": lay(c.lb), "sel_depth": c.sel_depth, "label": case_label(c)})
}

/// decode `sel` (rows) and compare with the expected tuples
fn check_decode(conv: &RowConverter, sel: Vec<Row<'_>>, want: &[Vec<&Val>], tys: &[Ty], rp: &mut Rp, label: &str, what: &str) {
    let r = catch(|| conv.convert_rows(sel));
    let out = match r {
        Err(p) => {
            rp.panic("convert_rows", &p, format!("{label} {what}"));
            return;
        }
        Ok(Err(e)) => {
            rp.fail("convert_rows", "error", format!("{label} {what}: {e}"));
            return;
        }
        Ok(Ok(o)) => o,
    };
    if out.len() != tys.len() {
        rp.fail("convert_rows", "columns", format!("{label} {what}: {} columns for {} fields", out.len(), tys.len()));
        return;
    }
    for (k, col) in out.iter().enumerate() {
        if let Err(e) = validate(col.as_ref()) {
            rp.wf("convert_rows", format!("{label} {what} field {k}: {e}"));
            return;
        }
        let want_dt = hydrate(&tys[k]).data_type();
        if col.data_type() != &want_dt {
            rp.fail("convert_rows", "data-type", format!("{label} {what} field {k}: decoded type {} expected {}", col.data_type(), want_dt));
            return;
        }
        let got = match catch(|| extract(col.as_ref())) {
            Ok(g) => g,
            Err(p) => {
                rp.panic("convert_rows", &p, format!("{label} {what}: reading the decoded column"));
                return;
            }
        };
        if got.len() != want.len() || got.iter().zip(want.iter()).any(|(g, w)| g != w[k]) {
            rp.fail(
                "convert_rows",
                "values",
                format!("{label} {what} field {k}: decoded {} expected [{}]", show_col(&got), want.iter().map(|w| w[k].show()).collect::<Vec<_>>().join(", ")),
            );
            return;
        }
    }
}

pub fn run_case(c: &Case, rp: &mut Rp) -> u64 {
    let label = case_label(c);
    let k = c.tys.len();
    let supported = c.tys.iter().all(row_supported);
    let fields: Vec<SortField> = (0..k).map(|i| SortField::new_with_options(c.tys[i].data_type(), c.os[i].arrow())).collect();
    let mut evals = 1u64;
    let conv = match catch(|| RowConverter::new(fields)) {
        Err(p) => {
            rp.panic("RowConverter::new", &p, label.clone());
            return evals;
        }
        Ok(Err(e)) => {
            rp.st.outcome("converter:error");
            if supported {
                rp.fail("RowConverter::new", "unsupported", format!("{label}: {e}"));
            }
            return evals;
        }
        Ok(Ok(cv)) => {
            rp.st.outcome(if supported { "converter:ok" } else { "converter:ok-on-unsupported" });
            cv
        }
    };
    let build = |cols: &[Vec<Val>], lay: Lay| -> Vec<ArrayRef> { (0..k).map(|i| realise(&c.tys[i], &cols[i], lay)).collect() };
    let (arr_a, arr_b) = match catch(|| (build(c.a, c.la), build(c.b, c.lb))) {
        Ok(x) => x,
        Err(p) => {
            rp.fail("harness", "realise-panic", format!("{label}: {} at {}:{}", p.msg, p.file, p.line));
            return evals;
        }
    };
    for (i, a) in arr_a.iter().chain(arr_b.iter()).enumerate() {
        let want = if i < k { &c.a[i] } else { &c.b[i - k] };
        if validate(a.as_ref()).is_err() || &extract(a.as_ref()) != want {
            rp.fail("harness", "extract-roundtrip", label.clone());
            return evals;
        }
    }
    let (na, nb) = (c.a[0].len(), c.b[0].len());
    // three ways of producing rows
    let r = catch(|| -> Result<(Rows, Rows, Rows), arrow_schema::ArrowError> {
        let ra = conv.convert_columns(&arr_a)?;
        let mut rab = conv.empty_rows(0, 0);
        conv.append(&mut rab, &arr_a)?;
        conv.append(&mut rab, &arr_b)?;
        let rb = conv.convert_columns(&arr_b)?;
        Ok((ra, rab, rb))
    });
    let (rows_a, rows_ab, rows_b) = match r {
        Err(p) => {
            rp.panic("convert_columns", &p, label.clone());
            return evals;
        }
        Ok(Err(e)) => {
            rp.fail("convert_columns", "error", format!("{label}: {e}"));
            return evals;
        }
        Ok(Ok(x)) => x,
    };
    evals += 3;
    if rows_a.num_rows() != na || rows_b.num_rows() != nb || rows_ab.num_rows() != na + nb {
        rp.fail("convert_columns", "num_rows", format!("{label}: num_rows {} / {} / {}", rows_a.num_rows(), rows_ab.num_rows(), rows_b.num_rows()));
        return evals;
    }
    // all rows with their logical tuples
    let tuple_of = |from_b: bool, i: usize| -> Vec<&Val> { (0..k).map(|f| if from_b { &c.b[f][i] } else { &c.a[f][i] }).collect() };
    let mut items: Vec<(Row<'_>, Vec<&Val>, &'static str)> = vec![];
    for i in 0..na {
        items.push((rows_a.row(i), tuple_of(false, i), "convert_columns(A)"));
    }
    for i in 0..na + nb {
        items.push((rows_ab.row(i), if i < na { tuple_of(false, i) } else { tuple_of(true, i - na) }, "append(A);append(B)"));
    }
    for i in 0..nb {
        items.push((rows_b.row(i), tuple_of(true, i), "convert_columns(B)"));
    }
    let m = items.len();
    let model = |x: &[&Val], y: &[&Val]| -> Ordering {
        for f in 0..k {
            match cmp_row(x[f], y[f], c.os[f]) {
                Ordering::Equal => {}
                r => return r,
            }
        }
        Ordering::Equal
    };
    // ---- order + injectivity over all pairs of rows
    let parser = conv.parser();
    let owned: Vec<OwnedRow> = items.iter().map(|it| it.0.owned()).collect();
    let mut oc = [0u64; 3];
    'pairs: for i in 0..m {
        for j in 0..m {
            let (ri, rj) = (items[i].0, items[j].0);
            let want = model(&items[i].1, &items[j].1);
            let got = ri.cmp(&rj);
            evals += 1;
            oc[(got as i8 + 1) as usize] += 1;
            if got != want {
                rp.fail(
                    "Row::cmp",
                    "order",
                    format!("{label}: row {} [{}] vs row {} [{}]: byte order {} but {} vs {} is {} (bytes {} / {})", i, items[i].2, j, items[j].2, ord_name(got), show_tuple(&items[i].1), show_tuple(&items[j].1), ord_name(want), hex(ri.as_ref()), hex(rj.as_ref())),
                );
                break 'pairs;
            }
            let logically_equal = items[i].1 == items[j].1;
            let byte_equal = ri.as_ref() == rj.as_ref();
            if byte_equal != logically_equal || (ri == rj) != logically_equal {
                rp.fail(
                    "Row::eq",
                    "injective",
                    format!("{label}: row {} [{}] vs row {} [{}]: bytes equal = {byte_equal}, Row == {} but tuples {} and {} (bytes {} / {})", i, items[i].2, j, items[j].2, ri == rj, show_tuple(&items[i].1), show_tuple(&items[j].1), hex(ri.as_ref()), hex(rj.as_ref())),
                );
                break 'pairs;
            }
            if ri.partial_cmp(&rj) != Some(got) || owned[i].cmp(&owned[j]) != got || (owned[i] == owned[j]) != (ri == rj) || owned[i].partial_cmp(&owned[j]) != Some(got) {
                rp.fail("OwnedRow", "order", format!("{label}: rows {i},{j}: OwnedRow / partial_cmp disagree with Row::cmp = {}", ord_name(got)));
                break 'pairs;
            }
        }
    }
    rp.st.outcome_n("row-cmp:Less", oc[0]);
    rp.st.outcome_n("row-cmp:Equal", oc[1]);
    rp.st.outcome_n("row-cmp:Greater", oc[2]);
    // ---- Row accessors, parser, OwnedRow
    for (i, it) in items.iter().enumerate() {
        let r = it.0;
        if r.data() != r.as_ref() || owned[i].as_ref() != r.as_ref() || owned[i].row() != r {
            rp.fail("OwnedRow", "bytes", format!("{label}: row {i}: data()/as_ref()/owned() differ"));
            break;
        }
        let p = parser.parse(r.as_ref());
        if p != r || p.cmp(&r) != Ordering::Equal || p.as_ref() != r.as_ref() {
            rp.fail("RowParser", "parse", format!("{label}: row {i}: parse(row.as_ref()) != row"));
            break;
        }
    }
    evals += m as u64;
    // ---- Rows accessors
    {
        let lens: Vec<usize> = rows_ab.lengths().collect();
        let ok = lens.len() == na + nb
            && (0..na + nb).all(|i| rows_ab.row_len(i) == lens[i] && rows_ab.row(i).as_ref().len() == lens[i])
            && rows_ab.iter().len() == na + nb
            && rows_ab.iter().zip(0..).all(|(r, i)| r == rows_ab.row(i))
            && rows_ab.iter().rev().zip((0..na + nb).rev()).all(|(r, i)| r == rows_ab.row(i));
        if !ok {
            rp.fail("Rows", "accessors", format!("{label}: lengths()/row_len()/iter() inconsistent"));
        }
        // push: rebuild in reverse order
        let r = catch(|| {
            let mut pushed = conv.empty_rows(0, 0);
            for i in (0..na + nb).rev() {
                pushed.push(rows_ab.row(i));
            }
            (0..na + nb).all(|i| pushed.row(i) == rows_ab.row(na + nb - 1 - i)) && pushed.num_rows() == na + nb
        });
        match r {
            Ok(true) => {}
            Ok(false) => rp.fail("Rows", "push", format!("{label}: rows rebuilt with push differ")),
            Err(p) => rp.panic("Rows::push", &p, label.clone()),
        }
        evals += 2;
    }
    // ---- convert_rows of selections
    {
        let ab: Vec<(Row<'_>, &Vec<&Val>)> = (0..na + nb).map(|i| (items[na + i].0, &items[na + i].1)).collect();
        let n = ab.len();
        let mut sels: Vec<Vec<usize>> = vec![vec![], (0..n).collect(), (0..n).rev().collect()];
        for i in 0..n {
            sels.push(vec![i]);
        }
        if c.sel_depth >= 2 {
            for i in 0..n {
                for j in 0..n {
                    sels.push(vec![i, j]);
                }
            }
        }
        if c.sel_depth >= 3 {
            for i in 0..n {
                for j in 0..n {
                    for l in 0..n {
                        sels.push(vec![i, j, l]);
                    }
                }
            }
        }
        for s in &sels {
            evals += 1;
            let sel: Vec<Row<'_>> = s.iter().map(|i| ab[*i].0).collect();
            let want: Vec<Vec<&Val>> = s.iter().map(|i| ab[*i].1.clone()).collect();
            check_decode(&conv, sel, &want, c.tys, rp, &label, &format!("selection {s:?} of append(A);append(B)"));
        }
        // whole Rows objects via IntoIterator, and a mixed selection across the three Rows
        evals += 3;
        let want_a: Vec<Vec<&Val>> = (0..na).map(|i| tuple_of(false, i)).collect();
        let want_b: Vec<Vec<&Val>> = (0..nb).map(|i| tuple_of(true, i)).collect();
        check_decode(&conv, rows_a.iter().collect(), &want_a, c.tys, rp, &label, "all of convert_columns(A)");
        check_decode(&conv, rows_b.iter().collect(), &want_b, c.tys, rp, &label, "all of convert_columns(B)");
        let mixed: Vec<Row<'_>> = rows_b.iter().rev().chain(rows_a.iter()).chain(rows_ab.iter().take(1)).collect();
        let mut want_m: Vec<Vec<&Val>> = want_b.iter().rev().cloned().collect();
        want_m.extend(want_a.iter().cloned());
        if na + nb > 0 {
            want_m.push(items[na].1.clone());
        }
        check_decode(&conv, mixed, &want_m, c.tys, rp, &label, "mixed selection rev(B) ++ A ++ AB[0]");
    }
    // ---- Rows -> BinaryArray -> Rows
    {
        evals += 1;
        let want: Vec<Vec<&Val>> = (0..na + nb).map(|i| items[na + i].1.clone()).collect();
        let bytes: Vec<Vec<u8>> = (0..na + nb).map(|i| rows_ab.row(i).as_ref().to_vec()).collect();
        let r = catch(|| rows_ab.clone().try_into_binary());
        match r {
            Err(p) => rp.panic("try_into_binary", &p, label.clone()),
            Ok(Err(e)) => rp.fail("try_into_binary", "error", format!("{label}: {e}")),
            Ok(Ok(bin)) => {
                if let Err(e) = validate(&bin) {
                    rp.wf("try_into_binary", format!("{label}: {e}"));
                } else if bin.len() != na + nb || bin.null_count() != 0 || (0..na + nb).any(|i| bin.value(i) != bytes[i].as_slice()) {
                    rp.fail("try_into_binary", "bytes", format!("{label}: binary array differs from the row bytes"));
                } else {
                    match catch(|| conv.from_binary(bin.clone())) {
                        Err(p) => rp.panic("from_binary", &p, label.clone()),
                        Ok(back) => {
                            if back.num_rows() != na + nb || (0..na + nb).any(|i| back.row(i) != rows_ab.row(i) || back.row(i).as_ref() != bytes[i].as_slice()) {
                                rp.fail("from_binary", "identity", format!("{label}: rows after try_into_binary -> from_binary differ"));
                            } else {
                                check_decode(&conv, back.iter().collect(), &want, c.tys, rp, &label, "rows from from_binary (utf8-validating path)");
                                // parsed rows decode too
                                let parsed: Vec<Row<'_>> = bytes.iter().map(|b| parser.parse(b)).collect();
                                check_decode(&conv, parsed, &want, c.tys, rp, &label, "rows from RowParser::parse");
                            }
                        }
                    }
                }
            }
        }
    }
    evals
}

// -------------------------------------------------------------------------------------------------
// enumeration

fn all_row_types(thorough: bool) -> Vec<Ty> {
    use DataType::*;
    let mut v = leaf_types(thorough);
    v.extend(composite_types(thorough));
    // extra row-format specific types
    v.extend([
        list(LK::List, by(Binary)),
        list(LK::LargeListView, by(BinaryView)),
        Ty::Struct(vec![by(Binary), p(Int8)]),
        fsl(2, by(Binary)),
        dict(Int8, by(Binary)),
        ree(Int32, by(Binary)),
        Ty::Map(Box::new(by(Utf8)), Box::new(by(Binary))),
        list(LK::List, dict(Int8, by(Utf8))),
        Ty::Struct(vec![dict(Int8, by(Utf8)), ree(Int32, p(Int32))]),
        ree(Int32, list(LK::List, p(Int32))),
        ree(Int16, Ty::Struct(vec![p(Int32), by(Utf8)])),
        Ty::Union(true, vec![(0, list(LK::List, p(Int32))), (3, p(Float64))]),
        list(LK::List, Ty::Union(false, vec![(0, p(Int32)), (5, by(Utf8))])),
    ]);
    let mut seen: Vec<String> = vec![];
    v.retain(|t| {
        let n = t.name();
        if seen.contains(&n) {
            false
        } else {
            seen.push(n);
            true
        }
    });
    v
}

fn find_type(name: &str) -> Ty {
    all_row_types(true).into_iter().find(|t| t.name() == name).unwrap_or_else(|| {
        eprintln!("MACHINERY: unknown type {name}");
        std::process::exit(2)
    })
}

/// variable-length alphabet: every length around the 8- and 32-byte block boundaries, contents built
/// from the sentinel / continuation bytes
fn varlen_values(utf8: bool, reduced: bool) -> Vec<Val> {
    let lens: &[usize] = if reduced { &[0, 1, 8, 9, 32, 33, 64, 65] } else { &[0, 1, 7, 8, 9, 31, 32, 33, 63, 64, 65] };
    let bytes: &[u8] = match (utf8, reduced) {
        (true, false) => &[0x00, 0x01, 0x02, 0x03, 0x7f],
        (true, true) => &[0x00, 0x7f],
        (false, false) => &[0x00, 0x01, 0x02, 0x03, 0xfe, 0xff],
        (false, true) => &[0x00, 0xff],
    };
    let mut out: Vec<Vec<u8>> = vec![];
    for &l in lens {
        if l == 0 {
            out.push(vec![]);
            continue;
        }
        for &c in bytes {
            out.push(vec![c; l]);
        }
        if l >= 2 {
            for &c in bytes {
                let mut v = vec![0x01u8; l];
                v[l - 1] = c;
                out.push(v);
                if !reduced {
                    let mut v = vec![0x01u8; l];
                    v[0] = c;
                    out.push(v);
                }
            }
            if utf8 && !reduced {
                let mut v = vec![0x01u8; l - 2];
                v.extend_from_slice("\u{e9}".as_bytes());
                out.push(v);
                if l >= 4 {
                    let mut v = "\u{10ffff}".as_bytes().to_vec();
                    v.extend(std::iter::repeat_n(0x01u8, l - 4));
                    out.push(v);
                }
            }
        }
    }
    let mut seen: Vec<Vec<u8>> = vec![];
    out.retain(|v| {
        if seen.contains(v) {
            false
        } else {
            seen.push(v.clone());
            true
        }
    });
    out.into_iter().map(Val::B).collect()
}

/// wrap a pair of byte values (v, w) into columns (A, B) of `ty`
fn varlen_columns(ty: &Ty, v: &Val, w: &Val) -> (Vec<Val>, Vec<Val>) {
    let l = |x: &[&Val]| Val::List(x.iter().map(|y| (*y).clone()).collect());
    match ty {
        Ty::Bytes(_) | Ty::Dict(..) | Ty::Ree(..) => (vec![v.clone(), w.clone()], vec![w.clone(), Val::Null]),
        Ty::List(..) => (vec![l(&[v]), l(&[v, w])], vec![l(&[w]), l(&[]), l(&[&Val::Null, w])]),
        Ty::Fsl(..) => (vec![l(&[v, w]), l(&[w, v])], vec![l(&[v, &Val::Null]), l(&[v, v])]),
        Ty::Struct(_) => (vec![Val::Struct(vec![v.clone(), Val::I(1)]), Val::Struct(vec![w.clone(), Val::I(-1)])], vec![Val::Struct(vec![w.clone(), Val::I(1)]), Val::Struct(vec![Val::Null, Val::I(1)])]),
        Ty::Map(..) => {
            let e = |k: &[u8], x: &Val| Val::Struct(vec![Val::B(k.to_vec()), x.clone()]);
            (vec![Val::List(vec![e(b"k", v)]), Val::List(vec![e(b"k", v), e(b"l", w)])], vec![Val::List(vec![e(b"k", w)]), Val::List(vec![e(b"k", &Val::Null)])])
        }
        other => panic!("varlen wrapper for {}", other.name()),
    }
}

const LAY_PAIRS: [(Lay, Lay); 4] = [
    (COMPACT, COMPACT),
    (Lay { garbage: true, alt: true, lead: 1, trail: 1 }, Lay { garbage: true, alt: false, lead: 2, trail: 0 }),
    (Lay { garbage: false, alt: false, lead: 3, trail: 0 }, Lay { garbage: false, alt: true, lead: 0, trail: 1 }),
    (Lay { garbage: true, alt: false, lead: 0, trail: 0 }, Lay { garbage: false, alt: false, lead: 1, trail: 1 }),
];

fn opt_product(nc: usize) -> Vec<Vec<Opts>> {
    let mut out = vec![vec![]];
    for _ in 0..nc {
        let mut next = vec![];
        for p in &out {
            for o in ALL_OPTS {
                let mut q: Vec<Opts> = p.clone();
                q.push(o);
                next.push(q);
            }
        }
        out = next;
    }
    out
}

fn has_union(ty: &Ty) -> bool {
    match ty {
        Ty::Union(..) => true,
        Ty::Dict(_, v) | Ty::Ree(_, v) | Ty::List(_, v) | Ty::Fsl(_, v) => has_union(v),
        Ty::Struct(fs) => fs.iter().any(has_union),
        Ty::Map(k, v) => has_union(k) || has_union(v),
        _ => false,
    }
}
/// type class for fingerprints; any field containing a union is class "union" (one defect in the
/// union codec = one fingerprint, wherever the union is nested)
fn kind_for(tys: &[Ty]) -> &'static str {
    if tys.iter().any(has_union) {
        "union"
    } else if tys.len() == 1 {
        kind_of(&tys[0])
    } else {
        "tuple"
    }
}

fn lay_from(v: &Value) -> Lay {
    Lay { garbage: v["garbage"].as_bool().unwrap_or(false), alt: v["alt"].as_bool().unwrap_or(false), lead: v["lead"].as_u64().unwrap_or(0) as usize, trail: v["trail"].as_u64().unwrap_or(0) as usize }
}

fn replay(case: &Value) -> u64 {
    let tys: Vec<Ty> = case["types"].as_array().unwrap().iter().map(|t| find_type(t.as_str().unwrap())).collect();
    let os: Vec<Opts> = case["opts"].as_array().unwrap().iter().map(|o| ALL_OPTS[o.as_u64().unwrap() as usize]).collect();
    let a: Vec<Vec<Val>> = case["a"].as_array().unwrap().iter().map(col_from_json).collect();
    let b: Vec<Vec<Val>> = case["b"].as_array().unwrap().iter().map(col_from_json).collect();
    let c = Case { tys: &tys, os: &os, a: &a, b: &b, la: lay_from(&case["la"]), lb: lay_from(&case["lb"]), sel_depth: case["sel_depth"].as_u64().unwrap_or(2) as usize };
    let mut st = Stats::new();
    let cj = || case.clone();
    let mut rp = Rp { st: &mut st, order: 0, prop: "c11", kind: kind_for(&tys), case: &cj, verbose: true };
    println!("case: {}", case_label(&c));
    run_case(&c, &mut rp);
    st.viol_counts.values().sum()
}

/// `--only <sub-engine>` (debugging aid): run one sub-engine; such a run is recorded as capped
fn only_filter(ctx: &Ctx) -> Option<String> {
    ctx.extra_args.iter().position(|a| a == "--only").and_then(|i| ctx.extra_args.get(i + 1).cloned())
}

pub fn run(ctx: &Ctx) -> ! {
    if let Some(case) = vcore::load_replay(ctx) {
        let n = replay(&case);
        println!("replay outcome: {}", if n == 0 { "row order, injectivity and round trips agree with the model".to_string() } else { format!("{n} mismatches (listed above)") });
        std::process::exit(if n == 0 { 0 } else { 1 });
    }
    let thorough = !ctx.quick();
    let mut st = Stats::new();
    let mut order_base = 0u64;
    let only = only_filter(ctx);
    let wants = |s: &str| only.as_deref().is_none_or(|o| o == s);
    if let Some(o) = &only {
        st.cap(format!("--only {o}: the other sub-engines were not run"));
    }
    let mut support = serde_json::Map::new();
    let types = all_row_types(thorough);

    // ---------------- single field: every type x 4 options x all pairs of columns x layout pairs
    struct SJob {
        ty: Ty,
        al: Vec<Val>,
        space: ColSpace,
        start: u64,
    }
    let mut sjobs: Vec<SJob> = vec![];
    let mut stotal = 0u64;
    for ty in &types {
        let al = alphabet(ty);
        let a = al.len();
        let space = if thorough { ColSpace::new(a, &[(a.min(8), 2), (a.min(4), 3)]) } else { ColSpace::new(a, &[(a.min(6), 2), (a.min(3), 3)]) };
        support.insert(ty.name(), json!({"row_format": row_supported(ty), "decoded_as": hydrate(ty).name(), "alphabet": a, "columns": space.describe()}));
        let c = space.count();
        sjobs.push(SJob { ty: ty.clone(), al, space, start: stotal });
        stotal += c * c;
    }
    let lay_pairs: &[(Lay, Lay)] = if thorough { &LAY_PAIRS } else { &LAY_PAIRS[..2] };
    let sel_depth = if thorough { 3 } else { 2 };
    st.merge(par_for(ctx, "single", if wants("single") { stotal } else { 0 }, 16, |idx, st| {
        let pi = sjobs.partition_point(|j| j.start <= idx) - 1;
        let job = &sjobs[pi];
        let off = idx - job.start;
        let cnt = job.space.count();
        let (ca, cb) = (job.space.decode(off / cnt), job.space.decode(off % cnt));
        // total rows bound: keep |A| + |B| <= 4 (selections are over |A|+|B| rows)
        if ca.len() + cb.len() > 4 {
            return;
        }
        let a = vec![ca.iter().map(|i| job.al[*i as usize].clone()).collect::<Vec<Val>>()];
        let b = vec![cb.iter().map(|i| job.al[*i as usize].clone()).collect::<Vec<Val>>()];
        let tys = std::slice::from_ref(&job.ty);
        let mut ev = 0;
        for o in ALL_OPTS {
            for (la, lb) in lay_pairs {
                let c = Case { tys, os: &[o], a: &a, b: &b, la: *la, lb: *lb, sel_depth };
                let cj = || case_json("single", &c);
                let mut rp = Rp { st, order: order_base + idx, prop: "c11", kind: kind_for(tys), case: &cj, verbose: false };
                ev += run_case(&c, &mut rp);
            }
        }
        let nt = a[0].len() + b[0].len() >= 2;
        st.add("single", ev, if nt { 4 * lay_pairs.len() as u64 } else { 0 });
        if off == cnt * cnt - 1 && (pi == 0 || pi == sjobs.len() - 1) {
            st.sample("single", || json!({"type": job.ty.name(), "A": show_col(&a[0]), "B": show_col(&b[0])}));
        }
    }));
    order_base += stotal;
    st.extra.insert("single_cases".into(), json!(stotal));

    // ---------------- variable-length block boundaries
    use DataType::*;
    let direct: Vec<(Ty, bool)> = vec![(by(Binary), false), (by(LargeBinary), false), (by(BinaryView), false), (by(Utf8), true), (by(LargeUtf8), true), (by(Utf8View), true)];
    let wrapped: Vec<Ty> = vec![
        list(LK::List, by(Binary)),
        list(LK::LargeListView, by(BinaryView)),
        Ty::Struct(vec![by(Binary), p(Int8)]),
        fsl(2, by(Binary)),
        dict(Int8, by(Binary)),
        ree(Int32, by(Binary)),
        Ty::Map(Box::new(by(Utf8)), Box::new(by(Binary))),
    ];
    struct VJob {
        ty: Ty,
        vals: Vec<Val>,
        start: u64,
    }
    let mut vjobs: Vec<VJob> = vec![];
    let mut vtotal = 0u64;
    for (ty, utf8) in &direct {
        let vals = varlen_values(*utf8, false);
        let n = vals.len() as u64;
        vjobs.push(VJob { ty: ty.clone(), vals, start: vtotal });
        vtotal += n * n;
    }
    for ty in &wrapped {
        let vals = varlen_values(false, !thorough);
        let n = vals.len() as u64;
        vjobs.push(VJob { ty: ty.clone(), vals, start: vtotal });
        vtotal += n * n;
    }
    st.merge(par_for(ctx, "varlen", if wants("varlen") { vtotal } else { 0 }, 32, |idx, st| {
        let pi = vjobs.partition_point(|j| j.start <= idx) - 1;
        let job = &vjobs[pi];
        let off = idx - job.start;
        let n = job.vals.len() as u64;
        let (v, w) = (&job.vals[(off / n) as usize], &job.vals[(off % n) as usize]);
        let (ca, cb) = varlen_columns(&job.ty, v, w);
        let (a, b) = (vec![ca], vec![cb]);
        let tys = std::slice::from_ref(&job.ty);
        let mut ev = 0;
        // layouts alternate deterministically with the pair index (both are covered for every v via different w)
        let (la, lb) = LAY_PAIRS[(off % 2) as usize];
        for o in ALL_OPTS {
            let c = Case { tys, os: &[o], a: &a, b: &b, la, lb, sel_depth: 1 };
            let cj = || case_json("varlen", &c);
            let mut rp = Rp { st, order: order_base + idx, prop: "c11", kind: kind_for(tys), case: &cj, verbose: false };
            ev += run_case(&c, &mut rp);
        }
        st.add("varlen", ev, 4);
        if off == n * n - 1 && pi == 0 {
            st.sample("varlen", || json!({"type": job.ty.name(), "v": v.show(), "w": w.show()}));
        }
    }));
    order_base += vtotal;
    st.extra.insert("varlen_cases".into(), json!({"cases": vtotal, "direct_values": varlen_values(false, false).len(), "utf8_values": varlen_values(true, false).len(), "wrapped_values": varlen_values(false, !thorough).len()}));

    // ---------------- tuples of fields
    let mut tuple_types: Vec<Vec<Ty>> = vec![
        vec![p(Int32), by(Utf8)],
        vec![by(Utf8), p(Int32)],
        vec![by(Binary), by(Binary)],
        vec![by(Utf8View), p(Float64)],
        vec![Ty::Bool, dict(Int8, by(Utf8))],
        vec![list(LK::List, p(Int32)), p(Int8)],
        vec![Ty::Struct(vec![p(Int32), by(Utf8)]), Ty::Bool],
        vec![ree(Int16, p(Int32)), by(Binary)],
        vec![Ty::Fsb(3), p(Interval(arrow_schema::IntervalUnit::MonthDayNano))],
        vec![Ty::Union(true, vec![(0, p(Int32)), (5, by(Utf8))]), p(Int32)],
        vec![Ty::Map(Box::new(by(Utf8)), Box::new(p(Int32))), p(Decimal128(10, -1))],
        vec![Ty::Null, p(Int32)],
        vec![fsl(2, p(Int32)), list(LK::ListView, p(Int32))],
        vec![Ty::Struct(vec![]), by(Utf8)],
    ];
    if thorough {
        tuple_types.extend([
            vec![p(Decimal256(40, 3)), by(LargeUtf8)],
            vec![dict(UInt16, p(Int32)), dict(Int32, by(Utf8View))],
            vec![p(Float16), by(BinaryView)],
            vec![ree(Int32, by(Utf8)), ree(Int64, Ty::Bool)],
            vec![list(LK::List, by(Utf8)), list(LK::List, by(Utf8))],
            vec![Ty::Fsb(0), Ty::Fsb(3)],
        ]);
    }
    let mut triple_types: Vec<Vec<Ty>> = vec![];
    if thorough {
        triple_types.push(vec![p(Int32), by(Utf8), Ty::Bool]);
        triple_types.push(vec![by(Binary), list(LK::List, p(Int32)), p(Float64)]);
        triple_types.push(vec![dict(Int8, by(Utf8)), Ty::Struct(vec![p(Int32), by(Utf8)]), by(Utf8View)]);
    }
    struct TJob {
        tys: Vec<Ty>,
        als: Vec<Vec<Val>>,
        letters: Vec<usize>,
        start: u64,
    }
    // A has 0..=2 rows, B has 0..=1 rows over the product alphabet
    let mut tjobs: Vec<TJob> = vec![];
    let mut ttotal = 0u64;
    let count = |letters: &[usize]| -> u64 {
        let per: u64 = letters.iter().map(|l| *l as u64).product();
        (1 + per + per * per) * (1 + per)
    };
    for tys in tuple_types.iter().chain(triple_types.iter()) {
        let als: Vec<Vec<Val>> = tys.iter().map(alphabet).collect();
        let cap = if tys.len() == 2 { if thorough { 4 } else { 3 } } else { 3 };
        let letters: Vec<usize> = als.iter().map(|a| a.len().min(cap)).collect();
        let c = count(&letters);
        tjobs.push(TJob { tys: tys.clone(), als, letters, start: ttotal });
        ttotal += c;
    }
    st.merge(par_for(ctx, "tuples", if wants("tuples") { ttotal } else { 0 }, 8, |idx, st| {
        let pi = tjobs.partition_point(|j| j.start <= idx) - 1;
        let job = &tjobs[pi];
        let off = idx - job.start;
        let per: u64 = job.letters.iter().map(|l| *l as u64).product();
        let nb_space = 1 + per;
        let (mut ai, bi) = (off / nb_space, off % nb_space);
        let k = job.tys.len();
        let decode_row = |mut r: u64| -> Vec<Val> {
            let mut row = vec![];
            for (f, l) in job.letters.iter().enumerate() {
                row.push(job.als[f][(r % *l as u64) as usize].clone());
                r /= *l as u64;
            }
            row
        };
        let mut arows: Vec<Vec<Val>> = vec![];
        if ai >= 1 {
            ai -= 1;
            if ai < per {
                arows.push(decode_row(ai));
            } else {
                ai -= per;
                arows.push(decode_row(ai % per));
                arows.push(decode_row(ai / per));
            }
        }
        let brows: Vec<Vec<Val>> = if bi == 0 { vec![] } else { vec![decode_row(bi - 1)] };
        let a: Vec<Vec<Val>> = (0..k).map(|f| arows.iter().map(|r| r[f].clone()).collect()).collect();
        let b: Vec<Vec<Val>> = (0..k).map(|f| brows.iter().map(|r| r[f].clone()).collect()).collect();
        let mut ev = 0;
        let ops = opt_product(k);
        for os in &ops {
            let (la, lb) = LAY_PAIRS[(os[0].idx() + os[k - 1].idx()) % 2];
            let c = Case { tys: &job.tys, os, a: &a, b: &b, la, lb, sel_depth: 2 };
            let cj = || case_json("tuples", &c);
            let mut rp = Rp { st, order: order_base + idx, prop: "c11", kind: kind_for(&job.tys), case: &cj, verbose: false };
            ev += run_case(&c, &mut rp);
        }
        st.add("tuples", ev, if arows.len() + brows.len() >= 2 { ops.len() as u64 } else { 0 });
        if idx == ttotal - 1 {
            st.sample("tuples", || json!({"types": job.tys.iter().map(|t| t.name()).collect::<Vec<_>>(), "A": a.iter().map(|x| show_col(x)).collect::<Vec<_>>(), "B": b.iter().map(|x| show_col(x)).collect::<Vec<_>>()}));
        }
    }));
    order_base += ttotal;
    st.extra.insert("tuple_cases".into(), json!(ttotal));

    // ---------------- long columns: offsets / row_lengths at scale; byte-sorted rows == model-sorted values
    let long_types: Vec<Vec<Ty>> = vec![
        vec![p(Int32)],
        vec![by(Utf8)],
        vec![by(BinaryView)],
        vec![Ty::Bool, by(Utf8)],
        vec![dict(Int8, by(Utf8))],
        vec![ree(Int16, p(Int32))],
        vec![list(LK::List, p(Int32))],
        vec![Ty::Struct(vec![p(Int32), by(Utf8)]), p(Float64)],
        vec![fsl(2, p(Int32))],
        vec![Ty::Map(Box::new(by(Utf8)), Box::new(p(Int32)))],
        vec![Ty::Union(true, vec![(0, p(Int32)), (5, by(Utf8))])],
        vec![list(LK::LargeListView, by(Utf8View)), p(Int8)],
    ];
    let long_lens: Vec<usize> = if thorough { vec![7, 8, 9, 31, 32, 33, 63, 64, 65, 127, 128, 129, 255, 256, 257, 1023, 1024, 1025] } else { vec![9, 33, 64, 65, 257, 1025] };
    let long_lays = [COMPACT, Lay { garbage: true, alt: true, lead: 3, trail: 1 }];
    let n_long = (long_types.len() * long_lens.len() * long_lays.len() * 4) as u64;
    st.merge(par_for(ctx, "long", if wants("long") { n_long } else { 0 }, 1, |idx, st| {
        let mut i = idx as usize;
        let o = ALL_OPTS[i % 4];
        i /= 4;
        let lay = long_lays[i % long_lays.len()];
        i /= long_lays.len();
        let len = long_lens[i % long_lens.len()];
        i /= long_lens.len();
        let tys = &long_types[i];
        let k = tys.len();
        let streams = [vcore::lfsr_bytes(2048, vcore::LFSR_A), vcore::lfsr_bytes(2048, vcore::LFSR_B)];
        let cols: Vec<Vec<Val>> = (0..k)
            .map(|f| {
                let al = alphabet(&tys[f]);
                (0..len).map(|r| al[streams[f % 2][(r * (f + 1)) % 2048] as usize % al.len()].clone()).collect()
            })
            .collect();
        let os: Vec<Opts> = (0..k).map(|f| ALL_OPTS[(o.idx() + f) % 4]).collect();
        let label = format!("long ({}) len={len} [{}] {}", tys.iter().map(|t| t.name()).collect::<Vec<_>>().join(", "), lay.show(), os.iter().map(|o| o.show()).collect::<Vec<_>>().join(","));
        let cj = || json!({"sub": "long", "label": label});
        let mut rp = Rp { st, order: order_base + idx, prop: "c11", kind: kind_for(tys), case: &cj, verbose: false };
        let stage = std::cell::Cell::new("RowConverter::new");
        let r = catch(|| -> Result<(), String> {
            let conv = RowConverter::new((0..k).map(|f| SortField::new_with_options(tys[f].data_type(), os[f].arrow())).collect()).map_err(|e| e.to_string())?;
            let arrs: Vec<ArrayRef> = (0..k).map(|f| realise(&tys[f], &cols[f], lay)).collect();
            stage.set("convert_columns");
            let rows = conv.convert_columns(&arrs).map_err(|e| e.to_string())?;
            stage.set("Row::cmp");
            if rows.num_rows() != len {
                return Err("num_rows".into());
            }
            let model = |x: usize, y: usize| -> Ordering {
                for f in 0..k {
                    match cmp_row(&cols[f][x], &cols[f][y], os[f]) {
                        Ordering::Equal => {}
                        r => return r,
                    }
                }
                Ordering::Equal
            };
            // byte-sorted order is position-wise model-equal to the model-sorted order
            let mut by_bytes: Vec<usize> = (0..len).collect();
            by_bytes.sort_by(|x, y| rows.row(*x).cmp(&rows.row(*y)));
            let mut by_model: Vec<usize> = (0..len).collect();
            by_model.sort_by(|x, y| model(*x, *y));
            for q in 0..len {
                if model(by_bytes[q], by_model[q]) != Ordering::Equal {
                    return Err(format!("order: sorted position {q}: byte order has row {} model order has row {}", by_bytes[q], by_model[q]));
                }
            }
            for q in 0..len.saturating_sub(1) {
                let (x, y) = (by_bytes[q], by_bytes[q + 1]);
                if (rows.row(x) == rows.row(y)) != (model(x, y) == Ordering::Equal) {
                    return Err(format!("injective: rows {x},{y}"));
                }
            }
            stage.set("convert_rows");
            let back = conv.convert_rows(&rows).map_err(|e| e.to_string())?;
            for f in 0..k {
                validate(back[f].as_ref()).map_err(|e| format!("wf: {e}"))?;
                if extract(back[f].as_ref()) != cols[f] {
                    return Err(format!("values: field {f} differs after convert_rows"));
                }
            }
            // reversed selection
            let back = conv.convert_rows(rows.iter().rev()).map_err(|e| e.to_string())?;
            for f in 0..k {
                let mut want = cols[f].clone();
                want.reverse();
                if extract(back[f].as_ref()) != want {
                    return Err(format!("values: field {f} differs after convert_rows(reversed)"));
                }
            }
            stage.set("try_into_binary");
            let bin = rows.clone().try_into_binary().map_err(|e| e.to_string())?;
            let rows2 = conv.from_binary(bin);
            if (0..len).any(|q| rows2.row(q) != rows.row(q)) {
                return Err("binary: rows differ after the binary round trip".into());
            }
            Ok(())
        });
        match r {
            Ok(Ok(())) => {}
            Ok(Err(e)) => {
                let check = e.split(':').next().unwrap_or("error").to_string();
                let api = match check.as_str() {
                    "order" => "Row::cmp",
                    "injective" => "Row::eq",
                    "values" | "wf" => "convert_rows",
                    "binary" => "from_binary",
                    _ => stage.get(),
                };
                rp.fail(api, &check, format!("{label}: {e}"));
            }
            Err(p) => rp.panic(stage.get(), &p, label.clone()),
        }
        st.add("long", (len * 4) as u64, 1);
        if idx == n_long - 1 {
            st.sample("long", || json!({"label": label}));
        }
    }));
    st.extra.insert("long_cases".into(), json!({"cases": n_long, "lengths": long_lens}));
    st.extra.insert("support_matrix".into(), Value::Object(support));
    st.extra.insert("types".into(), json!(types.len()));

    vcore::finish(
        ctx,
        Level {
            category: "exploration",
            rule: "cases are enumerated, never sampled. single: for every field type, all ordered pairs (A, B) of columns (all sequences up to the stated length over the alphabet prefix, |A|+|B| <= 4) x 4 SortOptions x layout pairs; varlen: all ordered pairs of the variable-length alphabet (every length in {0,1,7,8,9,31,32,33,63,64,65} x contents from {00,01,02,03,FE,FF}) per byte type and wrapper type x 4 SortOptions; tuples: all (A rows <= 2, B rows <= 1) over the product alphabet x 4^k option assignments; long: complete product type x length x layout x options. A case is non-trivial when it has >= 2 rows in total.".into(),
            assumptions: vec![
                "model order = make_comparator's order (cross-checked by C10) with one documented difference: unions are ordered by type id first and have no top-level null, so a null of branch A and a null of branch B are different, ordered rows".into(),
                "maps compare in entry order (documented 'Map Equality' note)".into(),
                "decoded columns are compared logically; dictionaries come back as their value type (documented), run-end arrays as run-end arrays with hydrated values".into(),
                "rows compared only when produced by the same RowConverter (documented precondition)".into(),
            ],
            exhaustive_space: "property quantifier restricted to: type grid in coverage.support_matrix, columns of <= 3 rows (<= 1025 in the long family), tuples of <= 2 fields (3 in thorough), the stated variable-length alphabet".into(),
        },
        st,
    )
}
