mod c10;
mod c11;
mod model;
mod report;
mod space;
fn main() {
    let ctx = vcore::Ctx::from_args();
    match ctx.prop.as_str() {
        "C10" => c10::run(&ctx),
        "C11" => c11::run(&ctx),
        other => {
            eprintln!("MACHINERY: vk-ord does not serve property {other:?}");
            std::process::exit(2)
        }
    }
}
