//! Logical value model shared by C10 and C11: `Val` (value tree), `Ty` (type descriptor), the model
//! order (IEEE totalOrder, bytewise, signed/unsigned, field-wise, lexicographic lists, null placement
//! per SortOptions with arrow's child-option rule), `realise` (logical column -> physical array in a
//! chosen layout, via validating constructors only) and `extract` (array -> logical column through
//! typed accessors, no kernels, no `==`).
use arrow_array::cast::AsArray;
use arrow_array::types::*;
use arrow_array::*;
use arrow_buffer::{ArrowNativeType, Buffer, IntervalDayTime, IntervalMonthDayNano, NullBuffer, OffsetBuffer, ScalarBuffer, i256};
use arrow_schema::{DataType, Field, Fields, IntervalUnit, TimeUnit, UnionFields, UnionMode};
use half::f16;
use std::cmp::Ordering;
use std::sync::Arc;

// -------------------------------------------------------------------------------------------------
// values

#[derive(Clone, Debug, PartialEq, Eq, Hash, PartialOrd, Ord)]
pub enum Val {
    Null,
    Bool(bool),
    /// all integer-like physical types (ints, dates, times, timestamps, durations, decimals <= 128 bit, year-month)
    I(i128),
    /// 256-bit decimals as (high signed, low unsigned)
    D256(i128, u128),
    F16(u16),
    F32(u32),
    F64(u64),
    /// IntervalDayTime (days, milliseconds)
    DT(i32, i32),
    /// IntervalMonthDayNano (months, days, nanos)
    MDN(i32, i32, i64),
    /// utf8 / binary / fixed-size binary contents
    B(Vec<u8>),
    /// list / large list / list view / fixed-size list; maps are lists of Struct([key, value])
    List(Vec<Val>),
    Struct(Vec<Val>),
    Union(i8, Box<Val>),
}

impl Val {
    /// logical nullness as the kernels see it (`logical_nulls`): a union slot is null iff the selected child is
    pub fn is_null(&self) -> bool {
        match self {
            Val::Null => true,
            Val::Union(_, v) => v.is_null(),
            _ => false,
        }
    }
    pub fn show(&self) -> String {
        match self {
            Val::Null => "null".into(),
            Val::Bool(b) => format!("{b}"),
            Val::I(i) => format!("{i}"),
            Val::D256(h, l) => format!("d256({h},{l})"),
            Val::F16(b) => format!("f16:{:#06x}({})", b, f16::from_bits(*b)),
            Val::F32(b) => format!("f32:{:#010x}({})", b, f32::from_bits(*b)),
            Val::F64(b) => format!("f64:{:#018x}({})", b, f64::from_bits(*b)),
            Val::DT(d, m) => format!("dt({d},{m})"),
            Val::MDN(m, d, n) => format!("mdn({m},{d},{n})"),
            Val::B(b) => format!("x'{}'", b.iter().map(|x| format!("{x:02x}")).collect::<String>()),
            Val::List(v) => format!("[{}]", v.iter().map(|x| x.show()).collect::<Vec<_>>().join(",")),
            Val::Struct(v) => format!("{{{}}}", v.iter().map(|x| x.show()).collect::<Vec<_>>().join(",")),
            Val::Union(t, v) => format!("u{t}:{}", v.show()),
        }
    }
}

pub fn show_col(c: &[Val]) -> String {
    format!("[{}]", c.iter().map(|v| v.show()).collect::<Vec<_>>().join(", "))
}

/// IEEE-754 totalOrder key from a bit pattern of `width` bits: sign-magnitude -> signed integer
/// (negative values order by decreasing magnitude, -0 < +0, -NaN lowest, +NaN highest, payload ordered).
pub fn total_key(bits: u64, width: u32) -> i128 {
    let sign = (bits >> (width - 1)) & 1;
    let mag = (bits & ((1u64 << (width - 1)) - 1)) as i128;
    if sign == 1 { -mag - 1 } else { mag }
}

#[derive(Clone, Copy, Debug, PartialEq, Eq, Hash)]
pub struct Opts {
    pub descending: bool,
    pub nulls_first: bool,
}
pub const ALL_OPTS: [Opts; 4] = [
    Opts { descending: false, nulls_first: true },
    Opts { descending: false, nulls_first: false },
    Opts { descending: true, nulls_first: true },
    Opts { descending: true, nulls_first: false },
];
impl Opts {
    pub fn arrow(self) -> arrow_schema::SortOptions {
        arrow_schema::SortOptions { descending: self.descending, nulls_first: self.nulls_first }
    }
    pub fn show(self) -> String {
        format!("{}{}", if self.descending { "desc" } else { "asc" }, if self.nulls_first { "/nulls_first" } else { "/nulls_last" })
    }
    pub fn idx(self) -> usize {
        (self.descending as usize) * 2 + (!self.nulls_first) as usize
    }
}

/// Order of two values under `opts`. Nulls are placed per `nulls_first` (never reversed by
/// `descending`); non-null values compare ascending with nested children using the derived child
/// options {descending: false, nulls_first: nulls_first != descending} (documented in arrow-cmp
/// `child_opts`), and the result is reversed when `descending`.
/// `union_null`: whether a union slot whose selected child is null counts as a null at the union's own
/// level (true for make_comparator / kernels via `logical_nulls`; false for the row format, which
/// documents "union arrays have no top-level null marker ... ordered by their type id").
pub fn cmp_gen(a: &Val, b: &Val, o: Opts, union_null: bool) -> Ordering {
    let isn = |v: &Val| if union_null { v.is_null() } else { matches!(v, Val::Null) };
    match (isn(a), isn(b)) {
        (true, true) => Ordering::Equal,
        (true, false) => {
            if o.nulls_first {
                Ordering::Less
            } else {
                Ordering::Greater
            }
        }
        (false, true) => {
            if o.nulls_first {
                Ordering::Greater
            } else {
                Ordering::Less
            }
        }
        (false, false) => {
            let c = cmp_nonnull_gen(a, b, o.nulls_first != o.descending, union_null);
            if o.descending { c.reverse() } else { c }
        }
    }
}
pub fn cmp_opts(a: &Val, b: &Val, o: Opts) -> Ordering {
    cmp_gen(a, b, o, true)
}
/// the order the row format documents
pub fn cmp_row(a: &Val, b: &Val, o: Opts) -> Ordering {
    cmp_gen(a, b, o, false)
}

fn cmp_seq(x: &[Val], y: &[Val], child_nf: bool, union_null: bool) -> Ordering {
    let co = Opts { descending: false, nulls_first: child_nf };
    for (a, b) in x.iter().zip(y.iter()) {
        match cmp_gen(a, b, co, union_null) {
            Ordering::Equal => {}
            r => return r,
        }
    }
    Ordering::Equal
}

pub fn cmp_nonnull(a: &Val, b: &Val, child_nf: bool) -> Ordering {
    cmp_nonnull_gen(a, b, child_nf, true)
}

pub fn cmp_nonnull_gen(a: &Val, b: &Val, child_nf: bool, un: bool) -> Ordering {
    match (a, b) {
        (Val::Bool(x), Val::Bool(y)) => (*x as u8).cmp(&(*y as u8)),
        (Val::I(x), Val::I(y)) => x.cmp(y),
        (Val::D256(xh, xl), Val::D256(yh, yl)) => xh.cmp(yh).then(xl.cmp(yl)),
        (Val::F16(x), Val::F16(y)) => total_key(*x as u64, 16).cmp(&total_key(*y as u64, 16)),
        (Val::F32(x), Val::F32(y)) => total_key(*x as u64, 32).cmp(&total_key(*y as u64, 32)),
        (Val::F64(x), Val::F64(y)) => total_key(*x, 64).cmp(&total_key(*y, 64)),
        (Val::DT(xd, xm), Val::DT(yd, ym)) => xd.cmp(yd).then(xm.cmp(ym)),
        (Val::MDN(xm, xd, xn), Val::MDN(ym, yd, yn)) => xm.cmp(ym).then(xd.cmp(yd)).then(xn.cmp(yn)),
        (Val::B(x), Val::B(y)) => {
            // bytewise unsigned lexicographic, shorter prefix first
            let n = x.len().min(y.len());
            for i in 0..n {
                if x[i] != y[i] {
                    return if x[i] < y[i] { Ordering::Less } else { Ordering::Greater };
                }
            }
            x.len().cmp(&y.len())
        }
        (Val::List(x), Val::List(y)) => cmp_seq(x, y, child_nf, un).then(x.len().cmp(&y.len())),
        (Val::Struct(x), Val::Struct(y)) => cmp_seq(x, y, child_nf, un),
        (Val::Union(xt, xv), Val::Union(yt, yv)) => xt.cmp(yt).then_with(|| cmp_gen(xv, yv, Opts { descending: false, nulls_first: child_nf }, un)),
        _ => panic!("model: comparing values of different kinds: {a:?} vs {b:?}"),
    }
}

/// tuple order: column-wise with independent options
#[allow(dead_code)]
pub fn cmp_tuple(a: &[&Val], b: &[&Val], opts: &[Opts]) -> Ordering {
    for k in 0..a.len() {
        match cmp_opts(a[k], b[k], opts[k]) {
            Ordering::Equal => {}
            r => return r,
        }
    }
    Ordering::Equal
}

// -------------------------------------------------------------------------------------------------
// types

#[derive(Clone, Copy, Debug, PartialEq, Eq)]
pub enum LK {
    List,
    LargeList,
    ListView,
    LargeListView,
}

#[derive(Clone, Debug, PartialEq)]
pub enum Ty {
    Null,
    Bool,
    /// any primitive DataType
    Prim(DataType),
    /// Utf8, LargeUtf8, Binary, LargeBinary, Utf8View, BinaryView
    Bytes(DataType),
    Fsb(i32),
    Dict(DataType, Box<Ty>),
    Ree(DataType, Box<Ty>),
    List(LK, Box<Ty>),
    Fsl(i32, Box<Ty>),
    Struct(Vec<Ty>),
    Map(Box<Ty>, Box<Ty>),
    Union(bool, Vec<(i8, Ty)>),
}

impl Ty {
    pub fn data_type(&self) -> DataType {
        match self {
            Ty::Null => DataType::Null,
            Ty::Bool => DataType::Boolean,
            Ty::Prim(d) | Ty::Bytes(d) => d.clone(),
            Ty::Fsb(n) => DataType::FixedSizeBinary(*n),
            Ty::Dict(k, v) => DataType::Dictionary(Box::new(k.clone()), Box::new(v.data_type())),
            Ty::Ree(r, v) => DataType::RunEndEncoded(Arc::new(Field::new("run_ends", r.clone(), false)), Arc::new(Field::new("values", v.data_type(), true))),
            Ty::List(k, c) => {
                let f = item_field(c);
                match k {
                    LK::List => DataType::List(f),
                    LK::LargeList => DataType::LargeList(f),
                    LK::ListView => DataType::ListView(f),
                    LK::LargeListView => DataType::LargeListView(f),
                }
            }
            Ty::Fsl(n, c) => DataType::FixedSizeList(item_field(c), *n),
            Ty::Struct(fs) => DataType::Struct(struct_fields(fs)),
            Ty::Map(k, v) => DataType::Map(map_entries_field(k, v), false),
            Ty::Union(dense, cs) => DataType::Union(union_fields(cs), if *dense { UnionMode::Dense } else { UnionMode::Sparse }),
        }
    }
    pub fn name(&self) -> String {
        match self {
            Ty::Union(dense, cs) => format!("Union<{}>({})", if *dense { "dense" } else { "sparse" }, cs.iter().map(|(i, t)| format!("{i}:{}", t.name())).collect::<Vec<_>>().join(",")),
            Ty::Struct(fs) => format!("Struct<{}>", fs.iter().map(|t| t.name()).collect::<Vec<_>>().join(",")),
            Ty::Map(k, v) => format!("Map<{},{}>", k.name(), v.name()),
            Ty::List(k, c) => format!("{k:?}<{}>", c.name()),
            Ty::Fsl(n, c) => format!("FixedSizeList<{},{n}>", c.name()),
            Ty::Dict(k, v) => format!("Dictionary<{k},{}>", v.name()),
            Ty::Ree(r, v) => format!("RunEndEncoded<{r},{}>", v.name()),
            t => format!("{}", t.data_type()),
        }
    }
    pub fn is_nullable_top(&self) -> bool {
        !matches!(self, Ty::Union(..))
    }
}

fn item_field(c: &Ty) -> Arc<Field> {
    Arc::new(Field::new("item", c.data_type(), true))
}
fn struct_fields(fs: &[Ty]) -> Fields {
    Fields::from(fs.iter().enumerate().map(|(i, t)| Field::new(format!("f{i}"), t.data_type(), true)).collect::<Vec<_>>())
}
fn map_entries_field(k: &Ty, v: &Ty) -> Arc<Field> {
    Arc::new(Field::new(
        "entries",
        DataType::Struct(Fields::from(vec![Field::new("keys", k.data_type(), false), Field::new("values", v.data_type(), true)])),
        false,
    ))
}
fn union_fields(cs: &[(i8, Ty)]) -> UnionFields {
    UnionFields::try_new(cs.iter().map(|(i, _)| *i), cs.iter().map(|(i, t)| Field::new(format!("u{i}"), t.data_type(), true))).unwrap()
}

// -------------------------------------------------------------------------------------------------
// alphabets (curated order: every prefix is a sensible smaller alphabet; index 0 is Null when the
// type is nullable at top level)

fn ival(xs: &[i128]) -> Vec<Val> {
    xs.iter().map(|x| Val::I(*x)).collect()
}
fn b(s: &[u8]) -> Val {
    Val::B(s.to_vec())
}
fn d256_of(s: &str) -> Val {
    let v = i256::from_string(s).unwrap();
    let (lo, hi) = v.to_parts();
    Val::D256(hi, lo)
}

/// the value that plays "null element" for a child of type `ty` (unions have no validity of their own)
pub fn null_of(ty: &Ty) -> Val {
    match ty {
        Ty::Union(_, cs) => Val::Union(cs[0].0, Box::new(null_of(&cs[0].1))),
        _ => Val::Null,
    }
}

/// non-null alphabet of a type (letters are distinct)
pub fn alphabet_nn(ty: &Ty) -> Vec<Val> {
    let mut out = alphabet_raw(ty);
    let mut seen: Vec<Val> = vec![];
    out.retain(|v| {
        if seen.contains(v) {
            false
        } else {
            seen.push(v.clone());
            true
        }
    });
    out
}

fn alphabet_raw(ty: &Ty) -> Vec<Val> {
    use DataType::*;
    match ty {
        Ty::Null => vec![],
        Ty::Bool => vec![Val::Bool(false), Val::Bool(true)],
        Ty::Prim(d) => match d {
            Int8 => ival(&[-1, 1, i8::MIN as i128, i8::MAX as i128, 0]),
            Int16 => ival(&[-1, 1, i16::MIN as i128, i16::MAX as i128, 0]),
            Int32 | Date32 | Time32(_) | Interval(IntervalUnit::YearMonth) => ival(&[-1, 1, i32::MIN as i128, i32::MAX as i128, 0]),
            Int64 | Date64 | Time64(_) | Timestamp(_, _) | Duration(_) => ival(&[-1, 1, i64::MIN as i128, i64::MAX as i128, 0]),
            UInt8 => ival(&[0, 1, u8::MAX as i128, 0x80, 0x7f]),
            UInt16 => ival(&[0, 1, u16::MAX as i128, 0x8000, 0x7fff]),
            UInt32 => ival(&[0, 1, u32::MAX as i128, 0x8000_0000, 0x7fff_ffff]),
            UInt64 => ival(&[0, 1, u64::MAX as i128, 0x8000_0000_0000_0000, 0x7fff_ffff_ffff_ffff]),
            Float16 => [0x8000u16, 0x0000, 0x7e00, 0xfe00, 0x3c00, 0xfc00, 0x7c00, 0x7e01, 0xbc00, 0x0001, 0xfe01].iter().map(|x| Val::F16(*x)).collect(),
            Float32 => [0x8000_0000u32, 0, 0x7fc0_0000, 0xffc0_0000, 0x3f80_0000, 0xff80_0000, 0x7f80_0000, 0x7fc0_0001, 0xbf80_0000, 1, 0xffc0_0001]
                .iter()
                .map(|x| Val::F32(*x))
                .collect(),
            Float64 => [
                0x8000_0000_0000_0000u64,
                0,
                0x7ff8_0000_0000_0000,
                0xfff8_0000_0000_0000,
                0x3ff0_0000_0000_0000,
                0xfff0_0000_0000_0000,
                0x7ff0_0000_0000_0000,
                0x7ff8_0000_0000_0001,
                0xbff0_0000_0000_0000,
                1,
                0xfff8_0000_0000_0001,
            ]
            .iter()
            .map(|x| Val::F64(*x))
            .collect(),
            Decimal32(p, _) | Decimal64(p, _) | Decimal128(p, _) => {
                let m = 10i128.pow(*p as u32) - 1;
                ival(&[-1, 1, -m, m, 0])
            }
            Decimal256(p, _) => {
                let m = "9".repeat(*p as usize);
                vec![d256_of("-1"), d256_of("1"), d256_of(&format!("-{m}")), d256_of(&m), d256_of("0"), d256_of("340282366920938463463374607431768211456")]
            }
            Interval(IntervalUnit::DayTime) => vec![Val::DT(0, 1), Val::DT(1, -1), Val::DT(-1, i32::MAX), Val::DT(0, -1), Val::DT(i32::MIN, 0), Val::DT(1, 0), Val::DT(0, 90_000_000)],
            Interval(IntervalUnit::MonthDayNano) => {
                vec![Val::MDN(0, 100, 0), Val::MDN(1, 0, 0), Val::MDN(0, -1, -1), Val::MDN(-1, 0, i64::MAX), Val::MDN(0, 0, -1), Val::MDN(0, 100, 2), Val::MDN(i32::MIN, 0, 0)]
            }
            other => panic!("no alphabet for {other}"),
        },
        Ty::Bytes(d) => match d {
            Utf8 | LargeUtf8 | Utf8View => vec![
                b(b""),
                b(b"a"),
                b(b"a\0"),
                b(b"b"),
                b(b"abcd"),
                b(b"abc"),
                b("\u{e9}".as_bytes()),
                b(b"abcdefghijklm"),
                b(b"abcdefghijkl"),
                b(b"abcdefghijkln"),
                b(b"abc\0"),
                b(b"abcde"),
                b("\u{7f}".as_bytes()),
                b(b"abcdefghijklmnopqrstuvwxyz0123456"),
            ],
            _ => vec![
                b(b""),
                b(&[0x00]),
                b(&[0x00, 0x00]),
                b(&[0xff]),
                b(b"abcd"),
                b(&[0x01]),
                b(&[0x80]),
                b(b"abcdefghijklm"),
                b(b"abcdefghijkl"),
                b(b"abcdefghijkln"),
                b(&[0x7f]),
                b(b"abcd\0"),
                b(&[0xff, 0x00]),
                b(b"abcdefghijklmnopqrstuvwxyz0123456"),
            ],
        },
        Ty::Fsb(0) => vec![b(b"")],
        Ty::Fsb(n) => {
            let n = *n as usize;
            let mk = |first: u8, last: u8| {
                let mut v = vec![0u8; n];
                v[n - 1] = last;
                v[0] = first | if n == 1 { last } else { 0 };
                Val::B(v)
            };
            vec![mk(0, 0), mk(0, 1), mk(0xff, 0), mk(0x80, 0), mk(0x7f, 0xff), mk(0xff, 0xff)]
        }
        Ty::Dict(_, v) | Ty::Ree(_, v) => alphabet_nn(v),
        Ty::List(_, c) => {
            let a = alphabet_nn(c);
            let (x, y) = (a[0].clone(), a[1].clone());
            let l = |v: &[&Val]| Val::List(v.iter().map(|x| (*x).clone()).collect());
            let n = null_of(c);
            vec![l(&[]), l(&[&x]), l(&[&x, &n]), l(&[&n]), l(&[&x, &y]), l(&[&y]), l(&[&n, &x]), l(&[&x, &x])]
        }
        Ty::Fsl(n, c) => {
            let a = alphabet_nn(c);
            let (x, y) = (a[0].clone(), a[1].clone());
            let nl = null_of(c);
            match n {
                0 => vec![Val::List(vec![])],
                1 => vec![Val::List(vec![x]), Val::List(vec![nl]), Val::List(vec![y])],
                _ => {
                    let k = *n as usize - 2;
                    let l = |p: &Val, q: &Val| {
                        let mut v = vec![p.clone(); k];
                        v.push(p.clone());
                        v.push(q.clone());
                        Val::List(v)
                    };
                    let mut out = vec![l(&x, &y), l(&x, &nl), l(&nl, &x), l(&nl, &nl), l(&y, &x), l(&x, &x)];
                    out.dedup();
                    out
                }
            }
        }
        Ty::Struct(fs) => {
            if fs.is_empty() {
                return vec![Val::Struct(vec![])];
            }
            let als: Vec<Vec<Val>> = fs.iter().map(alphabet_nn).collect();
            let pick = |sel: &[usize]| Val::Struct(sel.iter().enumerate().map(|(i, s)| if *s == 0 { null_of(&fs[i]) } else { als[i][(*s - 1) % als[i].len()].clone() }).collect());
            // selector per field: 0 = null, k = k-th letter
            let n = fs.len();
            let mut out = vec![];
            let base: Vec<usize> = vec![1; n];
            out.push(pick(&base));
            for i in (0..n).rev() {
                let mut s = base.clone();
                s[i] = 0;
                out.push(pick(&s));
            }
            out.push(pick(&vec![0; n]));
            for i in 0..n {
                let mut s = base.clone();
                s[i] = 2;
                out.push(pick(&s));
            }
            out.push(pick(&vec![2; n]));
            let mut seen = vec![];
            out.retain(|v| {
                if seen.contains(v) {
                    false
                } else {
                    seen.push(v.clone());
                    true
                }
            });
            out
        }
        Ty::Map(k, v) => {
            let ka = alphabet_nn(k);
            let va = alphabet_nn(v);
            let e = |k: &Val, v: &Val| Val::Struct(vec![k.clone(), v.clone()]);
            let n = Val::Null;
            // keys: use non-empty-ish letters 1 and 3 when available
            let (k1, k2) = (ka[1 % ka.len()].clone(), ka[3 % ka.len()].clone());
            let (v1, v2) = (va[0].clone(), va[1].clone());
            vec![
                Val::List(vec![]),
                Val::List(vec![e(&k1, &v1)]),
                Val::List(vec![e(&k1, &n)]),
                Val::List(vec![e(&k1, &v1), e(&k2, &v2)]),
                Val::List(vec![e(&k2, &v1)]),
                Val::List(vec![e(&k1, &v2)]),
                Val::List(vec![e(&k2, &v2), e(&k1, &v1)]),
            ]
        }
        Ty::Union(_, cs) => {
            let mut out = vec![];
            // interleave: first letter of each child, null of each child, second letter of each child
            for (id, t) in cs {
                out.push(Val::Union(*id, Box::new(alphabet_nn(t)[0].clone())));
            }
            for (id, _) in cs {
                out.push(Val::Union(*id, Box::new(Val::Null)));
            }
            for (id, t) in cs {
                out.push(Val::Union(*id, Box::new(alphabet_nn(t)[1].clone())));
            }
            out
        }
    }
}

/// full alphabet: Null first (when the type can be null at top level), then the non-null letters
pub fn alphabet(ty: &Ty) -> Vec<Val> {
    let mut v = vec![];
    if ty.is_nullable_top() {
        v.push(Val::Null);
    }
    v.extend(alphabet_nn(ty));
    v
}

// -------------------------------------------------------------------------------------------------
// realise: logical column -> physical array

#[derive(Clone, Copy, Debug, PartialEq, Eq, Hash)]
pub struct Lay {
    /// non-default payload under every null slot
    pub garbage: bool,
    /// type-specific alternative encoding (see STATUS.md): validity buffer always present; byte arrays
    /// and lists with first offset != 0 and trailing padding; views with extra data buffers;
    /// dictionaries permuted + duplicated + unused entry + null dictionary value; run-ends split into
    /// unit runs; list-views reversed with gaps; dense union children permuted
    pub alt: bool,
    /// build `lead` extra leading and `trail` trailing rows, then slice
    pub lead: usize,
    pub trail: usize,
}
pub const COMPACT: Lay = Lay { garbage: false, alt: false, lead: 0, trail: 0 };
impl Lay {
    pub fn show(self) -> String {
        let mut s = vec![];
        if self.garbage {
            s.push("garbage-under-nulls".to_string());
        }
        if self.alt {
            s.push("alt-encoding".to_string());
        }
        if self.lead + self.trail > 0 {
            s.push(format!("sliced({},{})", self.lead, self.trail));
        }
        if s.is_empty() { "compact".into() } else { s.join("+") }
    }
}

fn mk_nulls(vals: &[Val], force: bool) -> Option<NullBuffer> {
    let has = vals.iter().any(|v| matches!(v, Val::Null));
    if has || (force && !vals.is_empty()) { Some(NullBuffer::from(vals.iter().map(|v| !matches!(v, Val::Null)).collect::<Vec<bool>>())) } else { None }
}

pub fn realise(ty: &Ty, vals: &[Val], lay: Lay) -> ArrayRef {
    if lay.lead == 0 && lay.trail == 0 {
        return build(ty, vals, lay.garbage, lay.alt);
    }
    let al = alphabet(ty);
    let mut all = Vec::with_capacity(vals.len() + lay.lead + lay.trail);
    let ree = matches!(ty, Ty::Ree(..));
    for k in 0..lay.lead {
        // run-end arrays: extend the first run backwards so that the slice starts inside a run
        all.push(if ree && !vals.is_empty() && k + 1 >= lay.lead.min(2) { vals[0].clone() } else { al[(k * 3 + 1) % al.len()].clone() });
    }
    all.extend_from_slice(vals);
    for k in 0..lay.trail {
        all.push(if ree && !vals.is_empty() && k == 0 { vals[vals.len() - 1].clone() } else { al[(k * 5 + 2) % al.len()].clone() });
    }
    build(ty, &all, lay.garbage, lay.alt).slice(lay.lead, vals.len())
}

fn garbage_of(ty: &Ty, i: usize) -> Val {
    let a = alphabet_nn(ty);
    if a.is_empty() { Val::Null } else { a[(i * 7 + 3) % a.len()].clone() }
}

macro_rules! prim_arm {
    ($T:ty, $dt:expr, $vals:expr, $g:expr, $alt:expr, $ty:expr, $conv:expr) => {{
        let conv = $conv;
        let values: Vec<<$T as ArrowPrimitiveType>::Native> = $vals
            .iter()
            .enumerate()
            .map(|(i, v)| if matches!(v, Val::Null) { if $g { conv(&garbage_of($ty, i)) } else { Default::default() } } else { conv(v) })
            .collect();
        Arc::new(PrimitiveArray::<$T>::try_new(ScalarBuffer::from(values), mk_nulls($vals, $alt)).unwrap().with_data_type($dt.clone())) as ArrayRef
    }};
}

fn as_i(v: &Val) -> i128 {
    match v {
        Val::I(x) => *x,
        _ => panic!("expected I, got {v:?}"),
    }
}

fn build_prim(ty: &Ty, dt: &DataType, vals: &[Val], g: bool, alt: bool) -> ArrayRef {
    use DataType::*;
    match dt {
        Int8 => prim_arm!(Int8Type, dt, vals, g, alt, ty, |v: &Val| as_i(v) as i8),
        Int16 => prim_arm!(Int16Type, dt, vals, g, alt, ty, |v: &Val| as_i(v) as i16),
        Int32 => prim_arm!(Int32Type, dt, vals, g, alt, ty, |v: &Val| as_i(v) as i32),
        Int64 => prim_arm!(Int64Type, dt, vals, g, alt, ty, |v: &Val| as_i(v) as i64),
        UInt8 => prim_arm!(UInt8Type, dt, vals, g, alt, ty, |v: &Val| as_i(v) as u8),
        UInt16 => prim_arm!(UInt16Type, dt, vals, g, alt, ty, |v: &Val| as_i(v) as u16),
        UInt32 => prim_arm!(UInt32Type, dt, vals, g, alt, ty, |v: &Val| as_i(v) as u32),
        UInt64 => prim_arm!(UInt64Type, dt, vals, g, alt, ty, |v: &Val| as_i(v) as u64),
        Float16 => prim_arm!(Float16Type, dt, vals, g, alt, ty, |v: &Val| match v {
            Val::F16(b) => f16::from_bits(*b),
            _ => panic!(),
        }),
        Float32 => prim_arm!(Float32Type, dt, vals, g, alt, ty, |v: &Val| match v {
            Val::F32(b) => f32::from_bits(*b),
            _ => panic!(),
        }),
        Float64 => prim_arm!(Float64Type, dt, vals, g, alt, ty, |v: &Val| match v {
            Val::F64(b) => f64::from_bits(*b),
            _ => panic!(),
        }),
        Decimal32(_, _) => prim_arm!(Decimal32Type, dt, vals, g, alt, ty, |v: &Val| as_i(v) as i32),
        Decimal64(_, _) => prim_arm!(Decimal64Type, dt, vals, g, alt, ty, |v: &Val| as_i(v) as i64),
        Decimal128(_, _) => prim_arm!(Decimal128Type, dt, vals, g, alt, ty, |v: &Val| as_i(v)),
        Decimal256(_, _) => prim_arm!(Decimal256Type, dt, vals, g, alt, ty, |v: &Val| match v {
            Val::D256(h, l) => i256::from_parts(*l, *h),
            _ => panic!(),
        }),
        Date32 => prim_arm!(Date32Type, dt, vals, g, alt, ty, |v: &Val| as_i(v) as i32),
        Date64 => prim_arm!(Date64Type, dt, vals, g, alt, ty, |v: &Val| as_i(v) as i64),
        Time32(TimeUnit::Second) => prim_arm!(Time32SecondType, dt, vals, g, alt, ty, |v: &Val| as_i(v) as i32),
        Time32(TimeUnit::Millisecond) => prim_arm!(Time32MillisecondType, dt, vals, g, alt, ty, |v: &Val| as_i(v) as i32),
        Time64(TimeUnit::Microsecond) => prim_arm!(Time64MicrosecondType, dt, vals, g, alt, ty, |v: &Val| as_i(v) as i64),
        Time64(TimeUnit::Nanosecond) => prim_arm!(Time64NanosecondType, dt, vals, g, alt, ty, |v: &Val| as_i(v) as i64),
        Timestamp(TimeUnit::Second, _) => prim_arm!(TimestampSecondType, dt, vals, g, alt, ty, |v: &Val| as_i(v) as i64),
        Timestamp(TimeUnit::Millisecond, _) => prim_arm!(TimestampMillisecondType, dt, vals, g, alt, ty, |v: &Val| as_i(v) as i64),
        Timestamp(TimeUnit::Microsecond, _) => prim_arm!(TimestampMicrosecondType, dt, vals, g, alt, ty, |v: &Val| as_i(v) as i64),
        Timestamp(TimeUnit::Nanosecond, _) => prim_arm!(TimestampNanosecondType, dt, vals, g, alt, ty, |v: &Val| as_i(v) as i64),
        Duration(TimeUnit::Second) => prim_arm!(DurationSecondType, dt, vals, g, alt, ty, |v: &Val| as_i(v) as i64),
        Duration(TimeUnit::Millisecond) => prim_arm!(DurationMillisecondType, dt, vals, g, alt, ty, |v: &Val| as_i(v) as i64),
        Duration(TimeUnit::Microsecond) => prim_arm!(DurationMicrosecondType, dt, vals, g, alt, ty, |v: &Val| as_i(v) as i64),
        Duration(TimeUnit::Nanosecond) => prim_arm!(DurationNanosecondType, dt, vals, g, alt, ty, |v: &Val| as_i(v) as i64),
        Interval(IntervalUnit::YearMonth) => prim_arm!(IntervalYearMonthType, dt, vals, g, alt, ty, |v: &Val| as_i(v) as i32),
        Interval(IntervalUnit::DayTime) => prim_arm!(IntervalDayTimeType, dt, vals, g, alt, ty, |v: &Val| match v {
            Val::DT(d, m) => IntervalDayTime::new(*d, *m),
            _ => panic!(),
        }),
        Interval(IntervalUnit::MonthDayNano) => prim_arm!(IntervalMonthDayNanoType, dt, vals, g, alt, ty, |v: &Val| match v {
            Val::MDN(m, d, n) => IntervalMonthDayNano::new(*m, *d, *n),
            _ => panic!(),
        }),
        other => panic!("build_prim: unsupported {other}"),
    }
}

fn bytes_of(v: &Val) -> &[u8] {
    match v {
        Val::B(b) => b,
        _ => panic!("expected B, got {v:?}"),
    }
}

fn build_bytes<T: ByteArrayType>(vals: &[Val], g: bool, alt: bool) -> ArrayRef {
    let mut data: Vec<u8> = vec![];
    if alt {
        data.extend_from_slice(b"xy");
    }
    let mut offs: Vec<T::Offset> = vec![T::Offset::usize_as(data.len())];
    for v in vals {
        match v {
            Val::Null => {
                if g {
                    data.extend_from_slice(b"G!");
                }
            }
            v => data.extend_from_slice(bytes_of(v)),
        }
        offs.push(T::Offset::usize_as(data.len()));
    }
    if alt {
        data.extend_from_slice(b"pad");
    }
    let a = GenericByteArray::<T>::try_new(OffsetBuffer::new(ScalarBuffer::from(offs)), Buffer::from(data), mk_nulls(vals, alt)).unwrap();
    Arc::new(a)
}

fn build_view<T: ByteViewType>(vals: &[Val], g: bool, alt: bool) -> ArrayRef {
    use arrow_array::builder::make_view;
    // alt: an unused leading buffer, long values alternate between buffers 1 and 2, buffers carry padding
    let mut bufs: Vec<Vec<u8>> = if alt { vec![b"unused-buffer".to_vec(), b"~~".to_vec(), vec![]] } else { vec![] };
    let mut views: Vec<u128> = vec![];
    let mut nlong = 0usize;
    for v in vals {
        match v {
            Val::Null => views.push(if g { make_view(b"G!", 0, 0) } else { 0 }),
            v => {
                let s = bytes_of(v);
                if s.len() <= 12 {
                    views.push(make_view(s, 0, 0));
                } else {
                    let bi = if alt {
                        nlong += 1;
                        1 + (nlong % 2)
                    } else {
                        if bufs.is_empty() {
                            bufs.push(vec![]);
                        }
                        0
                    };
                    let off = bufs[bi].len();
                    bufs[bi].extend_from_slice(s);
                    views.push(make_view(s, bi as u32, off as u32));
                }
            }
        }
    }
    let buffers: Vec<Buffer> = bufs.into_iter().map(Buffer::from).collect();
    let a = GenericByteViewArray::<T>::try_new(ScalarBuffer::from(views), buffers, mk_nulls(vals, alt)).unwrap();
    Arc::new(a)
}

fn build_keys<K: ArrowDictionaryKeyType>(keys: &[Option<usize>], g: bool, alt: bool, nvalues: usize) -> PrimitiveArray<K> {
    let vals: Vec<K::Native> = keys
        .iter()
        .enumerate()
        .map(|(i, k)| match k {
            Some(k) => K::Native::from_usize(*k).unwrap(),
            None => {
                if g {
                    // out-of-range key under a null ("value can be arbitrary")
                    K::Native::from_usize(nvalues + 1 + (i % 3)).unwrap_or_default()
                } else {
                    Default::default()
                }
            }
        })
        .collect();
    let has = keys.iter().any(|k| k.is_none());
    let nulls = if has || (alt && !keys.is_empty()) { Some(NullBuffer::from(keys.iter().map(|k| k.is_some()).collect::<Vec<bool>>())) } else { None };
    PrimitiveArray::<K>::try_new(ScalarBuffer::from(vals), nulls).unwrap()
}

fn build_dict(kdt: &DataType, vty: &Ty, vals: &[Val], g: bool, alt: bool) -> ArrayRef {
    // dictionary values + key per row
    let mut dvals: Vec<Val> = vec![];
    let mut keys: Vec<Option<usize>> = vec![];
    if !alt {
        for v in vals {
            if matches!(v, Val::Null) {
                keys.push(None);
            } else {
                let k = match dvals.iter().position(|d| d == v) {
                    Some(k) => k,
                    None => {
                        dvals.push(v.clone());
                        dvals.len() - 1
                    }
                };
                keys.push(Some(k));
            }
        }
    } else {
        // layout: [unused letter, NULL, distinct values in reverse first-occurrence order..., the same again (duplicates)]
        let mut distinct: Vec<Val> = vec![];
        for v in vals {
            if !matches!(v, Val::Null) && !distinct.contains(v) {
                distinct.push(v.clone());
            }
        }
        distinct.reverse();
        let al = alphabet_nn(vty);
        dvals.push(al[al.len() - 1].clone());
        dvals.push(Val::Null);
        dvals.extend(distinct.iter().cloned());
        dvals.extend(distinct.iter().cloned());
        let nd = distinct.len();
        let mut seen = vec![0usize; nd];
        let mut nnull = 0usize;
        for v in vals {
            if matches!(v, Val::Null) {
                nnull += 1;
                // alternate: key -> null dictionary value, then null key
                keys.push(if nnull % 2 == 1 { Some(1) } else { None });
            } else {
                let p = distinct.iter().position(|d| d == v).unwrap();
                seen[p] += 1;
                keys.push(Some(2 + p + if seen[p] % 2 == 0 { nd } else { 0 }));
            }
        }
    }
    let values = build(vty, &dvals, g, false);
    macro_rules! mk {
        ($K:ty) => {
            Arc::new(DictionaryArray::<$K>::try_new(build_keys::<$K>(&keys, g, alt, dvals.len()), values).unwrap()) as ArrayRef
        };
    }
    match kdt {
        DataType::Int8 => mk!(Int8Type),
        DataType::Int16 => mk!(Int16Type),
        DataType::Int32 => mk!(Int32Type),
        DataType::Int64 => mk!(Int64Type),
        DataType::UInt8 => mk!(UInt8Type),
        DataType::UInt16 => mk!(UInt16Type),
        DataType::UInt32 => mk!(UInt32Type),
        DataType::UInt64 => mk!(UInt64Type),
        other => panic!("bad dictionary key type {other}"),
    }
}

fn build_ree(rdt: &DataType, vty: &Ty, vals: &[Val], g: bool, alt: bool) -> ArrayRef {
    let mut rvals: Vec<Val> = vec![];
    let mut ends: Vec<usize> = vec![];
    for (i, v) in vals.iter().enumerate() {
        if !alt && !rvals.is_empty() && rvals.last().unwrap() == v {
            *ends.last_mut().unwrap() = i + 1;
        } else {
            rvals.push(v.clone());
            ends.push(i + 1);
        }
    }
    let values = build(vty, &rvals, g, false);
    macro_rules! mk {
        ($R:ty, $n:ty) => {{
            let re = PrimitiveArray::<$R>::from_iter_values(ends.iter().map(|e| *e as $n));
            Arc::new(RunArray::<$R>::try_new(&re, values.as_ref()).unwrap()) as ArrayRef
        }};
    }
    match rdt {
        DataType::Int16 => mk!(Int16Type, i16),
        DataType::Int32 => mk!(Int32Type, i32),
        DataType::Int64 => mk!(Int64Type, i64),
        other => panic!("bad run end type {other}"),
    }
}

fn list_items(v: &Val) -> &[Val] {
    match v {
        Val::List(x) => x,
        _ => panic!("expected List, got {v:?}"),
    }
}

fn build_list(k: LK, cty: &Ty, vals: &[Val], g: bool, alt: bool) -> ArrayRef {
    let field = item_field(cty);
    let nulls = mk_nulls(vals, alt);
    match k {
        LK::List | LK::LargeList => {
            let mut child: Vec<Val> = vec![];
            if alt {
                child.push(garbage_of(cty, 0));
                child.push(garbage_of(cty, 1));
            }
            let mut offs = vec![child.len()];
            for (i, v) in vals.iter().enumerate() {
                match v {
                    Val::Null => {
                        if g {
                            child.push(garbage_of(cty, i));
                        }
                    }
                    v => child.extend_from_slice(list_items(v)),
                }
                offs.push(child.len());
            }
            if alt {
                child.push(garbage_of(cty, 2));
            }
            let values = build(cty, &child, g, false);
            if k == LK::List {
                Arc::new(ListArray::try_new(field, OffsetBuffer::new(ScalarBuffer::from(offs.iter().map(|o| *o as i32).collect::<Vec<_>>())), values, nulls).unwrap())
            } else {
                Arc::new(LargeListArray::try_new(field, OffsetBuffer::new(ScalarBuffer::from(offs.iter().map(|o| *o as i64).collect::<Vec<_>>())), values, nulls).unwrap())
            }
        }
        LK::ListView | LK::LargeListView => {
            let n = vals.len();
            let mut child: Vec<Val> = vec![];
            let mut offs = vec![0usize; n];
            let mut sizes = vec![0usize; n];
            let order: Vec<usize> = if alt { (0..n).rev().collect() } else { (0..n).collect() };
            for &i in &order {
                if alt {
                    child.push(garbage_of(cty, i)); // gap
                }
                offs[i] = child.len();
                match &vals[i] {
                    Val::Null => {
                        if g {
                            child.push(garbage_of(cty, i));
                            sizes[i] = 1;
                        }
                    }
                    v => {
                        let it = list_items(v);
                        child.extend_from_slice(it);
                        sizes[i] = it.len();
                    }
                }
            }
            let values = build(cty, &child, g, false);
            if k == LK::ListView {
                Arc::new(
                    ListViewArray::try_new(
                        field,
                        ScalarBuffer::from(offs.iter().map(|o| *o as i32).collect::<Vec<_>>()),
                        ScalarBuffer::from(sizes.iter().map(|o| *o as i32).collect::<Vec<_>>()),
                        values,
                        nulls,
                    )
                    .unwrap(),
                )
            } else {
                Arc::new(
                    LargeListViewArray::try_new(
                        field,
                        ScalarBuffer::from(offs.iter().map(|o| *o as i64).collect::<Vec<_>>()),
                        ScalarBuffer::from(sizes.iter().map(|o| *o as i64).collect::<Vec<_>>()),
                        values,
                        nulls,
                    )
                    .unwrap(),
                )
            }
        }
    }
}

fn build_fsl(size: i32, cty: &Ty, vals: &[Val], g: bool, alt: bool) -> ArrayRef {
    let mut child: Vec<Val> = vec![];
    for (i, v) in vals.iter().enumerate() {
        match v {
            Val::Null => {
                for j in 0..size as usize {
                    child.push(if g { garbage_of(cty, i + j) } else { Val::Null });
                }
            }
            v => {
                let it = list_items(v);
                assert_eq!(it.len(), size as usize);
                child.extend_from_slice(it);
            }
        }
    }
    let values = build(cty, &child, g, false);
    Arc::new(FixedSizeListArray::try_new_with_length(item_field(cty), size, values, mk_nulls(vals, alt), vals.len()).unwrap())
}

fn build_struct(fs: &[Ty], vals: &[Val], g: bool, alt: bool) -> ArrayRef {
    let nulls = mk_nulls(vals, alt);
    let cols: Vec<ArrayRef> = fs
        .iter()
        .enumerate()
        .map(|(fi, fty)| {
            let col: Vec<Val> = vals
                .iter()
                .enumerate()
                .map(|(i, v)| match v {
                    Val::Null => {
                        if g {
                            garbage_of(fty, i + fi)
                        } else {
                            Val::Null
                        }
                    }
                    Val::Struct(x) => x[fi].clone(),
                    _ => panic!("expected Struct, got {v:?}"),
                })
                .collect();
            build(fty, &col, g, false)
        })
        .collect();
    Arc::new(StructArray::try_new_with_length(struct_fields(fs), cols, nulls, vals.len()).unwrap())
}

fn build_map(kty: &Ty, vty: &Ty, vals: &[Val], g: bool, alt: bool) -> ArrayRef {
    let mut ks: Vec<Val> = vec![];
    let mut vs: Vec<Val> = vec![];
    if alt {
        ks.push(garbage_of(kty, 0));
        vs.push(garbage_of(vty, 0));
    }
    let mut offs = vec![ks.len() as i32];
    for (i, v) in vals.iter().enumerate() {
        match v {
            Val::Null => {
                if g {
                    ks.push(garbage_of(kty, i));
                    vs.push(garbage_of(vty, i));
                }
            }
            v => {
                for e in list_items(v) {
                    match e {
                        Val::Struct(kv) => {
                            ks.push(kv[0].clone());
                            vs.push(kv[1].clone());
                        }
                        _ => panic!("map entry must be Struct"),
                    }
                }
            }
        }
        offs.push(ks.len() as i32);
    }
    let DataType::Map(entries_field, _) = Ty::Map(Box::new(kty.clone()), Box::new(vty.clone())).data_type() else { unreachable!() };
    let DataType::Struct(ef) = entries_field.data_type().clone() else { unreachable!() };
    let entries = StructArray::try_new_with_length(ef, vec![build(kty, &ks, g, false), build(vty, &vs, g, false)], None, ks.len()).unwrap();
    Arc::new(MapArray::try_new(entries_field, OffsetBuffer::new(ScalarBuffer::from(offs)), entries, mk_nulls(vals, alt), false).unwrap())
}

fn build_union(dense: bool, cs: &[(i8, Ty)], vals: &[Val], g: bool, alt: bool) -> ArrayRef {
    // a literal Null (filler under a null parent) is realised as a null of the first branch
    let type_ids: Vec<i8> = vals
        .iter()
        .map(|v| match v {
            Val::Union(t, _) => *t,
            Val::Null => cs[0].0,
            _ => panic!("expected Union, got {v:?}"),
        })
        .collect();
    let inner = |v: &Val| match v {
        Val::Union(_, x) => (**x).clone(),
        _ => Val::Null,
    };
    let fields = union_fields(cs);
    if dense {
        let mut children: Vec<Vec<Val>> = vec![vec![]; cs.len()];
        let mut offsets = vec![0i32; vals.len()];
        if alt {
            // a leading unused slot in every child
            for (ci, (_, t)) in cs.iter().enumerate() {
                children[ci].push(garbage_of(t, ci));
            }
        }
        for (i, v) in vals.iter().enumerate() {
            let ci = cs.iter().position(|(id, _)| *id == type_ids[i]).unwrap();
            offsets[i] = children[ci].len() as i32;
            children[ci].push(inner(v));
        }
        let arrays: Vec<ArrayRef> = cs.iter().enumerate().map(|(ci, (_, t))| build(t, &children[ci], g, false)).collect();
        Arc::new(UnionArray::try_new(fields, ScalarBuffer::from(type_ids), Some(ScalarBuffer::from(offsets)), arrays).unwrap())
    } else {
        let arrays: Vec<ArrayRef> = cs
            .iter()
            .map(|(id, t)| {
                let col: Vec<Val> = vals.iter().enumerate().map(|(i, v)| if type_ids[i] == *id { inner(v) } else if g { garbage_of(t, i) } else { Val::Null }).collect();
                build(t, &col, g, false)
            })
            .collect();
        Arc::new(UnionArray::try_new(fields, ScalarBuffer::from(type_ids), None, arrays).unwrap())
    }
}

/// `alt` applies to the outermost level only (children are built compact, with the same garbage flag)
pub fn build(ty: &Ty, vals: &[Val], g: bool, alt: bool) -> ArrayRef {
    match ty {
        Ty::Null => Arc::new(NullArray::new(vals.len())),
        Ty::Bool => {
            let v: Vec<bool> = vals
                .iter()
                .enumerate()
                .map(|(i, v)| match v {
                    Val::Bool(b) => *b,
                    Val::Null => g && i % 2 == 0,
                    _ => panic!("expected Bool"),
                })
                .collect();
            Arc::new(BooleanArray::new(v.into(), mk_nulls(vals, alt)))
        }
        Ty::Prim(dt) => build_prim(ty, dt, vals, g, alt),
        Ty::Bytes(dt) => match dt {
            DataType::Utf8 => build_bytes::<Utf8Type>(vals, g, alt),
            DataType::LargeUtf8 => build_bytes::<LargeUtf8Type>(vals, g, alt),
            DataType::Binary => build_bytes::<BinaryType>(vals, g, alt),
            DataType::LargeBinary => build_bytes::<LargeBinaryType>(vals, g, alt),
            DataType::Utf8View => build_view::<StringViewType>(vals, g, alt),
            DataType::BinaryView => build_view::<BinaryViewType>(vals, g, alt),
            other => panic!("bad bytes type {other}"),
        },
        Ty::Fsb(n) => {
            let mut data = vec![];
            for v in vals {
                match v {
                    Val::Null => data.extend(std::iter::repeat_n(if g { 0xEEu8 } else { 0 }, *n as usize)),
                    v => {
                        assert_eq!(bytes_of(v).len(), *n as usize);
                        data.extend_from_slice(bytes_of(v))
                    }
                }
            }
            Arc::new(FixedSizeBinaryArray::try_new_with_len(*n, Buffer::from(data), mk_nulls(vals, alt), vals.len()).unwrap())
        }
        Ty::Dict(k, v) => build_dict(k, v, vals, g, alt),
        Ty::Ree(r, v) => build_ree(r, v, vals, g, alt),
        Ty::List(k, c) => build_list(*k, c, vals, g, alt),
        Ty::Fsl(n, c) => build_fsl(*n, c, vals, g, alt),
        Ty::Struct(fs) => build_struct(fs, vals, g, alt),
        Ty::Map(k, v) => build_map(k, v, vals, g, alt),
        Ty::Union(dense, cs) => build_union(*dense, cs, vals, g, alt),
    }
}

// -------------------------------------------------------------------------------------------------
// extract: physical array -> logical column (typed accessors only)

trait NatVal {
    fn to_val(self) -> Val;
}
macro_rules! natval_int {
    ($($t:ty),*) => { $(impl NatVal for $t { fn to_val(self) -> Val { Val::I(self as i128) } })* };
}
natval_int!(i8, i16, i32, i64, i128, u8, u16, u32, u64);
impl NatVal for f16 {
    fn to_val(self) -> Val {
        Val::F16(self.to_bits())
    }
}
impl NatVal for f32 {
    fn to_val(self) -> Val {
        Val::F32(self.to_bits())
    }
}
impl NatVal for f64 {
    fn to_val(self) -> Val {
        Val::F64(self.to_bits())
    }
}
impl NatVal for i256 {
    fn to_val(self) -> Val {
        let (lo, hi) = self.to_parts();
        Val::D256(hi, lo)
    }
}
impl NatVal for IntervalDayTime {
    fn to_val(self) -> Val {
        Val::DT(self.days, self.milliseconds)
    }
}
impl NatVal for IntervalMonthDayNano {
    fn to_val(self) -> Val {
        Val::MDN(self.months, self.days, self.nanoseconds)
    }
}

fn ex_prim<T: ArrowPrimitiveType>(a: &PrimitiveArray<T>) -> Vec<Val>
where
    T::Native: NatVal,
{
    (0..a.len()).map(|i| if a.is_null(i) { Val::Null } else { a.value(i).to_val() }).collect()
}

pub fn extract(a: &dyn Array) -> Vec<Val> {
    use DataType::*;
    let n = a.len();
    macro_rules! bytes {
        ($arr:expr) => {{
            let arr = $arr;
            (0..n)
                .map(|i| if arr.is_null(i) { Val::Null } else { Val::B(AsRef::<[u8]>::as_ref(arr.value(i)).to_vec()) })
                .collect()
        }};
    }
    macro_rules! listlike {
        ($arr:expr) => {{
            let arr = $arr;
            (0..n).map(|i| if arr.is_null(i) { Val::Null } else { Val::List(extract(arr.value(i).as_ref())) }).collect()
        }};
    }
    match a.data_type() {
        Null => vec![Val::Null; n],
        Boolean => {
            let b = a.as_boolean();
            (0..n).map(|i| if b.is_null(i) { Val::Null } else { Val::Bool(b.value(i)) }).collect()
        }
        Int8 => ex_prim(a.as_primitive::<Int8Type>()),
        Int16 => ex_prim(a.as_primitive::<Int16Type>()),
        Int32 => ex_prim(a.as_primitive::<Int32Type>()),
        Int64 => ex_prim(a.as_primitive::<Int64Type>()),
        UInt8 => ex_prim(a.as_primitive::<UInt8Type>()),
        UInt16 => ex_prim(a.as_primitive::<UInt16Type>()),
        UInt32 => ex_prim(a.as_primitive::<UInt32Type>()),
        UInt64 => ex_prim(a.as_primitive::<UInt64Type>()),
        Float16 => ex_prim(a.as_primitive::<Float16Type>()),
        Float32 => ex_prim(a.as_primitive::<Float32Type>()),
        Float64 => ex_prim(a.as_primitive::<Float64Type>()),
        Decimal32(_, _) => ex_prim(a.as_primitive::<Decimal32Type>()),
        Decimal64(_, _) => ex_prim(a.as_primitive::<Decimal64Type>()),
        Decimal128(_, _) => ex_prim(a.as_primitive::<Decimal128Type>()),
        Decimal256(_, _) => ex_prim(a.as_primitive::<Decimal256Type>()),
        Date32 => ex_prim(a.as_primitive::<Date32Type>()),
        Date64 => ex_prim(a.as_primitive::<Date64Type>()),
        Time32(TimeUnit::Second) => ex_prim(a.as_primitive::<Time32SecondType>()),
        Time32(TimeUnit::Millisecond) => ex_prim(a.as_primitive::<Time32MillisecondType>()),
        Time64(TimeUnit::Microsecond) => ex_prim(a.as_primitive::<Time64MicrosecondType>()),
        Time64(TimeUnit::Nanosecond) => ex_prim(a.as_primitive::<Time64NanosecondType>()),
        Timestamp(TimeUnit::Second, _) => ex_prim(a.as_primitive::<TimestampSecondType>()),
        Timestamp(TimeUnit::Millisecond, _) => ex_prim(a.as_primitive::<TimestampMillisecondType>()),
        Timestamp(TimeUnit::Microsecond, _) => ex_prim(a.as_primitive::<TimestampMicrosecondType>()),
        Timestamp(TimeUnit::Nanosecond, _) => ex_prim(a.as_primitive::<TimestampNanosecondType>()),
        Duration(TimeUnit::Second) => ex_prim(a.as_primitive::<DurationSecondType>()),
        Duration(TimeUnit::Millisecond) => ex_prim(a.as_primitive::<DurationMillisecondType>()),
        Duration(TimeUnit::Microsecond) => ex_prim(a.as_primitive::<DurationMicrosecondType>()),
        Duration(TimeUnit::Nanosecond) => ex_prim(a.as_primitive::<DurationNanosecondType>()),
        Interval(IntervalUnit::YearMonth) => ex_prim(a.as_primitive::<IntervalYearMonthType>()),
        Interval(IntervalUnit::DayTime) => ex_prim(a.as_primitive::<IntervalDayTimeType>()),
        Interval(IntervalUnit::MonthDayNano) => ex_prim(a.as_primitive::<IntervalMonthDayNanoType>()),
        Utf8 => bytes!(a.as_string::<i32>()),
        LargeUtf8 => bytes!(a.as_string::<i64>()),
        Binary => bytes!(a.as_binary::<i32>()),
        LargeBinary => bytes!(a.as_binary::<i64>()),
        Utf8View => bytes!(a.as_string_view()),
        BinaryView => bytes!(a.as_binary_view()),
        FixedSizeBinary(_) => bytes!(a.as_fixed_size_binary()),
        Dictionary(_, _) => {
            let d = a.as_any_dictionary();
            let vals = extract(d.values().as_ref());
            let keys = extract(d.keys());
            keys.iter()
                .map(|k| match k {
                    Val::Null => Val::Null,
                    Val::I(k) => vals[*k as usize].clone(),
                    _ => unreachable!(),
                })
                .collect()
        }
        RunEndEncoded(_, _) => {
            macro_rules! ree {
                ($R:ty) => {{
                    let r = a.as_any().downcast_ref::<RunArray<$R>>().unwrap();
                    let vals = extract(r.values().as_ref());
                    let ends = r.run_ends().values();
                    let off = r.run_ends().offset();
                    (0..n)
                        .map(|i| {
                            let p = ends.iter().position(|e| (*e as usize) > off + i).expect("run ends cover the logical range");
                            vals[p].clone()
                        })
                        .collect()
                }};
            }
            match a.data_type() {
                RunEndEncoded(f, _) => match f.data_type() {
                    Int16 => ree!(Int16Type),
                    Int32 => ree!(Int32Type),
                    Int64 => ree!(Int64Type),
                    _ => unreachable!(),
                },
                _ => unreachable!(),
            }
        }
        List(_) => listlike!(a.as_list::<i32>()),
        LargeList(_) => listlike!(a.as_list::<i64>()),
        ListView(_) => listlike!(a.as_list_view::<i32>()),
        LargeListView(_) => listlike!(a.as_list_view::<i64>()),
        FixedSizeList(_, _) => listlike!(a.as_fixed_size_list()),
        Struct(_) => {
            let s = a.as_struct();
            let cols: Vec<Vec<Val>> = s.columns().iter().map(|c| extract(c.as_ref())).collect();
            (0..n).map(|i| if s.is_null(i) { Val::Null } else { Val::Struct(cols.iter().map(|c| c[i].clone()).collect()) }).collect()
        }
        Map(_, _) => {
            let m = a.as_map();
            (0..n).map(|i| if m.is_null(i) { Val::Null } else { Val::List(extract(&m.value(i))) }).collect()
        }
        Union(_, _) => {
            let u = a.as_union();
            (0..n)
                .map(|i| {
                    let t = u.type_id(i);
                    let v = u.value(i);
                    Val::Union(t, Box::new(extract(v.as_ref()).pop().unwrap()))
                })
                .collect()
        }
        other => panic!("extract: unsupported {other}"),
    }
}

/// `a.to_data().validate_full()` as a Result<(), String>
pub fn validate(a: &dyn Array) -> Result<(), String> {
    a.to_data().validate_full().map_err(|e| e.to_string())
}

// -------------------------------------------------------------------------------------------------
// JSON form of values (replay files)

pub fn val_to_json(v: &Val) -> vcore::serde_json::Value {
    use vcore::serde_json::json;
    match v {
        Val::Null => vcore::serde_json::Value::Null,
        Val::Bool(b) => json!(b),
        Val::I(i) => json!({"i": i.to_string()}),
        Val::D256(h, l) => json!({"d": [h.to_string(), l.to_string()]}),
        Val::F16(b) => json!({"f16": b}),
        Val::F32(b) => json!({"f32": b}),
        Val::F64(b) => json!({"f64": b.to_string()}),
        Val::DT(d, m) => json!({"dt": [d, m]}),
        Val::MDN(m, d, n) => json!({"mdn": [m, d, n.to_string()]}),
        Val::B(b) => json!({"b": b.iter().map(|x| format!("{x:02x}")).collect::<String>()}),
        Val::List(x) => json!({"l": x.iter().map(val_to_json).collect::<Vec<_>>()}),
        Val::Struct(x) => json!({"s": x.iter().map(val_to_json).collect::<Vec<_>>()}),
        Val::Union(t, x) => json!({"u": [t, val_to_json(x)]}),
    }
}
pub fn val_from_json(j: &vcore::serde_json::Value) -> Val {
    use vcore::serde_json::Value as J;
    match j {
        J::Null => Val::Null,
        J::Bool(b) => Val::Bool(*b),
        J::Object(o) => {
            let (k, v) = o.iter().next().expect("value object");
            let s = |x: &J| x.as_str().unwrap().to_string();
            match k.as_str() {
                "i" => Val::I(s(v).parse().unwrap()),
                "d" => Val::D256(s(&v[0]).parse().unwrap(), s(&v[1]).parse().unwrap()),
                "f16" => Val::F16(v.as_u64().unwrap() as u16),
                "f32" => Val::F32(v.as_u64().unwrap() as u32),
                "f64" => Val::F64(s(v).parse().unwrap()),
                "dt" => Val::DT(v[0].as_i64().unwrap() as i32, v[1].as_i64().unwrap() as i32),
                "mdn" => Val::MDN(v[0].as_i64().unwrap() as i32, v[1].as_i64().unwrap() as i32, s(&v[2]).parse().unwrap()),
                "b" => {
                    let h = s(v);
                    Val::B((0..h.len() / 2).map(|i| u8::from_str_radix(&h[2 * i..2 * i + 2], 16).unwrap()).collect())
                }
                "l" => Val::List(v.as_array().unwrap().iter().map(val_from_json).collect()),
                "s" => Val::Struct(v.as_array().unwrap().iter().map(val_from_json).collect()),
                "u" => Val::Union(v[0].as_i64().unwrap() as i8, Box::new(val_from_json(&v[1]))),
                other => panic!("bad value key {other}"),
            }
        }
        other => panic!("bad value json {other}"),
    }
}
pub fn col_to_json(c: &[Val]) -> vcore::serde_json::Value {
    vcore::serde_json::Value::Array(c.iter().map(val_to_json).collect())
}
pub fn col_from_json(j: &vcore::serde_json::Value) -> Vec<Val> {
    j.as_array().map(|a| a.iter().map(val_from_json).collect()).unwrap_or_default()
}
