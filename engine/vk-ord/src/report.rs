//! Violation reporting helper shared by the C10 and C11 engines.
use vcore::Stats;
use vcore::serde_json::Value;

pub struct Rp<'a> {
    pub st: &'a mut Stats,
    pub order: u64,
    /// "c10" / "c11"
    pub prop: &'static str,
    /// type class (fingerprints are class-level)
    pub kind: &'static str,
    pub case: &'a dyn Fn() -> Value,
    pub verbose: bool,
}
/// call-site fingerprint of a panic: in-repo file (path after the last "/repo/", so that scratch copies
/// of the repository give the same fingerprint) + message with digits stripped
pub fn panic_fp(p: &vcore::PanicInfo) -> String {
    let f = match p.file.rfind("/repo/") {
        Some(i) => &p.file[i + 6..],
        None => p.file.as_str(),
    };
    format!("panic@{}:{}", f, vcore::strip_digits(&p.msg))
}

impl Rp<'_> {
    pub fn raw(&mut self, fp: String, msg: String) {
        if self.verbose {
            println!("  MISMATCH [{fp}] {msg}");
        }
        let case = self.case;
        self.st.violate(self.order, fp, msg, case);
    }
    pub fn fail(&mut self, api: &str, check: &str, msg: String) {
        self.raw(format!("{}:{api}:{check}:{}", self.prop, self.kind), msg);
    }
    pub fn wf(&mut self, api: &str, msg: String) {
        self.raw(format!("wf:{}:{api}:{}", self.prop, self.kind), msg);
    }
    pub fn panic(&mut self, api: &str, p: &vcore::PanicInfo, ctx: String) {
        self.raw(format!("{}:{api}:{}:{}", self.prop, panic_fp(p), self.kind), format!("{api} panicked: {} at {}:{} ({ctx})", p.msg, p.file, p.line));
    }
}
