//! Enumeration helpers: column spaces (all sequences up to a length over alphabet prefixes) and the
//! type grid.
use crate::model::{LK, Ty};
use arrow_schema::{DataType, IntervalUnit, TimeUnit};
use std::sync::Arc;

/// All sequences of length n (0..letters_for_len.len()) over the first `letters_for_len[n]` letters.
#[derive(Clone, Debug)]
pub struct ColSpace {
    pub letters_for_len: Vec<usize>,
}
impl ColSpace {
    /// `spaces`: (letters, maxlen) pairs; for every length the largest alphabet prefix that admits it
    pub fn new(alpha_len: usize, spaces: &[(usize, usize)]) -> ColSpace {
        let maxlen = spaces.iter().map(|s| s.1).max().unwrap_or(0);
        let letters_for_len = (0..=maxlen).map(|n| spaces.iter().filter(|s| s.1 >= n).map(|s| s.0.min(alpha_len)).max().unwrap_or(0)).collect();
        ColSpace { letters_for_len }
    }
    pub fn count_len(&self, n: usize) -> u64 {
        (self.letters_for_len[n] as u64).pow(n as u32)
    }
    pub fn count(&self) -> u64 {
        (0..self.letters_for_len.len()).map(|n| self.count_len(n)).sum()
    }
    pub fn decode(&self, mut i: u64) -> Vec<u8> {
        for n in 0..self.letters_for_len.len() {
            let c = self.count_len(n);
            if i < c {
                let k = self.letters_for_len[n] as u64;
                let mut v = Vec::with_capacity(n);
                for _ in 0..n {
                    v.push((i % k) as u8);
                    i /= k;
                }
                return v;
            }
            i -= c;
        }
        panic!("ColSpace::decode out of range")
    }
    pub fn describe(&self) -> String {
        self.letters_for_len.iter().enumerate().map(|(n, k)| format!("len{n}:{k}^{n}")).collect::<Vec<_>>().join(" ")
    }
}

pub fn p(d: DataType) -> Ty {
    Ty::Prim(d)
}
pub fn by(d: DataType) -> Ty {
    Ty::Bytes(d)
}
pub fn dict(k: DataType, v: Ty) -> Ty {
    Ty::Dict(k, Box::new(v))
}
pub fn ree(r: DataType, v: Ty) -> Ty {
    Ty::Ree(r, Box::new(v))
}
pub fn list(k: LK, c: Ty) -> Ty {
    Ty::List(k, Box::new(c))
}
pub fn fsl(n: i32, c: Ty) -> Ty {
    Ty::Fsl(n, Box::new(c))
}
pub fn ts(u: TimeUnit, tz: Option<&str>) -> Ty {
    Ty::Prim(DataType::Timestamp(u, tz.map(Arc::from)))
}

/// leaf (non-nested, non-encoded) types
pub fn leaf_types(thorough: bool) -> Vec<Ty> {
    use DataType::*;
    let mut v = vec![
        Ty::Bool,
        p(Int8),
        p(Int32),
        p(Int64),
        p(UInt8),
        p(UInt64),
        p(Float16),
        p(Float32),
        p(Float64),
        p(Decimal32(5, 2)),
        p(Decimal64(12, 3)),
        p(Decimal128(10, -1)),
        p(Decimal256(40, 3)),
        p(Date32),
        p(Date64),
        p(Time32(TimeUnit::Second)),
        p(Time64(TimeUnit::Nanosecond)),
        ts(TimeUnit::Second, None),
        ts(TimeUnit::Nanosecond, Some("+05:30")),
        p(Duration(TimeUnit::Millisecond)),
        p(Interval(IntervalUnit::YearMonth)),
        p(Interval(IntervalUnit::DayTime)),
        p(Interval(IntervalUnit::MonthDayNano)),
        by(Utf8),
        by(LargeUtf8),
        by(Utf8View),
        by(Binary),
        by(LargeBinary),
        by(BinaryView),
        Ty::Fsb(3),
        Ty::Fsb(0),
        Ty::Null,
    ];
    if thorough {
        v.extend([
            p(Int16),
            p(UInt16),
            p(UInt32),
            p(Time32(TimeUnit::Millisecond)),
            p(Time64(TimeUnit::Microsecond)),
            ts(TimeUnit::Millisecond, Some("UTC")),
            ts(TimeUnit::Microsecond, Some("America/New_York")),
            p(Duration(TimeUnit::Second)),
            p(Duration(TimeUnit::Microsecond)),
            p(Duration(TimeUnit::Nanosecond)),
            p(Decimal128(38, 10)),
            p(Decimal256(76, 0)),
            Ty::Fsb(1),
            Ty::Fsb(16),
        ]);
    }
    v
}

/// dictionary / run-end / nested types
pub fn composite_types(thorough: bool) -> Vec<Ty> {
    use DataType::*;
    let s_ab = Ty::Struct(vec![p(Int32), by(Utf8)]);
    let mut v = vec![
        dict(Int8, by(Utf8)),
        dict(UInt16, p(Int32)),
        dict(Int32, by(Utf8View)),
        dict(UInt64, p(Float64)),
        dict(Int16, Ty::Bool),
        dict(UInt8, by(Binary)),
        dict(Int64, Ty::Fsb(3)),
        dict(UInt32, p(Decimal128(10, -1))),
        dict(Int8, list(LK::List, p(Int32))),
        ree(Int16, p(Int32)),
        ree(Int32, by(Utf8)),
        ree(Int64, Ty::Bool),
        ree(Int32, p(Float64)),
        ree(Int32, dict(Int8, by(Utf8))),
        ree(Int16, by(Utf8View)),
        list(LK::List, p(Int32)),
        list(LK::LargeList, by(Utf8)),
        list(LK::ListView, p(Int32)),
        list(LK::LargeListView, by(Utf8View)),
        list(LK::List, p(Float32)),
        list(LK::List, Ty::Bool),
        fsl(2, p(Int32)),
        fsl(0, p(Int32)),
        fsl(1, by(Utf8)),
        s_ab.clone(),
        Ty::Struct(vec![]),
        Ty::Map(Box::new(by(Utf8)), Box::new(p(Int32))),
        list(LK::List, list(LK::List, p(Int32))),
        list(LK::List, Ty::Struct(vec![p(Int32)])),
        Ty::Struct(vec![list(LK::List, by(Utf8))]),
        Ty::Union(true, vec![(0, p(Int32)), (5, by(Utf8))]),
        Ty::Union(false, vec![(0, p(Int32)), (5, by(Utf8))]),
    ];
    if thorough {
        v.extend([
            dict(Int16, p(Float32)),
            dict(UInt32, by(LargeUtf8)),
            dict(Int64, by(BinaryView)),
            dict(UInt8, p(Interval(IntervalUnit::DayTime))),
            dict(Int32, s_ab.clone()),
            ree(Int64, p(Decimal256(40, 3))),
            ree(Int16, Ty::Fsb(3)),
            ree(Int32, list(LK::List, p(Int32))),
            list(LK::LargeList, p(Float64)),
            list(LK::ListView, by(Utf8)),
            list(LK::List, dict(Int8, by(Utf8))),
            list(LK::List, p(Decimal128(10, -1))),
            fsl(3, p(Float32)),
            fsl(2, Ty::Bool),
            Ty::Struct(vec![p(Float32), Ty::Bool, by(BinaryView)]),
            Ty::Struct(vec![s_ab.clone(), p(Int8)]),
            Ty::Struct(vec![dict(Int8, by(Utf8)), ree(Int32, p(Int32))]),
            Ty::Map(Box::new(p(Int32)), Box::new(by(Utf8))),
            list(LK::List, list(LK::List, list(LK::List, p(Int8)))),
            Ty::Union(true, vec![(1, p(Float64))]),
            Ty::Union(false, vec![(0, p(Int32)), (1, by(Utf8)), (7, Ty::Bool)]),
        ]);
    }
    v
}

/// type class used in fingerprints (one defect in one code path = one fingerprint)
pub fn kind_of(ty: &Ty) -> &'static str {
    use DataType::*;
    match ty {
        Ty::Null => "null",
        Ty::Bool => "bool",
        Ty::Prim(d) => match d {
            Float16 => "f16",
            Float32 | Float64 => "float",
            Decimal32(..) | Decimal64(..) | Decimal128(..) => "decimal",
            Decimal256(..) => "decimal256",
            Interval(IntervalUnit::DayTime) | Interval(IntervalUnit::MonthDayNano) => "interval",
            UInt8 | UInt16 | UInt32 | UInt64 => "uint",
            _ => "int",
        },
        Ty::Bytes(d) => match d {
            Utf8View | BinaryView => "view",
            _ => "bytes",
        },
        Ty::Fsb(_) => "fsb",
        Ty::Dict(..) => "dict",
        Ty::Ree(..) => "ree",
        Ty::List(LK::List | LK::LargeList, _) => "list",
        Ty::List(..) => "listview",
        Ty::Fsl(..) => "fsl",
        Ty::Struct(_) => "struct",
        Ty::Map(..) => "map",
        Ty::Union(..) => "union",
    }
}
