//! Standalone reproduction: copy into a bin crate depending on /repo/parquet (feature "arrow"),
//! arrow-array, arrow-schema and bytes; or run `vk-pqread REPRO-push-no-offset-index`.
//!
//! A file written with `set_offset_index_disabled(true)` still carries a column index. When the
//! metadata is loaded with `PageIndexPolicy::Optional`, the push decoder (and therefore the async
//! stream) fails with "Invalid column index 0, column was not fetched" as soon as a RowSelection is
//! given, while the synchronous reader returns the selected rows.
use arrow_array::{Int32Array, RecordBatch};
use arrow_schema::{DataType, Field, Schema};
use bytes::Bytes;
use parquet::DecodeResult;
use parquet::arrow::ArrowWriter;
use parquet::arrow::arrow_reader::{ArrowReaderMetadata, ArrowReaderOptions, ParquetRecordBatchReaderBuilder, RowSelection, RowSelector};
use parquet::arrow::push_decoder::ParquetPushDecoderBuilder;
use parquet::file::metadata::PageIndexPolicy;
use parquet::file::properties::WriterProperties;
use std::sync::Arc;

pub fn main() {
    let schema = Arc::new(Schema::new(vec![Field::new("a", DataType::Int32, false)]));
    let batch = RecordBatch::try_new(schema.clone(), vec![Arc::new(Int32Array::from((0..8).collect::<Vec<i32>>()))]).unwrap();
    let props = WriterProperties::builder().set_offset_index_disabled(true).build();
    let mut buf = vec![];
    let mut w = ArrowWriter::try_new(&mut buf, schema, Some(props)).unwrap();
    w.write(&batch).unwrap();
    w.close().unwrap();
    let file = Bytes::from(buf);

    let meta = ArrowReaderMetadata::load(&file, ArrowReaderOptions::new().with_page_index_policy(PageIndexPolicy::Optional)).unwrap();
    println!(
        "column index loaded: {}, offset index loaded: {}",
        meta.metadata().page_index().is_some_and(|p| p.column_index(0, 0).is_some()),
        meta.metadata().page_index().is_some_and(|p| p.offset_index(0, 0).is_some())
    );
    let selection = || RowSelection::from(vec![RowSelector::skip(2), RowSelector::select(2), RowSelector::skip(4)]);

    let sync_rows: usize = ParquetRecordBatchReaderBuilder::new_with_metadata(file.clone(), meta.clone())
        .with_row_selection(selection())
        .build()
        .unwrap()
        .map(|b| b.unwrap().num_rows())
        .sum();
    println!("sync reader: {sync_rows} rows");

    let mut dec = ParquetPushDecoderBuilder::new_with_metadata(meta).with_row_selection(selection()).build().unwrap();
    loop {
        match dec.try_decode() {
            Ok(DecodeResult::NeedsData(ranges)) => {
                let data = ranges.iter().map(|r| file.slice(r.start as usize..r.end as usize)).collect();
                dec.push_ranges(ranges, data).unwrap();
            }
            Ok(DecodeResult::Data(b)) => println!("push decoder: batch of {} rows", b.num_rows()),
            Ok(DecodeResult::Finished) => break,
            Err(e) => {
                println!("push decoder: ERROR {e}");
                break;
            }
        }
    }
}
