//! C06 — Parquet pushdown returns exactly what filtering a full read would; RowSelection set algebra.
//!
//! front ends: the same reference oracle is applied to the push decoder and the async stream (cooperative
//! I/O) for every configuration within 1 deviation x the full selection x offset x limit core.
//! reader sub-engine: files (schemas x layouts) x option configurations (<= 2 deviations from the
//! default in the non-core dimensions) x core (selection x offset x limit, complete per core class);
//! oracle = reference pipeline on Vec<row> from an unrestricted read.
//! algebra sub-engine: all pairs of selections over total length <= 6 in every presentation.
use crate::files::*;
use crate::opts::*;
use arrow_array::BooleanArray;
use arrow_array::RecordBatchReader;
use arrow_buffer::BooleanBuffer;
use parquet::arrow::arrow_reader::{ArrowReaderOptions, ParquetRecordBatchReaderBuilder, RowSelection, RowSelector};
use parquet::file::metadata::PageIndexPolicy;
use parquet::file::page_index::offset_index::PageLocation;
use std::collections::BTreeMap;
use vcore::serde_json::{Value, json};
use vcore::{Ctx, Level, Stats, catch, par_for};

// ------------------------------------------------------------------------------------------------
// one read against the reference

#[derive(Debug)]
pub struct ReadOutcome {
    pub out_rows: usize,
    pub batches: usize,
}

/// Runs the sync reader with `o` and compares against the reference. Err((fingerprint, message)).
pub fn check_read(fc: &FileCtx, o: &Opts, fresh_metadata: bool) -> Result<ReadOutcome, (String, String)> {
    let (exp_rows, exp_schema, bs) = fc.reference(o);
    let r = catch(|| -> Result<ReadOutcome, (String, String)> {
        // one fingerprint per library error message (whether it surfaces from build() or next() is immaterial)
        let err = |what: &str, e: String| {
            let core = e.rsplit("Parquet error: ").next().unwrap_or(&e).to_string();
            (format!("c06:reader:error:{}", vcore::strip_digits(&core)), format!("{what}: {e}"))
        };
        let b = if fresh_metadata {
            let ro = ArrowReaderOptions::new().with_page_index_policy(if o.page_index { PageIndexPolicy::Optional } else { PageIndexPolicy::Skip });
            ParquetRecordBatchReaderBuilder::try_new_with_options(fc.f.bytes.clone(), ro).map_err(|e| err("open", e.to_string()))?
        } else {
            ParquetRecordBatchReaderBuilder::new_with_metadata(fc.f.bytes.clone(), fc.meta(o).clone())
        };
        let reader = fc.apply(b, o).build().map_err(|e| err("build", e.to_string()))?;
        let rschema = reader.schema();
        if !same_schema(&rschema, &exp_schema) {
            return Err(("c06:reader:schema".into(), format!("reader schema {rschema:?} != projected schema {exp_schema:?}")));
        }
        let mut got: Vec<Vec<V>> = vec![];
        let mut batches = 0;
        for b in reader {
            let b = b.map_err(|e| err("next", e.to_string()))?;
            batches += 1;
            if let Err(e) = validate_batch(&b) {
                return Err(("wf:c06:reader:batch".into(), e));
            }
            if b.num_rows() > bs {
                return Err(("c06:reader:batch-too-long".into(), format!("batch of {} rows with batch size {}", b.num_rows(), bs)));
            }
            if b.num_rows() == 0 {
                return Err(("c06:reader:empty-batch".into(), format!("batch #{batches} is empty")));
            }
            if !same_schema(&b.schema(), &exp_schema) {
                return Err(("c06:reader:schema".into(), format!("batch schema {:?} != projected schema {exp_schema:?}", b.schema())));
            }
            if b.num_columns() == 0 {
                got.extend(std::iter::repeat_n(vec![], b.num_rows()));
            } else {
                got.extend(batch_rows(&b));
            }
        }
        if got != exp_rows {
            let kind = {
                let mut a = got.iter().map(|r| format!("{r:?}")).collect::<Vec<_>>();
                let mut b = exp_rows.iter().map(|r| format!("{r:?}")).collect::<Vec<_>>();
                a.sort();
                b.sort();
                if a == b {
                    "reordered"
                } else if got.len() < exp_rows.len() {
                    "missing-rows"
                } else if got.len() > exp_rows.len() {
                    "extra-rows"
                } else {
                    "wrong-rows"
                }
            };
            return Err((format!("c06:reader:rows-differ:{kind}"), format!("got {} rows {:?}; expected {} rows {:?}", got.len(), got, exp_rows.len(), exp_rows)));
        }
        Ok(ReadOutcome { out_rows: got.len(), batches })
    });
    match r {
        Ok(x) => x,
        Err(p) => Err((format!("c06:reader:{}", p.fingerprint()), format!("{p:?}"))),
    }
}

// ------------------------------------------------------------------------------------------------
// core enumeration

#[derive(Clone, Copy, Debug, PartialEq, Eq)]
pub enum Core {
    Full,
    Medium,
    Small,
}

fn dedup(mut v: Vec<Option<usize>>) -> Vec<Option<usize>> {
    let mut out = vec![];
    for x in v.drain(..) {
        if !out.contains(&x) {
            out.push(x);
        }
    }
    out
}

/// selections enumerated for `t` chosen rows: index 0 = no selection given, then bit patterns
fn n_selections(core: Core, t: usize) -> u64 {
    match core {
        Core::Full | Core::Medium => 1 + (1u64 << t),
        Core::Small => 1 + small_patterns(t).len() as u64,
    }
}

fn small_patterns(t: usize) -> Vec<Vec<bool>> {
    let fs: Vec<Box<dyn Fn(usize) -> bool>> = vec![
        Box::new(|_| true),
        Box::new(|_| false),
        Box::new(|i| i % 2 == 0),
        Box::new(|i| i % 2 == 1),
        Box::new(move |i| i < t / 2),
        Box::new(move |i| i >= t / 2),
        Box::new(|i| i == 0),
        Box::new(move |i| i + 1 == t),
        Box::new(|i| i % 3 == 1),
        Box::new(|i| (i / 2) % 2 == 0),
        Box::new(|i| (i * 7 + 3) % 5 < 2),
        Box::new(move |i| i != 0 && i + 1 != t),
    ];
    let mut out: Vec<Vec<bool>> = vec![];
    for f in fs {
        let p: Vec<bool> = (0..t).map(|i| f(i)).collect();
        if !out.contains(&p) {
            out.push(p);
        }
    }
    out
}

fn selection_bits(core: Core, t: usize, k: u64) -> Option<Vec<bool>> {
    if k == 0 {
        return None;
    }
    Some(match core {
        Core::Full | Core::Medium => (0..t).map(|i| (k - 1) >> i & 1 == 1).collect(),
        Core::Small => small_patterns(t)[(k - 1) as usize].clone(),
    })
}

/// (presentations, offsets, limits) for a core class, selection ordinal k
fn core_menus(core: Core, t: usize, k: u64) -> (Vec<u8>, Vec<(Option<usize>, Option<usize>)>) {
    match core {
        Core::Full => {
            let offs = dedup(vec![None, Some(0), Some(1), Some(3), Some(t), Some(t + 1)]);
            let lims = dedup(vec![None, Some(0), Some(1), Some(3), Some(t)]);
            let mut ol = vec![];
            for o in &offs {
                for l in &lims {
                    ol.push((*o, *l));
                }
            }
            (vec![PRES_MIN, PRES_TRIM, PRES_MASK, PRES_MASK_OFF, PRES_SPLIT], ol)
        }
        Core::Medium => {
            let mut ol = vec![];
            for o in [None, Some(1), Some(3)] {
                for l in [None, Some(1), Some(3)] {
                    ol.push((o, l));
                }
            }
            (vec![(k % 4) as u8], ol)
        }
        Core::Small => (vec![PRES_MIN, PRES_MASK_OFF], vec![(None, None), (Some(1), None), (None, Some(2)), (Some(2), Some(3))]),
    }
}

struct Block {
    /// true: push decoder + async stream (cooperative I/O) against the reference; false: sync reader
    front: bool,
    file: usize,
    opts: Opts,
    ndev: usize,
    core: Core,
    t: usize,
    start: u64,
    n: u64,
}

fn is_core_dim_cfg(o: &Opts) -> bool {
    // single deviations that interact most with the selection machinery get the full core in quick
    o.page_index || o.policy == 1 || o.policy == 2
}

pub fn build_files(n: usize, sids: &[usize], st: &mut Stats) -> Vec<FileCtx> {
    let mut v = vec![];
    for &sid in sids {
        for lid in 0..LAYOUTS.len() {
            let f = make_file(sid, lid, n);
            let name = f.name.clone();
            let written = f.written.clone();
            match FileCtx::new(f) {
                Ok(fc) => {
                    if fc.full != written {
                        st.violate(0, "c06:unrestricted-read-differs-from-written", format!("{name}: got {:?} wrote {:?}", fc.full, written), || json!({"sub": "file", "file": name}));
                    }
                    v.push(fc);
                }
                Err(e) => {
                    st.violate(0, "c06:unrestricted-read-failed", format!("{name}: {e}"), || json!({"sub": "file", "file": name}));
                }
            }
        }
    }
    v
}

fn front_case_json(fc: &FileCtx, o: &Opts, front: &str, k: u64) -> Value {
    json!({"sub": "front-end", "front_end": front, "variant": k, "file": file_json(&fc.f), "opts": opts_json(o)})
}

/// The reference-model oracle applied to the push decoder (cooperative environment: exactly the requested
/// ranges are pushed) or the async stream (always-ready reader, metadata supplied up front). The C15 drivers are
/// reused with an empty deviation script; `variant` rotates the API (try_decode / try_next_reader; poll_next /
/// next_row_group x per-range / vectored fetch). Fingerprints are per front end: `c06:push:...`, `c06:async:...`.
pub fn check_front(fc: &FileCtx, o: &Opts, front: &str, variant: u64, exp_rows: &Vec<Vec<V>>) -> Result<(), (String, String)> {
    let r = catch(|| -> Result<(), (String, String)> {
        if front == "push" {
            let api = if variant % 2 == 0 { crate::c15::Api::Decode } else { crate::c15::Api::Reader };
            crate::c15::run_push(fc, o, api, &[], exp_rows, false).map(|_| ())
        } else {
            let mode = crate::c15::AsyncMode { vectored: variant % 2 == 1, metadata_up_front: true, row_group_api: (variant / 2) % 2 == 1, spurious_poll: false };
            crate::c15::run_async(fc, o, mode, &[], exp_rows).map(|_| ())
        }
    });
    let map_fp = |fp: String| -> String {
        // c15:error:<msg> -> c06:<front>:error:<msg>; c15:push:<x> / c15:async:<x> -> c06:push:<x> / c06:async:<x>
        let fp = fp.replace("rows-differ-from-sync", "rows-differ");
        if let Some(rest) = fp.strip_prefix("c15:error:") {
            // one class per library message: drop wrappers such as "Arrow: Parquet argument error: "
            match rest.rfind("Parquet error: ") {
                Some(i) => format!("c06:{front}:error:{}", &rest[i..]),
                None => format!("c06:{front}:error:{rest}"),
            }
        } else if let Some(rest) = fp.strip_prefix("c15:push:") {
            format!("c06:push:{rest}")
        } else if let Some(rest) = fp.strip_prefix("c15:async:") {
            format!("c06:async:{rest}")
        } else if let Some(rest) = fp.strip_prefix("wf:c15:") {
            format!("wf:c06:{rest}")
        } else {
            format!("c06:{front}:{fp}")
        }
    };
    match r {
        Ok(Ok(())) => Ok(()),
        Ok(Err((fp, msg))) => Err((map_fp(fp), msg.replace("sync reader", "reference model"))),
        Err(p) => Err((format!("c06:{front}:{}", p.fingerprint()), format!("{p:?}"))),
    }
}

fn case_json(fc: &FileCtx, o: &Opts) -> Value {
    json!({"sub": "reader", "file": file_json(&fc.f), "opts": opts_json(o)})
}

fn run_reader(ctx: &Ctx, st: &mut Stats) {
    let n = ctx.pick(8, 10);
    let sids: Vec<usize> = (0..6).collect();
    let files = build_files(n, &sids, st);
    let mut blocks: Vec<Block> = vec![];
    let mut cfg_count = BTreeMap::new();
    // blocks are ordered by deviation count (then file) so that a time cap cuts the 2-deviation tail first
    let mut all_cfgs: Vec<(usize, Opts, usize)> = vec![];
    for (fi, fc) in files.iter().enumerate() {
        for (o, ndev) in configs(fc, 2) {
            all_cfgs.push((fi, o, ndev));
        }
    }
    all_cfgs.sort_by_key(|c| c.2);
    let mut total = 0u64;
    {
        for (fi, o, ndev) in all_cfgs {
            let fc = &files[fi];
            let core = match (ndev, ctx.quick()) {
                (0, _) => Core::Full,
                (1, true) => {
                    if is_core_dim_cfg(&o) {
                        Core::Full
                    } else {
                        Core::Medium
                    }
                }
                (1, false) => Core::Full,
                (_, true) => Core::Small,
                (_, false) => Core::Medium,
            };
            let t = fc.chosen_rows(&o);
            let nsel = n_selections(core, t);
            *cfg_count.entry(format!("{ndev}-deviation configs")).or_insert(0u64) += 1;
            blocks.push(Block { front: false, file: fi, opts: o, ndev, core, t, start: 0, n: nsel });
        }
    }
    // push decoder / async stream: every configuration within 1 deviation x every selection x offset x limit
    let fronts: Vec<Block> = blocks
        .iter()
        .filter(|b| b.ndev <= 1)
        .map(|b| Block { front: true, file: b.file, opts: b.opts.clone(), ndev: b.ndev, core: Core::Full, t: b.t, start: 0, n: n_selections(Core::Full, b.t) })
        .collect();
    // order: per configuration with <= 1 deviation its sync block followed by its front-end block (so that a time cap
    // costs all three front ends evenly), then the sync 2-deviation blocks (cut first by a cap)
    let split = blocks.iter().position(|b| b.ndev >= 2).unwrap_or(blocks.len());
    let tail = blocks.split_off(split);
    let head: Vec<Block> = std::mem::take(&mut blocks);
    for (sb, fb) in head.into_iter().zip(fronts) {
        blocks.push(sb);
        blocks.push(fb);
    }
    blocks.extend(tail);
    for b in blocks.iter_mut() {
        b.start = total;
        total += b.n;
    }
    let starts: Vec<u64> = blocks.iter().map(|b| b.start).collect();
    let res = par_for(ctx, "reader", total, 8, |idx, st| {
        let bi = match starts.binary_search(&idx) {
            Ok(i) => i,
            Err(i) => i - 1,
        };
        let b = &blocks[bi];
        let k = idx - b.start;
        let fc = &files[b.file];
        let bits = selection_bits(b.core, b.t, k);
        let (pres, ol) = core_menus(b.core, b.t, k);
        let pres: Vec<u8> = if bits.is_none() { vec![PRES_MIN] } else { pres };
        if b.front {
            // all 5 presentations at 0 deviations, one rotating presentation otherwise
            let pres: Vec<u8> = if b.ndev == 0 || bits.is_none() { pres } else { vec![pres[(k % 5) as usize]] };
            for &p in &pres {
                for &(off, lim) in &ol {
                    let mut o = b.opts.clone();
                    o.sel = bits.as_ref().map(|bits| SelSpec { bits: bits.clone(), pres: p });
                    o.offset = off;
                    o.limit = lim;
                    let (exp_rows, _, _) = fc.reference(&o);
                    let nontrivial = (!exp_rows.is_empty() && exp_rows.len() < fc.f.nrows) as u64;
                    for front in ["push", "async"] {
                        let sub = if front == "push" { "push-decoder-full-core" } else { "async-stream-full-core" };
                        st.add(sub, 1, nontrivial);
                        match check_front(fc, &o, front, k, &exp_rows) {
                            Ok(()) => st.outcome(&format!("{front}/{}", if exp_rows.is_empty() { "no-rows" } else if exp_rows.len() == fc.f.nrows { "all-rows" } else { "some-rows" })),
                            Err((fp, msg)) => {
                                st.outcome("violation");
                                st.violate(idx, fp, format!("{} {} [{front}]: {}", fc.f.name, opts_json(&o), msg), || front_case_json(fc, &o, front, k));
                            }
                        }
                    }
                }
            }
            st.count(&format!("front-end blocks with {} deviations", b.ndev), (k == 0) as u64);
            if k == b.n / 2 && b.ndev == 0 && b.file == 0 {
                let mut o = b.opts.clone();
                o.sel = bits.as_ref().map(|bits| SelSpec { bits: bits.clone(), pres: pres[0] });
                st.sample("push-decoder-full-core", || front_case_json(fc, &o, "push", k));
            }
            return;
        }
        let sub = match b.core {
            Core::Full => "reader-full-core",
            Core::Medium => "reader-medium-core",
            Core::Small => "reader-small-core",
        };
        for (pi, &p) in pres.iter().enumerate() {
            for (oi, &(off, lim)) in ol.iter().enumerate() {
                let mut o = b.opts.clone();
                o.sel = bits.as_ref().map(|bits| SelSpec { bits: bits.clone(), pres: p });
                o.offset = off;
                o.limit = lim;
                // the metadata-from-file path is exercised on the first read of every block
                let fresh = k == 0 && pi == 0 && oi == 0;
                match check_read(fc, &o, fresh) {
                    Ok(out) => {
                        let nontrivial = out.out_rows > 0 && out.out_rows < fc.f.nrows;
                        st.add(sub, 1, nontrivial as u64);
                        let cls = if out.out_rows == 0 {
                            "no-rows"
                        } else if out.out_rows == fc.f.nrows {
                            "all-rows"
                        } else {
                            "some-rows"
                        };
                        st.outcome(&format!("{cls}/{}", if out.batches > 1 { "multi-batch" } else { "<=1-batch" }));
                    }
                    Err((fp, msg)) => {
                        st.add(sub, 1, 1);
                        st.outcome("violation");
                        st.violate(idx, fp, format!("{} {}: {}", fc.f.name, opts_json(&o), msg), || case_json(fc, &o));
                    }
                }
            }
        }
        st.count(&format!("reader blocks with {} deviations", b.ndev), (k == 0) as u64);
        if k == b.n / 2 && (bi == 0 || bi == blocks.len() - 1) {
            let mut o = b.opts.clone();
            o.sel = bits.as_ref().map(|bits| SelSpec { bits: bits.clone(), pres: pres[0] });
            st.sample(sub, || case_json(fc, &o));
        }
    });
    st.merge(res);
    st.extra.insert(
        "reader_space".into(),
        json!({"files": files.len(), "rows_per_file": n, "schemas": SCHEMA_NAMES, "layouts": LAYOUTS.iter().map(|l| format!("{l:?}")).collect::<Vec<_>>(),
            "configs": cfg_count, "work_items(file x config x selection)": total,
            "front_ends": "push decoder (cooperative: exactly the requested ranges are pushed; try_decode / try_next_reader alternate) and async stream (always-ready reader, metadata up front; poll_next / next_row_group x per-range / vectored alternate) against the same reference: every configuration within 1 deviation x every selection x offset{None,0,1,3,T,T+1} x limit{None,0,1,3,T}; 5 presentations at 0 deviations, one rotating presentation at 1 deviation",
            "core_classes": {"full": "every selection (2^T bit patterns + none) x 5 presentations x offset{None,0,1,3,T,T+1} x limit{None,0,1,3,T}",
                "medium": "every selection x 1 presentation (rotating) x offset{None,1,3} x limit{None,1,3}",
                "small": "12 pattern selections + none x 2 presentations x 4 (offset,limit) pairs"}}),
    );
}

// ------------------------------------------------------------------------------------------------
// type x value-encoding grid: partial-page skips against every value decoder

/// Builds every grid file the writer accepts. Combinations the writer refuses (or silently replaces), and
/// files whose unrestricted read does not reproduce the written data (write/read round trip = C05's subject),
/// are excluded and listed in the evidence, not reported here.
fn build_grid(n: usize, excluded: &mut Vec<String>) -> Vec<FileCtx> {
    let mut v = vec![];
    for ty in 0..GRID_TYPES.len() {
        for enc in grid_encodings(ty) {
            for v2 in [false, true] {
                for nullable in [false, true] {
                    for paged in [true, false] {
                        let spec = GridSpec { ty, enc, v2, nullable, paged };
                        let tag = format!("{}/{}/{}", GRID_TYPES[ty], GRID_ENCS[enc], if v2 { "v2" } else { "v1" });
                        match catch(|| make_grid_file(spec, n)) {
                            Ok(Ok(f)) => {
                                let written = f.written.clone();
                                match catch(|| FileCtx::new(f)) {
                                    Ok(Ok(fc)) if fc.full == written => v.push(fc),
                                    Ok(Ok(_)) => excluded.push(format!("{tag}: unrestricted read differs from the written data")),
                                    Ok(Err(e)) => excluded.push(format!("{tag}: unrestricted read failed: {}", vcore::strip_digits(&e))),
                                    Err(p) => excluded.push(format!("{tag}: unrestricted read panicked: {}", p.fingerprint())),
                                }
                            }
                            Ok(Err(e)) => excluded.push(format!("{tag}: not written: {}", vcore::strip_digits(&e))),
                            Err(p) => excluded.push(format!("{tag}: writer panicked: {}", p.fingerprint())),
                        }
                    }
                }
            }
        }
    }
    excluded.sort();
    excluded.dedup();
    v
}

fn run_grid(ctx: &Ctx, st: &mut Stats) {
    let n = ctx.pick(8, 10);
    let mut excluded = vec![];
    let files = build_grid(n, &mut excluded);
    let pred = vec![Pred { kind: PredKind::Hash(1), leaves: vec![0] }];
    // sync configurations: both explicit selection policies (their skip paths differ), with / without the
    // page index (whole-page skipping vs decoder skipping), small batches, late materialisation
    let cfgs: Vec<Opts> = vec![
        Opts { policy: 1, ..Default::default() },
        Opts { policy: 2, page_index: true, batch: Some(2), ..Default::default() },
        Opts { preds: pred, ..Default::default() },
    ];
    let push_cfg = Opts { page_index: true, ..Default::default() };
    let ol: Vec<(Option<usize>, Option<usize>)> = if ctx.quick() {
        vec![(None, None), (Some(1), None), (None, Some(3)), (Some(3), Some(1))]
    } else {
        core_menus(Core::Full, n, 0).1
    };
    let push_ol = [(None, None), (Some(2), Some(3))];
    let nsel = 1 + (1u64 << n);
    let total = files.len() as u64 * nsel;
    let res = par_for(ctx, "encoding-grid", total, 16, |idx, st| {
        let fc = &files[(idx / nsel) as usize];
        let k = idx % nsel;
        let bits = selection_bits(Core::Full, n, k);
        for (ci, cfg) in cfgs.iter().enumerate() {
            let p = ((k + ci as u64) % 5) as u8;
            for &(off, lim) in &ol {
                let mut o = cfg.clone();
                o.sel = bits.as_ref().map(|b| SelSpec { bits: b.clone(), pres: p });
                o.offset = off;
                o.limit = lim;
                match check_read(fc, &o, false) {
                    Ok(out) => {
                        st.add("encoding-grid-reader", 1, (out.out_rows > 0 && out.out_rows < fc.f.nrows) as u64);
                        st.outcome(&format!("grid/{}", if out.out_rows == 0 { "no-rows" } else if out.out_rows == fc.f.nrows { "all-rows" } else { "some-rows" }));
                    }
                    Err((fp, msg)) => {
                        st.add("encoding-grid-reader", 1, 1);
                        st.outcome("violation");
                        st.violate(idx, fp, format!("{} {}: {}", fc.f.name, opts_json(&o), msg), || case_json(fc, &o));
                    }
                }
            }
        }
        for &(off, lim) in &push_ol {
            let mut o = push_cfg.clone();
            o.sel = bits.as_ref().map(|b| SelSpec { bits: b.clone(), pres: (k % 5) as u8 });
            o.offset = off;
            o.limit = lim;
            let (exp_rows, _, _) = fc.reference(&o);
            st.add("encoding-grid-push", 1, (!exp_rows.is_empty() && exp_rows.len() < fc.f.nrows) as u64);
            match check_front(fc, &o, "push", k, &exp_rows) {
                Ok(()) => st.outcome("grid/push/agree"),
                Err((fp, msg)) => {
                    st.outcome("violation");
                    st.violate(idx, fp, format!("{} {} [push]: {}", fc.f.name, opts_json(&o), msg), || front_case_json(fc, &o, "push", k));
                }
            }
        }
        if idx == total / 2 {
            let mut o = cfgs[0].clone();
            o.sel = bits.as_ref().map(|b| SelSpec { bits: b.clone(), pres: 0 });
            st.sample("encoding-grid-reader", || case_json(fc, &o));
        }
    });
    st.merge(res);
    let mut per_combo: BTreeMap<String, u64> = BTreeMap::new();
    for fc in &files {
        let g = fc.f.grid.unwrap();
        *per_combo.entry(format!("{} [{}] / {}", GRID_TYPES[g.ty], GRID_PHYS[g.ty], GRID_ENCS[g.enc])).or_default() += 1;
    }
    st.extra.insert(
        "encoding_grid".into(),
        json!({"files": files.len(), "rows_per_file": n, "axes": "arrow type x value encoding (every encoding the format defines for the physical type) x data page v1/v2 x required/nullable (nulls at i%3==1) x {3 rows per page, one page}",
            "files_per_type_and_encoding": per_combo, "excluded": excluded,
            "per_file": "every selection (2^n + none) x 3 sync configurations (policy Selectors; policy Mask + page index + batch 2; row filter on the column) x rotating presentation x offset/limit menu, plus the push decoder with page index x 2 (offset,limit) pairs",
            "offset_limit_menu": ol.iter().map(|(o, l)| format!("{o:?}/{l:?}")).collect::<Vec<_>>()}),
    );
}

// ------------------------------------------------------------------------------------------------
// ordered predicate lists that empty whole row groups

/// every ordered list of length 0..=max_len over the menu {reject all rows of row group 0 / 1 / 2, reject all
/// rows of the file, reject nothing}; the i-th predicate of a list reads leaf i % nleaves
fn predicate_lists(fc: &FileCtx, max_len: usize) -> Vec<Vec<Pred>> {
    let mut menu: Vec<PredKind> = fc.rg_rows.iter().map(|r| PredKind::RejectRows(r.start, r.end)).collect();
    menu.push(PredKind::False);
    menu.push(PredKind::True);
    let mut lists: Vec<Vec<PredKind>> = vec![vec![]];
    let mut frontier: Vec<Vec<PredKind>> = vec![vec![]];
    for _ in 0..max_len {
        let mut next = vec![];
        for l in &frontier {
            for k in &menu {
                let mut x = l.clone();
                x.push(*k);
                next.push(x);
            }
        }
        lists.extend(next.iter().cloned());
        frontier = next;
    }
    lists.into_iter().map(|l| l.into_iter().enumerate().map(|(i, kind)| Pred { kind, leaves: vec![i % fc.f.nleaves] }).collect()).collect()
}

fn run_predicate_lists(ctx: &Ctx, st: &mut Stats) {
    let n = ctx.pick(8, 10);
    let sids: Vec<usize> = (0..6).collect();
    let files: Vec<FileCtx> = build_files(n, &sids, &mut Stats::new()).into_iter().filter(|fc| fc.f.rg_sizes.len() >= 3).collect();
    let max_len = ctx.pick(2, 3);
    let ol = [(None, None), (Some(1), None), (None, Some(2)), (Some(2), Some(3))];
    // (file, list) work items
    let mut items: Vec<(usize, Vec<Pred>)> = vec![];
    for (fi, fc) in files.iter().enumerate() {
        for l in predicate_lists(fc, max_len) {
            items.push((fi, l));
        }
    }
    let pats: Vec<Option<Vec<bool>>> = std::iter::once(None).chain(small_patterns(n).into_iter().map(Some)).collect();
    let total = items.len() as u64;
    let res = par_for(ctx, "predicate-lists", total, 4, |idx, st| {
        let (fi, preds) = &items[idx as usize];
        let fc = &files[*fi];
        for (si, bits) in pats.iter().enumerate() {
            let pres: Vec<u8> = if bits.is_none() { vec![PRES_MIN] } else { vec![PRES_MIN, PRES_MASK_OFF] };
            for &p in &pres {
                for (oi, &(off, lim)) in ol.iter().enumerate() {
                    let o = Opts { preds: preds.clone(), sel: bits.as_ref().map(|b| SelSpec { bits: b.clone(), pres: p }), offset: off, limit: lim, page_index: fc.f.layout.offset_index && (si + oi) % 2 == 1, ..Default::default() };
                    let (exp_rows, _, _) = fc.reference(&o);
                    let nontrivial = (!exp_rows.is_empty() && exp_rows.len() < fc.f.nrows) as u64;
                    let cls = if exp_rows.is_empty() { "no-rows" } else if exp_rows.len() == fc.f.nrows { "all-rows" } else { "some-rows" };
                    st.add("predicate-lists-reader", 1, nontrivial);
                    match check_read(fc, &o, false) {
                        Ok(_) => st.outcome(&format!("predlist/reader/{cls}")),
                        Err((fp, msg)) => {
                            st.outcome("violation");
                            st.violate(idx, fp, format!("{} {}: {}", fc.f.name, opts_json(&o), msg), || case_json(fc, &o));
                        }
                    }
                    for front in ["push", "async"] {
                        st.add(if front == "push" { "predicate-lists-push" } else { "predicate-lists-async" }, 1, nontrivial);
                        let variant = idx + si as u64 + oi as u64;
                        match check_front(fc, &o, front, variant, &exp_rows) {
                            Ok(()) => st.outcome(&format!("predlist/{front}/{cls}")),
                            Err((fp, msg)) => {
                                st.outcome("violation");
                                st.violate(idx, fp, format!("{} {} [{front}]: {}", fc.f.name, opts_json(&o), msg), || front_case_json(fc, &o, front, variant));
                            }
                        }
                    }
                }
            }
        }
        if idx == total / 2 {
            let o = Opts { preds: preds.clone(), ..Default::default() };
            st.sample("predicate-lists-push", || front_case_json(fc, &o, "push", idx));
        }
    });
    st.merge(res);
    st.extra.insert(
        "predicate_lists".into(),
        json!({"files": files.len(), "files_rule": "the 18 files with 3 row groups", "menu": ["reject all rows of row group 0", "reject all rows of row group 1", "reject all rows of row group 2", "reject all rows (always false)", "reject nothing (always true)"],
            "lists": "every ordered list of length 0..=max_len (repetitions allowed); predicate i reads leaf i % nleaves", "max_len": max_len, "lists_per_file": items.len() / files.len().max(1),
            "crossed_with": "12 pattern selections + none x 2 presentations x 4 (offset,limit) pairs x page index alternating (only on files that have an offset index, so the known column-index defect does not mask these points), on the sync reader, the push decoder and the async stream"}),
    );
}

// ------------------------------------------------------------------------------------------------
// RowSelection algebra

/// algebra presentations: the reader ones plus separate "empty runs" / "split runs" selector forms
const APRES: [&str; 6] = ["minimal", "empty-runs", "split-runs", "mask", "mask-bit-offset-5", "from-iter-unmerged"];

fn asel(b: bool, n: usize) -> RowSelector {
    if b { RowSelector::select(n) } else { RowSelector::skip(n) }
}

fn build_alg(bits: &[bool], pres: usize) -> RowSelection {
    match pres {
        0 => runs_of(bits).into_iter().map(|(b, n)| asel(b, n)).collect::<Vec<_>>().into(),
        1 => {
            let mut v = vec![asel(true, 0)];
            for (b, n) in runs_of(bits) {
                v.push(asel(!b, 0));
                v.push(asel(b, n));
                v.push(asel(b, 0));
            }
            v.push(asel(false, 0));
            v.into()
        }
        2 => bits.iter().map(|&b| asel(b, 1)).collect::<Vec<_>>().into(),
        3 => RowSelection::from_boolean_buffer(BooleanBuffer::from(bits.to_vec())),
        4 => {
            let mut padded = vec![true, true, false, true, false];
            padded.extend_from_slice(bits);
            padded.extend_from_slice(&[true, false, true]);
            RowSelection::from_boolean_buffer(BooleanBuffer::from(padded).slice(5, bits.len()))
        }
        5 => {
            // FromIterator<RowSelector> with runs split in two and zero runs
            let mut v = vec![];
            for (b, n) in runs_of(bits) {
                v.push(asel(b, n - n / 2));
                v.push(asel(!b, 0));
                v.push(asel(b, n / 2));
            }
            v.into_iter().collect()
        }
        _ => unreachable!(),
    }
}

/// positions denoted by a selection, via the public iterator; also returns the total length
fn denote(s: &RowSelection) -> (Vec<bool>, usize) {
    let mut bits = vec![];
    for r in s.iter() {
        bits.extend(std::iter::repeat_n(!r.skip, r.row_count));
    }
    let n = bits.len();
    (bits, n)
}

fn bits_of(k: u32, l: usize) -> Vec<bool> {
    (0..l).map(|i| k >> i & 1 == 1).collect()
}

macro_rules! ck {
    ($cond:expr, $name:expr, $($arg:tt)*) => {
        if !($cond) {
            return Err(($name.to_string(), format!($($arg)*)));
        }
    };
}

fn same_set(got: &[bool], want: &[bool]) -> bool {
    // equality as sets of positions: trailing unselected positions are immaterial
    let n = got.len().max(want.len());
    (0..n).all(|i| got.get(i).copied().unwrap_or(false) == want.get(i).copied().unwrap_or(false))
}

/// unary facts about one selection in one presentation
fn check_unary_alg(bits: &[bool], pres: usize) -> Result<(), (String, String)> {
    let l = bits.len();
    let s = build_alg(bits, pres);
    let ones = bits.iter().filter(|b| **b).count();
    let (d, n) = denote(&s);
    ck!(d == bits && n == l, "iter", "iter denotes {d:?}, want {bits:?}");
    ck!(s.row_count() == ones, "row_count", "{} vs {ones}", s.row_count());
    ck!(s.selects_any() == (ones > 0), "selects_any", "{} vs {}", s.selects_any(), ones > 0);
    ck!(s.total_row_count() == l, "total_row_count", "{} vs {l}", s.total_row_count());
    ck!(s.skipped_row_count() == l - ones, "skipped_row_count", "{} vs {}", s.skipped_row_count(), l - ones);
    // documented invariants of the selector-backed form: no zero-length selectors, alternating
    if s.as_mask().is_none() {
        let v: Vec<RowSelector> = s.iter().copied().collect();
        ck!(v.iter().all(|r| r.row_count > 0), "selector-invariant:no-empty", "{v:?}");
        ck!(v.windows(2).all(|w| w[0].skip != w[1].skip), "selector-invariant:alternating", "{v:?}");
    } else {
        ck!(s.as_mask().unwrap().len() == l && (0..l).all(|i| s.as_mask().unwrap().value(i) == bits[i]), "as_mask", "mask differs");
    }
    let v: Vec<RowSelector> = s.clone().into();
    let mut d2 = vec![];
    for r in &v {
        d2.extend(std::iter::repeat_n(!r.skip, r.row_count));
    }
    ck!(d2 == bits, "into<Vec<RowSelector>>", "{v:?}");
    ck!(s == s.clone(), "eq:reflexive", "s != s.clone()");
    // split_off(k) for every k (and one past the end)
    for k in 0..=l + 1 {
        let mut tail = s.clone();
        let head = tail.split_off(k);
        let (hd, hn) = denote(&head);
        let (td, tn) = denote(&tail);
        let kk = k.min(l);
        ck!(hd == bits[..kk] && hn == kk, "split_off:head", "k={k} head {hd:?} of {bits:?}");
        ck!(td == bits[kk..] && tn == l - kk, "split_off:tail", "k={k} tail {td:?} of {bits:?}");
        ck!(head.row_count() == bits[..kk].iter().filter(|b| **b).count(), "split_off:head.row_count", "k={k} {}", head.row_count());
        ck!(tail.row_count() == bits[kk..].iter().filter(|b| **b).count(), "split_off:tail.row_count", "k={k} {}", tail.row_count());
        ck!(head.selects_any() == bits[..kk].iter().any(|b| *b), "split_off:head.selects_any", "k={k}");
        ck!(tail.selects_any() == bits[kk..].iter().any(|b| *b), "split_off:tail.selects_any", "k={k}");
        // the same split on a freshly built selection (no cached count / selector run cache)
        {
            let mut cold_tail = build_alg(bits, pres);
            let cold_head = cold_tail.split_off(k);
            ck!(cold_head.row_count() == bits[..kk].iter().filter(|b| **b).count(), "split_off:head.row_count(cold)", "k={k} {}", cold_head.row_count());
            ck!(cold_tail.row_count() == bits[kk..].iter().filter(|b| **b).count(), "split_off:tail.row_count(cold)", "k={k} {}", cold_tail.row_count());
            ck!(denote(&cold_head).0 == bits[..kk] && denote(&cold_tail).0 == bits[kk..], "split_off(cold)", "k={k}");
            ck!(cold_head == head && cold_tail == tail, "eq:split_off cold vs cached", "k={k}");
        }
        // repeated split of the tail
        if l - kk >= 1 {
            let mut t2 = tail.clone();
            let h2 = t2.split_off(1);
            ck!(denote(&h2).0 == bits[kk..kk + 1] && denote(&t2).0 == bits[kk + 1..], "split_off:twice", "k={k}");
            ck!(h2.row_count() + t2.row_count() == tail.row_count(), "split_off:twice.row_count", "k={k}");
        }
    }
    // from_filters over every partition of the bits into <= 3 arrays
    for c1 in 0..=l {
        for c2 in c1..=l {
            let parts = [&bits[..c1], &bits[c1..c2], &bits[c2..]];
            let arrays: Vec<BooleanArray> = parts.iter().map(|p| BooleanArray::from(p.to_vec())).collect();
            let f = RowSelection::from_filters(&arrays);
            let (fd, fnn) = denote(&f);
            ck!(fd == bits && fnn == l, "from_filters", "cuts {c1},{c2}: {fd:?} vs {bits:?}");
            ck!(f.row_count() == ones, "from_filters:row_count", "cuts {c1},{c2}");
            ck!(f == s && s == f, "eq:from_filters", "from_filters != presentation {}", APRES[pres]);
            // sliced filter arrays (non-zero offset)
            if c1 > 0 {
                let whole = BooleanArray::from(bits.to_vec());
                let f2 = RowSelection::from_filters(&[whole.slice(0, c1), whole.slice(c1, c2 - c1), whole.slice(c2, l - c2)]);
                ck!(denote(&f2).0 == bits, "from_filters:sliced", "cuts {c1},{c2}");
            }
        }
    }
    // from_consecutive_ranges: runs as ranges; also every run split in unit ranges and empty ranges interleaved
    {
        let mut ranges = vec![];
        let mut unit = vec![];
        let mut pos = 0;
        for (b, n) in runs_of(bits) {
            if b {
                ranges.push(pos..pos + n);
                for i in pos..pos + n {
                    unit.push(i..i);
                    unit.push(i..i + 1);
                }
            }
            pos += n;
        }
        let a = RowSelection::from_consecutive_ranges(ranges.into_iter(), l);
        let b = RowSelection::from_consecutive_ranges(unit.into_iter(), l);
        ck!(denote(&a) == (bits.to_vec(), l), "from_consecutive_ranges", "{:?}", denote(&a));
        ck!(denote(&b) == (bits.to_vec(), l), "from_consecutive_ranges:unit+empty", "{:?}", denote(&b));
        ck!(a == s && b == s, "eq:from_consecutive_ranges", "!= presentation {}", APRES[pres]);
    }
    // scan_ranges against every layout of <= 4 pages over l rows (pages of >= 1 row)
    if l >= 1 {
        for m in 0u32..(1 << (l - 1)) {
            if m.count_ones() > 3 {
                continue;
            }
            // page starts: 0 and every i+1 with bit i set
            let mut starts = vec![0usize];
            for i in 0..l - 1 {
                if m >> i & 1 == 1 {
                    starts.push(i + 1);
                }
            }
            let pages: Vec<PageLocation> =
                starts.iter().enumerate().map(|(pi, &s)| PageLocation { offset: 1000 + 100 * pi as i64, compressed_page_size: 10 + pi as i32, first_row_index: s as i64 }).collect();
            let mut want = vec![];
            for (pi, &st) in starts.iter().enumerate() {
                let end = starts.get(pi + 1).copied().unwrap_or(l);
                if bits[st..end].iter().any(|b| *b) {
                    want.push(1000 + 100 * pi as u64..1000 + 100 * pi as u64 + 10 + pi as u64);
                }
            }
            let got = s.scan_ranges(&pages);
            ck!(got == want, "scan_ranges", "pages start at {starts:?}: got {got:?} want {want:?}");
        }
    }
    Ok(())
}

fn check_binary_alg(a: &[bool], pa: usize, b: &[bool], pb: usize) -> Result<(), (String, String)> {
    let sa = build_alg(a, pa);
    let sb = build_alg(b, pb);
    let (la, lb) = (a.len(), b.len());
    let n = la.max(lb);
    // documented: the longer side's tail passes through
    let comb = |f: fn(bool, bool) -> bool| -> Vec<bool> {
        (0..n)
            .map(|i| match (a.get(i), b.get(i)) {
                (Some(x), Some(y)) => f(*x, *y),
                (Some(x), None) => *x,
                (None, Some(y)) => *y,
                _ => unreachable!(),
            })
            .collect()
    };
    let tag = if la == lb { "" } else { ":unequal-lengths" };
    let i = sa.intersection(&sb);
    let want = comb(|x, y| x && y);
    ck!(same_set(&denote(&i).0, &want), format!("intersection{tag}"), "{:?} ^ {:?} = {:?}, want {:?}", a, b, denote(&i).0, want);
    ck!(i.row_count() == want.iter().filter(|x| **x).count(), format!("intersection:row_count{tag}"), "{}", i.row_count());
    ck!(i.selects_any() == want.iter().any(|x| *x), format!("intersection:selects_any{tag}"), "{}", i.selects_any());
    let u = sa.union(&sb);
    let want = comb(|x, y| x || y);
    ck!(same_set(&denote(&u).0, &want), format!("union{tag}"), "{:?} v {:?} = {:?}, want {:?}", a, b, denote(&u).0, want);
    ck!(u.row_count() == want.iter().filter(|x| **x).count(), format!("union:row_count{tag}"), "{}", u.row_count());
    ck!(u.selects_any() == want.iter().any(|x| *x), format!("union:selects_any{tag}"), "{}", u.selects_any());
    // == : equal iff same length and same set
    ck!((sa == sb) == (a == b), "eq", "{a:?}[{}] == {b:?}[{}] gave {}", APRES[pa], APRES[pb], sa == sb);
    // and_then when b's length equals the number of rows a selects
    let ones = a.iter().filter(|x| **x).count();
    if lb == ones {
        let t = sa.and_then(&sb);
        let mut want = vec![false; la];
        let mut k = 0;
        for (i, &x) in a.iter().enumerate() {
            if x {
                want[i] = b[k];
                k += 1;
            }
        }
        let (d, _) = denote(&t);
        ck!(same_set(&d, &want), "and_then", "{a:?} then {b:?} = {d:?}, want {want:?}");
        ck!(t.row_count() == want.iter().filter(|x| **x).count(), "and_then:row_count", "{}", t.row_count());
        ck!(t.selects_any() == want.iter().any(|x| *x), "and_then:selects_any", "{}", t.selects_any());
        // results feed further operations: split the result and intersect with a
        let mut tail = t.clone();
        let head = tail.split_off(la / 2);
        ck!(same_set(&denote(&head).0, &want[..(la / 2).min(want.len())]), "and_then->split_off:head", "{:?}", denote(&head).0);
        ck!(head.row_count() + tail.row_count() == t.row_count(), "and_then->split_off:row_count", "{} + {}", head.row_count(), tail.row_count());
        let back = t.intersection(&sa);
        ck!(same_set(&denote(&back).0, &want), "and_then->intersection", "{:?}", denote(&back).0);
    }
    Ok(())
}

const MAXL: usize = 6;

fn run_algebra(ctx: &Ctx, st: &mut Stats) {
    // unary
    let mut sels: Vec<Vec<bool>> = vec![];
    for l in 0..=MAXL {
        for k in 0..(1u32 << l) {
            sels.push(bits_of(k, l));
        }
    }
    let np = APRES.len() as u64;
    let ns = sels.len() as u64;
    let res = par_for(ctx, "algebra-unary", ns * np, 4, |idx, st| {
        let bits = &sels[(idx / np) as usize];
        let pres = (idx % np) as usize;
        let r = catch(|| check_unary_alg(bits, pres));
        st.add("algebra-unary", 1, (!bits.is_empty()) as u64);
        let viol = match r {
            Ok(Ok(())) => None,
            Ok(Err((op, msg))) => Some((format!("c06:algebra:{op}"), msg)),
            Err(p) => Some((format!("c06:algebra:{}", p.fingerprint()), format!("{p:?}"))),
        };
        if let Some((fp, msg)) = viol {
            st.violate(idx, fp, format!("selection {bits:?} as {}: {msg}", APRES[pres]), || json!({"sub": "algebra-unary", "bits": bits, "pres": pres}));
        }
        if idx == ns * np - 1 {
            st.sample("algebra-unary", || json!({"bits": bits, "presentation": APRES[pres]}));
        }
    });
    st.merge(res);
    // binary: all ordered pairs x all presentation pairs
    let total = ns * ns * np * np;
    let res = par_for(ctx, "algebra-binary", total, 256, |idx, st| {
        let mut i = idx;
        let pb = (i % np) as usize;
        i /= np;
        let pa = (i % np) as usize;
        i /= np;
        let b = &sels[(i % ns) as usize];
        let a = &sels[(i / ns) as usize];
        let r = catch(|| check_binary_alg(a, pa, b, pb));
        st.add("algebra-binary", 1, (!a.is_empty() && !b.is_empty()) as u64);
        let viol = match r {
            Ok(Ok(())) => None,
            Ok(Err((op, msg))) => Some((format!("c06:algebra:{op}"), msg)),
            Err(p) => Some((format!("c06:algebra:{}", p.fingerprint()), format!("{p:?}"))),
        };
        if let Some((fp, msg)) = viol {
            st.violate(idx, fp, format!("{a:?} as {} with {b:?} as {}: {msg}", APRES[pa], APRES[pb]), || json!({"sub": "algebra-binary", "a": a, "pa": pa, "b": b, "pb": pb}));
        }
        if idx == total / 2 {
            st.sample("algebra-binary", || json!({"a": a, "a_presentation": APRES[pa], "b": b, "b_presentation": APRES[pb]}));
        }
    });
    st.merge(res);
    st.extra.insert("algebra_space".into(), json!({"max_total_length": MAXL, "selections": ns, "presentations": APRES, "ordered_pairs": ns * ns, "presentation_pairs": np * np}));
}

// ------------------------------------------------------------------------------------------------

fn bools(v: &Value) -> Vec<bool> {
    v.as_array().map(|a| a.iter().map(|x| x.as_bool().unwrap()).collect()).unwrap_or_default()
}

pub fn replay(case: &Value) -> Result<(), String> {
    match case["sub"].as_str().unwrap_or("") {
        "reader" => {
            let f = &case["file"];
            let file = pqfile_from_json(f)?;
            let fc = FileCtx::new(file)?;
            let o = opts_from_json(&case["opts"]);
            let (rows, schema, bs) = fc.reference(&o);
            println!("reference: {} rows (batch size bound {bs}), schema {schema:?}", rows.len());
            for r in &rows {
                println!("  {r:?}");
            }
            check_read(&fc, &o, false).map(|o| println!("reader agrees: {o:?}")).map_err(|(fp, m)| format!("{fp}: {m}"))
        }
        "front-end" => {
            let f = &case["file"];
            let file = pqfile_from_json(f)?;
            let fc = FileCtx::new(file)?;
            let o = opts_from_json(&case["opts"]);
            let (rows, _, _) = fc.reference(&o);
            println!("reference: {} rows", rows.len());
            for r in &rows {
                println!("  {r:?}");
            }
            let front = case["front_end"].as_str().unwrap_or("push");
            check_front(&fc, &o, front, case["variant"].as_u64().unwrap_or(0), &rows).map(|_| println!("{front} front end agrees")).map_err(|(fp, m)| format!("{fp}: {m}"))
        }
        "algebra-unary" => check_unary_alg(&bools(&case["bits"]), case["pres"].as_u64().unwrap() as usize).map_err(|(a, b)| format!("{a}: {b}")),
        "algebra-binary" => check_binary_alg(&bools(&case["a"]), case["pa"].as_u64().unwrap() as usize, &bools(&case["b"]), case["pb"].as_u64().unwrap() as usize)
            .map_err(|(a, b)| format!("{a}: {b}")),
        other => Err(format!("unknown sub-engine {other:?}")),
    }
}

pub fn run(ctx: &Ctx) -> ! {
    if let Some(case) = vcore::load_replay(ctx) {
        println!("replay case: {case}");
        let r = catch(|| replay(&case));
        match &r {
            Ok(Ok(())) => println!("replay outcome: implementation agrees with the reference"),
            Ok(Err(e)) => println!("replay outcome: MISMATCH {e}"),
            Err(p) => println!("replay outcome: PANIC {p:?}"),
        }
        std::process::exit(if matches!(r, Ok(Ok(()))) { 0 } else { 1 });
    }
    let mut st = Stats::new();
    // developer aid: `--only=algebra|grid|predlists|reader` runs one sub-engine
    let only = ctx.extra_args.iter().find_map(|a| a.strip_prefix("--only=").map(|s| s.to_string()));
    let want = |name: &str| only.as_deref().is_none_or(|o| o == name);
    if want("algebra") {
        run_algebra(ctx, &mut st);
    }
    if want("grid") {
        run_grid(ctx, &mut st);
    }
    if want("predlists") {
        run_predicate_lists(ctx, &mut st);
    }
    if want("reader") {
        run_reader(ctx, &mut st);
    }
    vcore::finish(
        ctx,
        Level {
            category: "exploration",
            rule: "nothing is sampled. reader / push decoder / async stream: every (front end, file, option configuration, selection, presentation, offset, limit) point of the stated product is one evaluation, all distinct by construction; it counts as non-trivial when the expected output is a proper non-empty subset of the file's rows. algebra: every (selection, presentation) and every ordered pair of (selection, presentation) over total length <= 6; non-trivial when the operands are non-empty".into(),
            assumptions: vec![
                "files of 8 (quick) / 10 (thorough) rows written by ArrowWriter; 6 nested/flat schemas x 6 physical layouts, plus a flat single-column grid of 14 arrow types x every value encoding of their physical type x v1/v2 pages x nullability x 2 page layouts; larger files are not covered".into(),
                "non-core option dimensions are combined up to 2 deviations from the default".into(),
                "predicates are pure row-wise functions of the predicate's projected columns (as ArrowPredicate requires)".into(),
                "row selections never extend past the rows of the chosen row groups".into(),
                "intersection/union of unequal-length selections: the documented 'longer side's tail passes through' semantics is used".into(),
            ],
            exhaustive_space: "property quantifier restricted to: 36 generated files; row selections = all 2^T subsets of the T rows of the chosen row groups in 5 presentations; offset {None,0,1,3,T,T+1}; limit {None,0,1,3,T}; projection = every subset of leaves; row-group list = every subset + 2 non-ascending orders; batch size {1,2,3,default}; policy {default,Selectors,Mask,Auto{0}}; page index {skip,optional}; 9 predicate chains; max_predicate_cache_size {default,0}".into(),
        },
        st,
    )
}
