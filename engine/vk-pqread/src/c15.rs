//! C15 — Parquet sync, async and push readers agree under any I/O schedule.
//!
//! Level: model checking of the environment-driven protocol. The real decoder is driven by a
//! stateless DFS over the environment's answers (bounded number of deviations from the cooperative
//! default); every trace is executed on the real code and checked against the sync reader.
use crate::files::*;
use crate::opts::*;
use bytes::Bytes;
use futures::future::BoxFuture;
use futures::task::ArcWake;
use futures::{FutureExt, Stream};
use parquet::DecodeResult;
use parquet::arrow::arrow_reader::{ArrowReaderOptions, ParquetRecordBatchReader, ParquetRecordBatchReaderBuilder};
use parquet::arrow::async_reader::{AsyncFileReader, ParquetRecordBatchStreamBuilder};
use parquet::arrow::push_decoder::{ParquetPushDecoder, ParquetPushDecoderBuilder};
use parquet::errors::{ParquetError, Result as PqResult};
use parquet::file::metadata::{PageIndexPolicy, ParquetMetaData, ParquetMetaDataReader};
use std::collections::{BTreeSet, HashSet};
use std::future::Future;
use std::ops::Range;
use std::pin::Pin;
use std::sync::atomic::{AtomicUsize, Ordering};
use std::sync::{Arc, Mutex};
use std::task::{Context, Poll, Waker};
use vcore::serde_json::{Value, json};
use vcore::{Ctx, Level, Stats, catch, par_for};

type Rows = Vec<Vec<V>>;
type Viol = (String, String);

/// rows of the synchronous reader for `o` (C06 ties these to the reference model)
pub fn sync_rows(fc: &FileCtx, o: &Opts) -> Result<Rows, String> {
    let b = ParquetRecordBatchReaderBuilder::new_with_metadata(fc.f.bytes.clone(), fc.meta(o).clone());
    let reader = fc.apply(b, o).build().map_err(|e| e.to_string())?;
    let mut rows = vec![];
    for b in reader {
        let b = b.map_err(|e| e.to_string())?;
        push_rows(&mut rows, &b);
    }
    Ok(rows)
}

fn push_rows(rows: &mut Rows, b: &arrow_array::RecordBatch) {
    if b.num_columns() == 0 {
        rows.extend(std::iter::repeat_n(vec![], b.num_rows()));
    } else {
        rows.extend(batch_rows(b));
    }
}

fn rows_kind(got: &Rows, exp: &Rows) -> &'static str {
    let mut a = got.iter().map(|r| format!("{r:?}")).collect::<Vec<_>>();
    let mut b = exp.iter().map(|r| format!("{r:?}")).collect::<Vec<_>>();
    a.sort();
    b.sort();
    if a == b {
        "reordered"
    } else if got.len() < exp.len() {
        "missing-rows"
    } else if got.len() > exp.len() {
        "extra-rows"
    } else {
        "wrong-rows"
    }
}

// ------------------------------------------------------------------------------------------------
// push decoder driver

#[derive(Clone, Copy, Debug, PartialEq, Eq)]
pub enum Api {
    Decode,
    Reader,
    /// try_next_reader, readers drained only after the decoder finished
    ReaderDeferred,
}
const APIS: [Api; 3] = [Api::Decode, Api::Reader, Api::ReaderDeferred];

/// alternatives before a decoder call (index 0 = do nothing)
#[derive(Clone, Copy, Debug, PartialEq, Eq)]
enum Pre {
    Nothing,
    PushWholeFile,
    PushFirstRowGroup,
    PushLastRowGroup,
    Rebuild,
    RebuildBatch2,
    ClearAll,
    SwitchApi,
}

/// alternatives answering NeedsData(rs) (index 0 = push exactly rs in order)
#[derive(Clone, Copy, Debug, PartialEq, Eq)]
enum Ans {
    Exact,
    Reversed,
    Rotated,
    OneByOne,
    Duplicated,
    SubsetFirstOnly,
    SubsetAllButFirst,
    SubsetNone,
    PlusMinusOne,
    OneEnclosing,
    WholeRowGroups,
    WholeFile,
    ExactPlusNextRowGroup,
    ExactThenSwitchApi,
}

#[derive(Clone, Debug)]
pub struct PushRun {
    pub points: Vec<usize>, // number of alternatives at each decision point
    pub calls: usize,
    pub pushes: usize,
    pub states: Vec<(u8, bool, usize, u64, usize)>,
    pub trace: Vec<String>,
    pub requested_bytes: u64,
}

struct PushEnv<'a> {
    fc: &'a FileCtx,
    file_len: u64,
    rg_spans: Vec<Range<u64>>,
}

fn rg_spans(md: &ParquetMetaData) -> Vec<Range<u64>> {
    (0..md.num_row_groups())
        .map(|g| {
            let rg = md.row_group(g);
            let mut lo = u64::MAX;
            let mut hi = 0;
            for c in rg.columns() {
                let (s, l) = c.byte_range();
                lo = lo.min(s);
                hi = hi.max(s + l);
            }
            lo..hi
        })
        .collect()
}

fn slice(fc: &FileCtx, r: &Range<u64>) -> Bytes {
    fc.f.bytes.slice(r.start as usize..r.end as usize)
}

fn covered(by: &[Range<u64>], r: &Range<u64>) -> bool {
    by.iter().any(|b| b.start <= r.start && b.end >= r.end)
}

/// Runs the push decoder under `script` (decision point index -> alternative index). Returns the run
/// record or a violation. `want` = rows of the sync reader.
pub fn run_push(fc: &FileCtx, o: &Opts, api0: Api, script: &[(usize, usize)], want: &Rows, keep_trace: bool) -> Result<PushRun, Viol> {
    let env = PushEnv { fc, file_len: fc.f.bytes.len() as u64, rg_spans: rg_spans(fc.meta(o).metadata()) };
    let v = |fp: &str, msg: String| -> Viol { (format!("c15:push:{fp}"), msg) };
    let perr = |what: &str, e: ParquetError| -> Viol { (format!("c15:error:{}", vcore::strip_digits(&e.to_string())), format!("{what}: {e}")) };
    let mut run = PushRun { points: vec![], calls: 0, pushes: 0, states: vec![], trace: vec![], requested_bytes: 0 };
    let mut api = api0;
    let mut bs = o.batch.unwrap_or(1024).min(fc.f.nrows);
    let b = ParquetPushDecoderBuilder::new_with_metadata(fc.meta(o).clone());
    let mut dec: ParquetPushDecoder = fc.apply(b, o).build().map_err(|e| perr("build", e))?;
    // output in emission order: decoded rows, or a reader whose draining is deferred to the end
    enum Chunk {
        Rows(Rows),
        Deferred(ParquetRecordBatchReader),
    }
    let mut out: Vec<Chunk> = vec![];
    let mut emitted = 0usize;
    let mut n_deferred = 0usize;
    let mut first_call = true;
    // progress bookkeeping: ranges of the last fully answered request
    let mut answered: Option<Vec<Range<u64>>> = None;
    // ranges that must be re-requested (after a strict-subset answer)
    let mut must_rerequest: Option<Vec<Range<u64>>> = None;
    // buffers pushed as strict supersets / early data and not cleared by the harness since: the decoder
    // releases only ranges equal to its own requests, so bytes inside these must never be requested
    let mut supers: Vec<Range<u64>> = vec![];
    let choose = |run: &mut PushRun, n_alts: usize| -> usize {
        let p = run.points.len();
        run.points.push(n_alts);
        script.iter().find(|(pi, _)| *pi == p).map(|(_, a)| *a).unwrap_or(0)
    };
    macro_rules! tr {
        ($($arg:tt)*) => { if keep_trace { run.trace.push(format!($($arg)*)); } };
    }
    let push = |dec: &mut ParquetPushDecoder, run: &mut PushRun, ranges: Vec<Range<u64>>, one_by_one: bool| -> Result<(), Viol> {
        if ranges.is_empty() {
            return Ok(());
        }
        let before = dec.buffered_bytes();
        let total: u64 = ranges.iter().map(|r| r.end - r.start).sum();
        let data: Vec<Bytes> = ranges.iter().map(|r| slice(fc, r)).collect();
        if one_by_one {
            for (r, d) in ranges.into_iter().zip(data) {
                dec.push_range(r, d).map_err(|e| (format!("c15:error:{}", vcore::strip_digits(&e.to_string())), format!("push_range: {e}")))?;
                run.pushes += 1;
            }
        } else {
            dec.push_ranges(ranges, data).map_err(|e| (format!("c15:error:{}", vcore::strip_digits(&e.to_string())), format!("push_ranges: {e}")))?;
            run.pushes += 1;
        }
        let after = dec.buffered_bytes();
        if after != before + total {
            return Err(("c15:push:buffered_bytes-after-push".into(), format!("buffered_bytes {before} -> {after} after pushing {total} bytes")));
        }
        Ok(())
    };
    let mut finished = false;
    while !finished {
        if run.calls > 400 {
            return Err(v("no-termination", format!("more than 400 decoder calls; trace tail {:?}", run.trace.iter().rev().take(6).collect::<Vec<_>>())));
        }
        // ---- pre-call decision point
        let at_boundary = dec.is_at_row_group_boundary();
        let _ = dec.peek_next_row_group().map_err(|e| perr("peek_next_row_group", e))?;
        let mut pre: Vec<Pre> = vec![Pre::Nothing];
        if first_call {
            pre.push(Pre::PushWholeFile);
            pre.push(Pre::PushFirstRowGroup);
            if env.rg_spans.len() > 1 {
                pre.push(Pre::PushLastRowGroup);
            }
        }
        if at_boundary {
            pre.push(Pre::Rebuild);
            pre.push(Pre::RebuildBatch2);
            pre.push(Pre::ClearAll);
        }
        pre.push(Pre::SwitchApi);
        let a = choose(&mut run, pre.len());
        let act = pre[a.min(pre.len() - 1)];
        if act != Pre::Nothing {
            tr!("pre: {act:?}");
        }
        match act {
            Pre::Nothing => {}
            Pre::PushWholeFile => {
                supers.push(0..env.file_len);
                push(&mut dec, &mut run, vec![0..env.file_len], false)?
            }
            Pre::PushFirstRowGroup => {
                supers.push(env.rg_spans[0].clone());
                push(&mut dec, &mut run, vec![env.rg_spans[0].clone()], false)?
            }
            Pre::PushLastRowGroup => {
                supers.push(env.rg_spans.last().unwrap().clone());
                push(&mut dec, &mut run, vec![env.rg_spans.last().unwrap().clone()], false)?
            }
            Pre::Rebuild | Pre::RebuildBatch2 => {
                let bb = dec.buffered_bytes();
                let mut b = dec.into_builder().map_err(|e| perr("into_builder", e))?;
                if act == Pre::RebuildBatch2 {
                    b = b.with_batch_size(2);
                    bs = 2.min(fc.f.nrows);
                }
                dec = b.build().map_err(|e| perr("rebuild", e))?;
                if dec.buffered_bytes() != bb {
                    return Err(v("into_builder-loses-buffers", format!("buffered_bytes {bb} before into_builder, {} after rebuild", dec.buffered_bytes())));
                }
            }
            Pre::ClearAll => {
                dec.clear_all_ranges();
                if dec.buffered_bytes() != 0 {
                    return Err(v("clear_all_ranges", format!("buffered_bytes {} after clear_all_ranges", dec.buffered_bytes())));
                }
                answered = None;
                supers.clear();
            }
            Pre::SwitchApi => {
                api = if api == Api::Decode { Api::Reader } else { Api::Decode };
            }
        }
        first_call = false;
        // ---- the decoder call
        run.calls += 1;
        enum R {
            Needs(Vec<Range<u64>>),
            Data,
            Finished,
        }
        let res = match api {
            Api::Decode => match dec.try_decode().map_err(|e| perr("try_decode", e))? {
                DecodeResult::NeedsData(r) => R::Needs(r),
                DecodeResult::Data(b) => {
                    validate_batch(&b).map_err(|e| ("wf:c15:push:batch".to_string(), e))?;
                    if b.num_rows() > bs || b.num_rows() == 0 {
                        return Err(v("batch-size", format!("batch of {} rows, batch size {bs}", b.num_rows())));
                    }
                    let mut r = vec![];
                    push_rows(&mut r, &b);
                    emitted += r.len();
                    out.push(Chunk::Rows(r));
                    R::Data
                }
                DecodeResult::Finished => R::Finished,
            },
            Api::Reader | Api::ReaderDeferred => match dec.try_next_reader().map_err(|e| perr("try_next_reader", e))? {
                DecodeResult::NeedsData(r) => R::Needs(r),
                DecodeResult::Data(reader) => {
                    if api == Api::ReaderDeferred {
                        n_deferred += 1;
                        out.push(Chunk::Deferred(reader));
                    } else {
                        let mut rows = vec![];
                        for b in reader {
                            let b = b.map_err(|e| (format!("c15:error:{}", vcore::strip_digits(&e.to_string())), format!("reader: {e}")))?;
                            validate_batch(&b).map_err(|e| ("wf:c15:push:batch".to_string(), e))?;
                            if b.num_rows() > bs || b.num_rows() == 0 {
                                return Err(v("batch-size", format!("batch of {} rows, batch size {bs}", b.num_rows())));
                            }
                            push_rows(&mut rows, &b);
                        }
                        emitted += rows.len();
                        out.push(Chunk::Rows(rows));
                    }
                    R::Data
                }
                DecodeResult::Finished => R::Finished,
            },
        };
        let kind = match &res {
            R::Needs(_) => 0u8,
            R::Data => 1,
            R::Finished => 2,
        };
        run.states.push((kind, dec.is_at_row_group_boundary(), dec.row_groups_remaining(), dec.buffered_bytes(), emitted + n_deferred * 1000));
        match res {
            R::Needs(rs) => {
                tr!("call#{} {:?} -> NeedsData({rs:?})", run.calls, api);
                if rs.is_empty() {
                    return Err(v("empty-request", "NeedsData with no ranges".into()));
                }
                for r in &rs {
                    if !(r.start < r.end && r.end <= env.file_len) {
                        return Err(v("range-out-of-bounds", format!("requested {r:?} in a file of {} bytes", env.file_len)));
                    }
                    run.requested_bytes += r.end - r.start;
                }
                if let Some(prev) = &answered {
                    if let Some(r) = rs.iter().find(|r| covered(prev, r)) {
                        return Err(v("no-progress:range-requested-again", format!("{r:?} requested again right after {prev:?} was supplied in full")));
                    }
                }
                for r in &rs {
                    if let Some(b) = supers.iter().find(|b| b.start <= r.start && b.end >= r.end && (b.start < r.start || b.end > r.end)) {
                        return Err(v("buffered-bytes-requested-again", format!("{r:?} requested although the enclosing range {b:?} was pushed earlier and never cleared by the caller")));
                    }
                }
                if let Some(missing) = must_rerequest.take() {
                    if let Some(r) = missing.iter().find(|r| !covered(&rs, r)) {
                        return Err(v("insufficient-request", format!("{r:?} was never supplied but is missing from the follow-up request {rs:?}")));
                    }
                }
                // ---- answer decision point
                let mut alts: Vec<Ans> = vec![Ans::Exact];
                if rs.len() >= 2 {
                    alts.push(Ans::Reversed);
                }
                if rs.len() >= 3 {
                    alts.push(Ans::Rotated);
                }
                alts.push(Ans::OneByOne);
                alts.push(Ans::Duplicated);
                if rs.len() >= 2 {
                    alts.push(Ans::SubsetFirstOnly);
                    alts.push(Ans::SubsetAllButFirst);
                }
                alts.push(Ans::SubsetNone);
                alts.push(Ans::PlusMinusOne);
                alts.push(Ans::OneEnclosing);
                alts.push(Ans::WholeRowGroups);
                alts.push(Ans::WholeFile);
                let touched: Vec<usize> = (0..env.rg_spans.len()).filter(|g| rs.iter().any(|r| r.start < env.rg_spans[*g].end && env.rg_spans[*g].start < r.end)).collect();
                let next_rg = touched.iter().max().map(|g| g + 1).filter(|g| *g < env.rg_spans.len());
                if next_rg.is_some() {
                    alts.push(Ans::ExactPlusNextRowGroup);
                }
                alts.push(Ans::ExactThenSwitchApi);
                let a = choose(&mut run, alts.len());
                let ans = alts[a.min(alts.len() - 1)];
                if ans != Ans::Exact {
                    tr!("answer: {ans:?}");
                }
                answered = Some(rs.clone());
                match ans {
                    Ans::Exact => push(&mut dec, &mut run, rs.clone(), false)?,
                    Ans::Reversed => push(&mut dec, &mut run, rs.iter().rev().cloned().collect(), false)?,
                    Ans::Rotated => {
                        let mut x = rs.clone();
                        x.rotate_left(1);
                        push(&mut dec, &mut run, x, false)?
                    }
                    Ans::OneByOne => push(&mut dec, &mut run, rs.clone(), true)?,
                    Ans::Duplicated => {
                        let mut x = rs.clone();
                        x.extend(rs.iter().cloned());
                        push(&mut dec, &mut run, x, false)?
                    }
                    Ans::SubsetFirstOnly => {
                        push(&mut dec, &mut run, vec![rs[0].clone()], false)?;
                        must_rerequest = Some(rs[1..].iter().filter(|r| !covered(&rs[..1], r)).cloned().collect());
                        answered = None;
                    }
                    Ans::SubsetAllButFirst => {
                        push(&mut dec, &mut run, rs[1..].to_vec(), false)?;
                        must_rerequest = Some(rs[..1].iter().filter(|r| !covered(&rs[1..], r)).cloned().collect());
                        answered = None;
                    }
                    Ans::SubsetNone => {
                        must_rerequest = Some(rs.clone());
                        answered = None;
                    }
                    Ans::PlusMinusOne => {
                        let x: Vec<Range<u64>> = rs.iter().map(|r| r.start.saturating_sub(1)..(r.end + 1).min(env.file_len)).collect();
                        supers.extend(x.iter().cloned());
                        push(&mut dec, &mut run, x, false)?
                    }
                    Ans::OneEnclosing => {
                        let lo = rs.iter().map(|r| r.start).min().unwrap();
                        let hi = rs.iter().map(|r| r.end).max().unwrap();
                        supers.push(lo..hi);
                        push(&mut dec, &mut run, vec![lo..hi], false)?
                    }
                    Ans::WholeRowGroups => {
                        // spans of the touched row groups, plus any requested range not inside one of them
                        let mut x: Vec<Range<u64>> = touched.iter().map(|g| env.rg_spans[*g].clone()).collect();
                        for r in &rs {
                            if !covered(&x, r) {
                                x.push(r.clone());
                            }
                        }
                        supers.extend(touched.iter().map(|g| env.rg_spans[*g].clone()));
                        push(&mut dec, &mut run, x, false)?
                    }
                    Ans::WholeFile => {
                        supers.push(0..env.file_len);
                        push(&mut dec, &mut run, vec![0..env.file_len], false)?
                    }
                    Ans::ExactPlusNextRowGroup => {
                        let mut x = rs.clone();
                        x.push(env.rg_spans[next_rg.unwrap()].clone());
                        supers.push(env.rg_spans[next_rg.unwrap()].clone());
                        push(&mut dec, &mut run, x, false)?
                    }
                    Ans::ExactThenSwitchApi => {
                        push(&mut dec, &mut run, rs.clone(), false)?;
                        api = if api == Api::Decode { Api::Reader } else { Api::Decode };
                    }
                }
            }
            R::Data => {
                tr!("call#{} {:?} -> Data (rows so far {})", run.calls, api, emitted);
                answered = None;
                if must_rerequest.take().is_some_and(|m| !m.is_empty()) {
                    return Err(v("data-without-requested-bytes", "decoder produced data although requested ranges were never supplied".into()));
                }
            }
            R::Finished => {
                tr!("call#{} {:?} -> Finished", run.calls, api);
                if must_rerequest.take().is_some_and(|m| !m.is_empty()) {
                    return Err(v("finished-without-requested-bytes", "decoder finished although requested ranges were never supplied".into()));
                }
                finished = true;
            }
        }
    }
    // Finished stays Finished
    for _ in 0..2 {
        match dec.try_decode() {
            Ok(DecodeResult::Finished) => {}
            other => return Err(v("finished-not-sticky", format!("try_decode after Finished returned {other:?}"))),
        }
        match dec.try_next_reader() {
            Ok(DecodeResult::Finished) => {}
            Ok(_) => return Err(v("finished-not-sticky", "try_next_reader after Finished returned data / a request".into())),
            Err(e) => return Err(v("finished-not-sticky", format!("try_next_reader after Finished returned Err({e})"))),
        }
        // documented: pushing to a finished decoder is an error; it must not un-finish it
        if dec.push_range(0..1, slice(env.fc, &(0..1))).is_ok() {
            return Err(v("push-after-finished-accepted", "push_range on a finished decoder returned Ok".into()));
        }
    }
    let mut rows: Rows = vec![];
    for c in out {
        match c {
            Chunk::Rows(r) => rows.extend(r),
            Chunk::Deferred(reader) => {
                for b in reader {
                    let b = b.map_err(|e| (format!("c15:error:{}", vcore::strip_digits(&e.to_string())), e.to_string()))?;
                    validate_batch(&b).map_err(|e| ("wf:c15:push:batch".to_string(), e))?;
                    push_rows(&mut rows, &b);
                }
            }
        }
    }
    if &rows != want {
        return Err((format!("c15:push:rows-differ-from-sync:{}", rows_kind(&rows, want)), format!("push decoder produced {} rows {:?}; sync reader {} rows {:?}", rows.len(), rows, want.len(), want)));
    }
    Ok(run)
}

pub struct DfsTotals {
    /// traces with fewer deviations than this are executed (to discover decision points) but not counted
    /// or reported: another work item covers them
    pub count_from: usize,
    pub traces: u64,
    pub transitions: u64,
    pub states: HashSet<(u8, bool, usize, u64, usize)>,
    pub max_depth: u64,
    pub max_requested_ratio: f64,
}

/// stateless DFS over scripts with at most `bound` deviations
fn dfs_push(fc: &FileCtx, o: &Opts, api: Api, want: &Rows, bound: usize, script: &mut Vec<(usize, usize)>, from: usize, tot: &mut DfsTotals, viol: &mut Vec<(Viol, Vec<(usize, usize)>)>) {
    let r = catch(|| run_push(fc, o, api, script, want, false));
    let counted = script.len() >= tot.count_from;
    if counted {
        tot.traces += 1;
    }
    let run = match r {
        Ok(Ok(run)) => run,
        Ok(Err(vl)) => {
            if counted {
                viol.push((vl, script.clone()));
            }
            return;
        }
        Err(p) => {
            if counted {
                viol.push(((format!("c15:push:{}", p.fingerprint()), format!("{p:?}")), script.clone()));
            }
            return;
        }
    };
    if counted {
        tot.transitions += (run.calls + run.pushes) as u64;
        tot.max_depth = tot.max_depth.max(run.calls as u64);
        tot.max_requested_ratio = tot.max_requested_ratio.max(run.requested_bytes as f64 / fc.f.bytes.len() as f64);
        tot.states.extend(run.states.iter().cloned());
    }
    if script.len() >= bound {
        return;
    }
    for p in from..run.points.len() {
        for alt in 1..run.points[p] {
            script.push((p, alt));
            dfs_push(fc, o, api, want, bound, script, p + 1, tot, viol);
            script.pop();
        }
    }
}

// ------------------------------------------------------------------------------------------------
// async stream driver

#[derive(Default)]
struct Shared {
    log: Vec<Range<u64>>,
    futures_created: usize,
    /// indices of fetch futures that return Pending once
    pend: Vec<usize>,
    released: BTreeSet<usize>,
    waiting: Option<(usize, Waker)>,
    bad_range: Option<String>,
}

struct AdvReader {
    data: Bytes,
    meta: Option<Arc<ParquetMetaData>>,
    vectored: bool,
    sh: Arc<Mutex<Shared>>,
}

struct Gate {
    idx: usize,
    sh: Arc<Mutex<Shared>>,
}
impl Future for Gate {
    type Output = ();
    fn poll(self: Pin<&mut Self>, cx: &mut Context<'_>) -> Poll<()> {
        let mut s = self.sh.lock().unwrap();
        if s.pend.contains(&self.idx) && !s.released.contains(&self.idx) {
            s.waiting = Some((self.idx, cx.waker().clone()));
            Poll::Pending
        } else {
            Poll::Ready(())
        }
    }
}

impl AdvReader {
    fn gate(&self) -> Gate {
        let mut s = self.sh.lock().unwrap();
        let idx = s.futures_created;
        s.futures_created += 1;
        Gate { idx, sh: self.sh.clone() }
    }
    fn log(&self, r: &Range<u64>) {
        let mut s = self.sh.lock().unwrap();
        if !(r.start < r.end && r.end <= self.data.len() as u64) && s.bad_range.is_none() {
            s.bad_range = Some(format!("{r:?} requested from a file of {} bytes", self.data.len()));
        }
        s.log.push(r.clone());
    }
    fn get(&self, r: &Range<u64>) -> PqResult<Bytes> {
        if r.start <= r.end && r.end <= self.data.len() as u64 {
            Ok(self.data.slice(r.start as usize..r.end as usize))
        } else {
            Err(ParquetError::EOF(format!("range {r:?} outside file")))
        }
    }
}

impl AsyncFileReader for AdvReader {
    fn get_bytes(&mut self, range: Range<u64>) -> BoxFuture<'_, PqResult<Bytes>> {
        self.log(&range);
        let g = self.gate();
        let out = self.get(&range);
        async move {
            g.await;
            out
        }
        .boxed()
    }
    fn get_byte_ranges(&mut self, ranges: Vec<Range<u64>>) -> BoxFuture<'_, PqResult<Vec<Bytes>>> {
        if self.vectored {
            for r in &ranges {
                self.log(r);
            }
            let g = self.gate();
            let out: PqResult<Vec<Bytes>> = ranges.iter().map(|r| self.get(r)).collect();
            async move {
                g.await;
                out
            }
            .boxed()
        } else {
            async move {
                let mut result = Vec::with_capacity(ranges.len());
                for range in ranges {
                    result.push(self.get_bytes(range).await?);
                }
                Ok(result)
            }
            .boxed()
        }
    }
    fn get_metadata<'a>(&'a mut self, options: Option<&'a ArrowReaderOptions>) -> BoxFuture<'a, PqResult<Arc<ParquetMetaData>>> {
        async move {
            if let Some(m) = &self.meta {
                let g = self.gate();
                g.await;
                return Ok(m.clone());
            }
            let len = self.data.len() as u64;
            let md = ParquetMetaDataReader::new().with_arrow_reader_options(options).load_and_finish(&mut *self, len).await?;
            Ok(Arc::new(md))
        }
        .boxed()
    }
}

struct CountWaker(AtomicUsize);
impl ArcWake for CountWaker {
    fn wake_by_ref(a: &Arc<Self>) {
        a.0.fetch_add(1, Ordering::SeqCst);
    }
}

#[derive(Clone, Copy, Debug, PartialEq, Eq)]
pub struct AsyncMode {
    pub vectored: bool,
    pub metadata_up_front: bool,
    pub row_group_api: bool,
    pub spurious_poll: bool,
}

pub struct AsyncRun {
    pub futures: usize,
    pub polls: usize,
    pub pendings: usize,
    pub states: Vec<(u8, usize, usize)>,
    pub requested_bytes: u64,
}

/// Polls `fut` to completion with the manual executor protocol. `pend` decides which gates pend.
fn drive<T>(mut fut: Pin<&mut (dyn Future<Output = T> + '_)>, sh: &Arc<Mutex<Shared>>, mode: AsyncMode, counters: &mut (usize, usize)) -> Result<T, Viol> {
    let cw = Arc::new(CountWaker(AtomicUsize::new(0)));
    let waker = futures::task::waker(cw.clone());
    let mut cx = Context::from_waker(&waker);
    loop {
        counters.0 += 1;
        if counters.0 > 2000 {
            return Err(("c15:async:no-termination".into(), "more than 2000 polls".into()));
        }
        match fut.as_mut().poll(&mut cx) {
            Poll::Ready(v) => return Ok(v),
            Poll::Pending => {
                counters.1 += 1;
                let waiting = sh.lock().unwrap().waiting.take();
                let Some((idx, w)) = waiting else {
                    return Err(("c15:async:pending-without-outstanding-io".into(), "the stream returned Pending although no I/O future is pending".into()));
                };
                if mode.spurious_poll {
                    // a poll without a wake: must stay Pending and must not break anything
                    sh.lock().unwrap().waiting = None;
                    counters.0 += 1;
                    match fut.as_mut().poll(&mut cx) {
                        Poll::Pending => {}
                        Poll::Ready(_) => return Err(("c15:async:ready-while-io-pending".into(), format!("spurious poll returned Ready while I/O future #{idx} is still pending"))),
                    }
                    // the inner future must have been polled again (it re-registers the waker)
                    if sh.lock().unwrap().waiting.take().is_none() {
                        return Err(("c15:async:io-future-dropped-while-pending".into(), format!("spurious poll did not poll pending I/O future #{idx}")));
                    }
                }
                let before = cw.0.load(Ordering::SeqCst);
                sh.lock().unwrap().released.insert(idx);
                w.wake();
                if cw.0.load(Ordering::SeqCst) == before {
                    return Err(("c15:async:lost-wakeup".into(), format!("waking I/O future #{idx} did not wake the task polling the stream")));
                }
            }
        }
    }
}

pub fn run_async(fc: &FileCtx, o: &Opts, mode: AsyncMode, pend: &[usize], want: &Rows) -> Result<AsyncRun, Viol> {
    let sh = Arc::new(Mutex::new(Shared { pend: pend.to_vec(), ..Default::default() }));
    let reader = AdvReader { data: fc.f.bytes.clone(), meta: None, vectored: mode.vectored, sh: sh.clone() };
    let aerr = |what: &str, e: String| -> Viol { (format!("c15:error:{}", vcore::strip_digits(&e)), format!("{what}: {e}")) };
    let mut counters = (0usize, 0usize);
    let mut states = vec![];
    let bs = o.batch.unwrap_or(1024).min(fc.f.nrows);
    let builder = if mode.metadata_up_front {
        ParquetRecordBatchStreamBuilder::new_with_metadata(reader, fc.meta(o).clone())
    } else {
        let ro = ArrowReaderOptions::new().with_page_index_policy(if o.page_index { PageIndexPolicy::Optional } else { PageIndexPolicy::Skip });
        let mut f = Box::pin(ParquetRecordBatchStreamBuilder::new_with_options(reader, ro));
        drive(f.as_mut(), &sh, mode, &mut counters)?.map_err(|e| aerr("open", e.to_string()))?
    };
    let mut stream = fc.apply(builder, o).build().map_err(|e| aerr("build", e.to_string()))?;
    let (_, exp_schema, _) = fc.reference(o);
    if !same_schema(stream.schema(), &exp_schema) {
        return Err(("c15:async:schema".into(), format!("stream schema {:?} != projected schema {exp_schema:?}", stream.schema())));
    }
    let mut rows: Rows = vec![];
    let check_batch = |b: &arrow_array::RecordBatch| -> Result<(), Viol> {
        validate_batch(b).map_err(|e| ("wf:c15:async:batch".to_string(), e))?;
        if b.num_rows() > bs || b.num_rows() == 0 {
            return Err(("c15:async:batch-size".into(), format!("batch of {} rows, batch size {bs}", b.num_rows())));
        }
        Ok(())
    };
    if mode.row_group_api {
        loop {
            let r = {
                let mut f = Box::pin(stream.next_row_group());
                drive(f.as_mut(), &sh, mode, &mut counters)?
            };
            match r.map_err(|e| aerr("next_row_group", e.to_string()))? {
                Some(reader) => {
                    for b in reader {
                        let b = b.map_err(|e| aerr("reader", e.to_string()))?;
                        check_batch(&b)?;
                        push_rows(&mut rows, &b);
                    }
                    states.push((1u8, sh.lock().unwrap().log.len(), rows.len()));
                }
                None => break,
            }
        }
        // ended stays ended
        let r = {
            let mut f = Box::pin(stream.next_row_group());
            drive(f.as_mut(), &sh, mode, &mut counters)?
        };
        if !matches!(r, Ok(None)) {
            return Err(("c15:async:end-not-sticky".into(), "next_row_group after the end returned something".into()));
        }
    } else {
        loop {
            let r = {
                let mut f = Box::pin(std::future::poll_fn(|cx| Pin::new(&mut stream).poll_next(cx)));
                drive(f.as_mut(), &sh, mode, &mut counters)?
            };
            match r {
                Some(b) => {
                    let b = b.map_err(|e| aerr("poll_next", e.to_string()))?;
                    check_batch(&b)?;
                    push_rows(&mut rows, &b);
                    states.push((1u8, sh.lock().unwrap().log.len(), rows.len()));
                }
                None => break,
            }
        }
        let r = {
            let mut f = Box::pin(std::future::poll_fn(|cx| Pin::new(&mut stream).poll_next(cx)));
            drive(f.as_mut(), &sh, mode, &mut counters)?
        };
        if r.is_some() {
            return Err(("c15:async:end-not-sticky".into(), "poll_next after the end returned an item".into()));
        }
    }
    let s = sh.lock().unwrap();
    if let Some(b) = &s.bad_range {
        return Err(("c15:async:range-out-of-bounds".into(), b.clone()));
    }
    if &rows != want {
        return Err((format!("c15:async:rows-differ-from-sync:{}", rows_kind(&rows, want)), format!("async stream produced {} rows {:?}; sync reader {} rows {:?}", rows.len(), rows, want.len(), want)));
    }
    states.push((2, s.log.len(), rows.len()));
    Ok(AsyncRun { futures: s.futures_created, polls: counters.0, pendings: counters.1, states, requested_bytes: s.log.iter().map(|r| r.end - r.start).sum() })
}

const ASYNC_MODES: usize = 16;
fn async_mode(i: usize) -> AsyncMode {
    AsyncMode { vectored: i & 1 != 0, metadata_up_front: i & 2 != 0, row_group_api: i & 4 != 0, spurious_poll: i & 8 != 0 }
}

/// all subsets of gate indices of size <= bound (stateless DFS: the number of gates is discovered by running)
fn dfs_async(fc: &FileCtx, o: &Opts, mode: AsyncMode, want: &Rows, bound: usize, pend: &mut Vec<usize>, from: usize, tot: &mut DfsTotals, viol: &mut Vec<(Viol, Vec<usize>)>) {
    let r = catch(|| run_async(fc, o, mode, pend, want));
    tot.traces += 1;
    let run = match r {
        Ok(Ok(run)) => run,
        Ok(Err(vl)) => {
            viol.push((vl, pend.clone()));
            return;
        }
        Err(p) => {
            viol.push(((format!("c15:async:{}", p.fingerprint()), format!("{p:?}")), pend.clone()));
            return;
        }
    };
    if run.pendings != pend.len() {
        viol.push((("c15:harness:pending-count".into(), format!("{} gates scripted to pend, {} Pending results seen", pend.len(), run.pendings)), pend.clone()));
    }
    tot.transitions += run.polls as u64;
    tot.max_depth = tot.max_depth.max(run.polls as u64);
    tot.max_requested_ratio = tot.max_requested_ratio.max(run.requested_bytes as f64 / fc.f.bytes.len() as f64);
    for (k, l, r) in &run.states {
        tot.states.insert((*k, false, *l, pend.len() as u64, *r));
    }
    if pend.len() >= bound {
        return;
    }
    for g in from..run.futures {
        pend.push(g);
        dfs_async(fc, o, mode, want, bound, pend, g + 1, tot, viol);
        pend.pop();
    }
}

// ------------------------------------------------------------------------------------------------
// work plan

fn bits(s: &str) -> Vec<bool> {
    s.chars().map(|c| c == '1').collect()
}

/// option points explored with the full schedule DFS
fn schedule_options(fc: &FileCtx) -> Vec<Opts> {
    let n = fc.f.nrows;
    let nl = fc.f.nleaves;
    let pat = |f: &dyn Fn(usize) -> bool| -> Vec<bool> { (0..n).map(f).collect() };
    let p = |kind, leaves: Vec<usize>| Pred { kind, leaves };
    let mut v = vec![Opts::default()];
    v.push(Opts { sel: Some(SelSpec { bits: pat(&|i| i % 3 != 1), pres: PRES_MIN }), offset: Some(1), limit: Some(n / 2), ..Default::default() });
    v.push(Opts { sel: Some(SelSpec { bits: pat(&|i| (i / 2) % 2 == 1), pres: PRES_MASK_OFF }), page_index: true, batch: Some(2), ..Default::default() });
    v.push(Opts { preds: vec![p(PredKind::Hash(1), vec![0])], ..Default::default() });
    v.push(Opts { preds: vec![p(PredKind::Hash(1), vec![0]), p(PredKind::NullHash(2), vec![nl - 1])], limit: Some(3), page_index: true, ..Default::default() });
    v.push(Opts { preds: vec![p(PredKind::Hash(3), vec![nl - 1])], proj: Some(vec![0]), sel: Some(SelSpec { bits: pat(&|i| i != 0 && i + 1 != n), pres: PRES_TRIM }), offset: Some(2), cache0: true, ..Default::default() });
    v.push(Opts { proj: Some(vec![]), limit: Some(n - 1), ..Default::default() });
    if fc.f.rg_sizes.len() == 3 {
        v.push(Opts { rgs: Some(vec![0, 2]), policy: 2, sel: Some(SelSpec { bits: (0..fc.f.rg_sizes[0] + fc.f.rg_sizes[2]).map(|i| i % 2 == 0).collect(), pres: PRES_MIN }), ..Default::default() });
        v.push(Opts { rgs: Some(vec![1, 2]), offset: Some(fc.f.rg_sizes[1]), ..Default::default() });
    }
    v.push(Opts { limit: Some(1), ..Default::default() });
    v.push(Opts { offset: Some(fc.f.rg_sizes[0]), batch: Some(3), ..Default::default() });
    v.push(Opts { sel: Some(SelSpec { bits: pat(&|i| i >= fc.f.rg_sizes[0]), pres: PRES_MASK }), policy: 1, page_index: true, ..Default::default() });
    v.push(Opts { sel: Some(SelSpec { bits: pat(&|i| i == n / 2), pres: PRES_MIN }), policy: 1, page_index: true, ..Default::default() });
    v.push(Opts { preds: vec![p(PredKind::False, vec![0])], ..Default::default() });
    if fc.f.rg_sizes.len() == 3 {
        // a non-last predicate empties the first / the middle row group while another predicate is pending
        v.push(Opts { preds: vec![p(PredKind::RejectRows(fc.rg_rows[0].start, fc.rg_rows[0].end), vec![0]), p(PredKind::Hash(2), vec![nl - 1])], ..Default::default() });
        v.push(Opts { preds: vec![p(PredKind::RejectRows(fc.rg_rows[1].start, fc.rg_rows[1].end), vec![nl - 1]), p(PredKind::RejectRows(fc.rg_rows[0].start, fc.rg_rows[0].end), vec![0])], limit: Some(2), ..Default::default() });
        v.push(Opts {
            rgs: Some(vec![2, 0]),
            preds: vec![p(PredKind::Hash(1), vec![nl - 1]), p(PredKind::Hash(2), vec![0])],
            sel: Some(SelSpec { bits: (0..fc.f.rg_sizes[0] + fc.f.rg_sizes[2]).map(|i| i % 3 != 0).collect(), pres: PRES_SPLIT }),
            offset: Some(1),
            ..Default::default()
        });
    }
    let _ = bits;
    v
}

enum Item {
    PushDfs { file: usize, opt: usize, api: Api, bound: usize, count_from: usize },
    AsyncDfs { file: usize, opt: usize, mode: usize, bound: usize },
    /// option sweep: one option point, all front ends under the cooperative environment + fixed adversarial scripts
    Sweep { file: usize, opts: Opts },
}

fn case_json(fc: &FileCtx, o: &Opts, front: &str, extra: Value) -> Value {
    json!({"file": file_json(&fc.f), "opts": opts_json(o), "front_end": front, "schedule": extra})
}

fn api_name(a: Api) -> &'static str {
    match a {
        Api::Decode => "try_decode",
        Api::Reader => "try_next_reader",
        Api::ReaderDeferred => "try_next_reader-deferred-drain",
    }
}
fn api_from(s: &str) -> Api {
    match s {
        "try_decode" => Api::Decode,
        "try_next_reader" => Api::Reader,
        _ => Api::ReaderDeferred,
    }
}
fn mode_json(m: AsyncMode) -> Value {
    json!({"vectored": m.vectored, "metadata_up_front": m.metadata_up_front, "row_group_api": m.row_group_api, "spurious_poll": m.spurious_poll})
}

fn sweep(fc: &FileCtx, o: &Opts, idx: u64, st: &mut Stats, tot: &mut DfsTotals, deep: bool) {
    let want = match catch(|| sync_rows(fc, o)) {
        Ok(Ok(w)) => w,
        Ok(Err(e)) => {
            st.violate(idx, format!("c15:sync:error:{}", vcore::strip_digits(&e)), format!("{} {}: {e}", fc.f.name, opts_json(o)), || case_json(fc, o, "sync", json!(null)));
            return;
        }
        Err(p) => {
            st.violate(idx, format!("c15:sync:{}", p.fingerprint()), format!("{} {}: {p:?}", fc.f.name, opts_json(o)), || case_json(fc, o, "sync", json!(null)));
            return;
        }
    };
    // the sync reader itself is tied to the reference here as well (cheap)
    let (exp, _, _) = fc.reference(o);
    if exp != want {
        st.violate(idx, "c15:sync:differs-from-reference", format!("{} {}", fc.f.name, opts_json(o)), || case_json(fc, o, "sync", json!(null)));
        return;
    }
    let nontrivial = (!want.is_empty() && want.len() < fc.f.nrows) as u64;
    if deep {
        // thorough tier: every single deviation (DFS bound 1) per API / async mode instead of fixed scripts
        let cls = |front: &str| format!("{front}/agree/{}", if want.is_empty() { "no-rows" } else if want.len() == fc.f.nrows { "all-rows" } else { "some-rows" });
        for api in APIS {
            let mut viol = vec![];
            let before = tot.traces;
            dfs_push(fc, o, api, &want, 1, &mut vec![], 0, tot, &mut viol);
            let n = tot.traces - before;
            st.add("sweep-push", n, n * nontrivial);
            st.outcome_n(&cls("push"), n - viol.len() as u64);
            for ((fp, msg), script) in viol {
                st.outcome("violation");
                st.violate(idx, fp, format!("{} {} api={} script={script:?}: {msg}", fc.f.name, opts_json(o), api_name(api)), || case_json(fc, o, "push", json!({"api": api_name(api), "script": script})));
            }
        }
        for mi in [0usize, 3, 5, 14] {
            let mode = async_mode(mi);
            let mut viol = vec![];
            let before = tot.traces;
            dfs_async(fc, o, mode, &want, 1, &mut vec![], 0, tot, &mut viol);
            let n = tot.traces - before;
            st.add("sweep-async", n, n * nontrivial);
            st.outcome_n(&cls("async"), n - viol.len() as u64);
            for ((fp, msg), pend) in viol {
                st.outcome("violation");
                st.violate(idx, fp, format!("{} {} mode={mode:?} pend={pend:?}: {msg}", fc.f.name, opts_json(o)), || case_json(fc, o, "async", json!({"mode": mode_json(mode), "pend": pend})));
            }
        }
        return;
    }
    // push: cooperative + three fixed adversarial scripts per API
    for api in APIS {
        for script in [vec![], vec![(0usize, 1usize)], vec![(1, 4)], vec![(1, 7), (3, 1)]] {
            let r = catch(|| run_push(fc, o, api, &script, &want, false));
            tot.traces += 1;
            st.add("sweep-push", 1, nontrivial);
            match r {
                Ok(Ok(run)) => {
                    tot.transitions += (run.calls + run.pushes) as u64;
                    tot.states.extend(run.states.iter().cloned());
                    tot.max_depth = tot.max_depth.max(run.calls as u64);
                    st.outcome(if want.is_empty() { "push/agree/no-rows" } else if want.len() == fc.f.nrows { "push/agree/all-rows" } else { "push/agree/some-rows" });
                }
                Ok(Err((fp, msg))) => {
                    st.outcome("violation");
                    st.violate(idx, fp, format!("{} {} api={} script={script:?}: {msg}", fc.f.name, opts_json(o), api_name(api)), || case_json(fc, o, "push", json!({"api": api_name(api), "script": script})))
                }
                Err(p) => {
                    st.outcome("violation");
                    st.violate(idx, format!("c15:push:{}", p.fingerprint()), format!("{} {} api={}: {p:?}", fc.f.name, opts_json(o), api_name(api)), || case_json(fc, o, "push", json!({"api": api_name(api), "script": script})))
                }
            }
        }
    }
    for mi in [0usize, 3, 5, 14] {
        let mode = async_mode(mi);
        for pend in [vec![], vec![0usize], vec![1usize, 2]] {
            let r = catch(|| run_async(fc, o, mode, &pend, &want));
            tot.traces += 1;
            st.add("sweep-async", 1, nontrivial);
            match r {
                Ok(Ok(run)) => {
                    tot.transitions += run.polls as u64;
                    for (k, l, r) in &run.states {
                        tot.states.insert((*k, false, *l, pend.len() as u64, *r));
                    }
                    st.outcome(if want.is_empty() { "async/agree/no-rows" } else if want.len() == fc.f.nrows { "async/agree/all-rows" } else { "async/agree/some-rows" });
                }
                Ok(Err((fp, msg))) => {
                    st.outcome("violation");
                    st.violate(idx, fp, format!("{} {} mode={mode:?} pend={pend:?}: {msg}", fc.f.name, opts_json(o)), || case_json(fc, o, "async", json!({"mode": mode_json(mode), "pend": pend})))
                }
                Err(p) => {
                    st.outcome("violation");
                    st.violate(idx, format!("c15:async:{}", p.fingerprint()), format!("{} {} mode={mode:?}: {p:?}", fc.f.name, opts_json(o)), || case_json(fc, o, "async", json!({"mode": mode_json(mode), "pend": pend})))
                }
            }
        }
    }
}

pub fn replay(case: &Value) -> Result<(), String> {
    let f = &case["file"];
    let file = pqfile_from_json(f)?;
    let fc = FileCtx::new(file)?;
    let o = opts_from_json(&case["opts"]);
    let want = sync_rows(&fc, &o)?;
    println!("sync reader: {} rows", want.len());
    for r in &want {
        println!("  {r:?}");
    }
    let s = &case["schedule"];
    match case["front_end"].as_str().unwrap_or("") {
        "push" => {
            let script: Vec<(usize, usize)> = s["script"].as_array().map(|a| a.iter().map(|p| (p[0].as_u64().unwrap() as usize, p[1].as_u64().unwrap() as usize)).collect()).unwrap_or_default();
            let api = api_from(s["api"].as_str().unwrap_or(""));
            match run_push(&fc, &o, api, &script, &want, true) {
                Ok(run) => {
                    for t in &run.trace {
                        println!("  {t}");
                    }
                    println!("push decoder agrees ({} calls, {} pushes)", run.calls, run.pushes);
                    Ok(())
                }
                Err((fp, m)) => Err(format!("{fp}: {m}")),
            }
        }
        "async" => {
            let m = &s["mode"];
            let mode = AsyncMode {
                vectored: m["vectored"].as_bool().unwrap_or(false),
                metadata_up_front: m["metadata_up_front"].as_bool().unwrap_or(false),
                row_group_api: m["row_group_api"].as_bool().unwrap_or(false),
                spurious_poll: m["spurious_poll"].as_bool().unwrap_or(false),
            };
            let pend: Vec<usize> = s["pend"].as_array().map(|a| a.iter().map(|x| x.as_u64().unwrap() as usize).collect()).unwrap_or_default();
            run_async(&fc, &o, mode, &pend, &want).map(|r| println!("async stream agrees ({} polls, {} futures)", r.polls, r.futures)).map_err(|(fp, m)| format!("{fp}: {m}"))
        }
        _ => {
            let (exp, _, _) = fc.reference(&o);
            if exp == want { Ok(()) } else { Err("sync reader differs from the reference".into()) }
        }
    }
}

pub fn run(ctx: &Ctx) -> ! {
    if let Some(case) = vcore::load_replay(ctx) {
        println!("replay case: {case}");
        let r = catch(|| replay(&case));
        match &r {
            Ok(Ok(())) => println!("replay outcome: front end agrees with the sync reader"),
            Ok(Err(e)) => println!("replay outcome: MISMATCH {e}"),
            Err(p) => println!("replay outcome: PANIC {p:?}"),
        }
        std::process::exit(if matches!(r, Ok(Ok(()))) { 0 } else { 1 });
    }
    let mut st = Stats::new();
    let n = ctx.pick(8, 10);
    let sids: Vec<usize> = (0..6).collect();
    let files = crate::c06::build_files(n, &sids, &mut st);
    let sched_opts: Vec<Vec<Opts>> = files.iter().map(schedule_options).collect();
    let mut items: Vec<Item> = vec![];
    let push_bound = ctx.pick(2, 3);
    let async_bound = ctx.pick(2, 4);
    for (fi, fc) in files.iter().enumerate() {
        for oi in 0..sched_opts[fi].len() {
            for api in APIS {
                // the deepest bound on the multi-row-group layouts and the cooperative single-group ones
                let bound = if api == Api::ReaderDeferred && ctx.quick() { push_bound - 1 } else { push_bound };
                items.push(Item::PushDfs { file: fi, opt: oi, api, bound, count_from: 0 });
            }
            for mi in 0..ASYNC_MODES {
                items.push(Item::AsyncDfs { file: fi, opt: oi, mode: mi, bound: async_bound });
            }
        }
        let _ = fc;
    }
    // option sweep: every configuration within 1 deviation x small core, plus the full core on two files
    for (fi, fc) in files.iter().enumerate() {
        for (base, ndev) in configs(fc, ctx.pick(1, 2)) {
            let t = fc.chosen_rows(&base);
            let pats: Vec<Option<Vec<bool>>> = vec![None, Some((0..t).map(|i| i % 2 == 0).collect()), Some((0..t).map(|i| (i * 7 + 3) % 5 < 2).collect()), Some((0..t).map(|i| i != 0 && i + 1 != t).collect())];
            for (pi, p) in pats.iter().enumerate() {
                for (oli, (off, lim)) in [(None, None), (Some(1), None), (None, Some(2)), (Some(2), Some(3))].into_iter().enumerate() {
                    // 2-deviation configurations (thorough only) get a 2 x 2 core
                    if ndev == 2 && (pi % 2 == 0 || oli % 3 != 0) {
                        continue;
                    }
                    let mut o = base.clone();
                    o.sel = p.as_ref().map(|b| SelSpec { bits: b.clone(), pres: [PRES_MIN, PRES_MASK_OFF, PRES_TRIM, PRES_MASK][pi] });
                    o.offset = off;
                    o.limit = lim;
                    items.push(Item::Sweep { file: fi, opts: o });
                }
            }
        }
        if (fc.f.sid == 4 && fc.f.lid == 1) || (fc.f.sid == 5 && fc.f.lid == 5) {
            let t = fc.f.nrows;
            for k in 0..(1u32 << t) {
                let b: Vec<bool> = (0..t).map(|i| k >> i & 1 == 1).collect();
                for off in [None, Some(0), Some(1), Some(3), Some(t), Some(t + 1)] {
                    for lim in [None, Some(0), Some(1), Some(3), Some(t)] {
                        let pres = [PRES_MIN, PRES_MASK, PRES_TRIM, PRES_MASK_OFF][(k % 4) as usize];
                        items.push(Item::Sweep { file: fi, opts: Opts { sel: Some(SelSpec { bits: b.clone(), pres }), offset: off, limit: lim, ..Default::default() } });
                    }
                }
            }
        }
    }
    // thorough, last (a time cap cuts these first): the traces with exactly one more deviation on the
    // multi-row-group layouts, first option points, try_decode / try_next_reader
    if !ctx.quick() {
        for (fi, fc) in files.iter().enumerate() {
            if fc.f.layout.three_rg {
                for oi in 0..4 {
                    for api in [Api::Decode, Api::Reader] {
                        items.push(Item::PushDfs { file: fi, opt: oi, api, bound: push_bound + 1, count_from: push_bound + 1 });
                    }
                }
            }
        }
    }
    if ctx.has_flag("--reverse-items") {
        // developer aid: run the work list back to front (to exercise the tail under a small budget)
        items.reverse();
    }
    let n_items = items.len() as u64;
    let states_total = AtomicUsize::new(0);
    let ratio_max = Mutex::new(0f64);
    let res = par_for(ctx, "c15", n_items, 1, |idx, st| {
        let mut tot = DfsTotals { count_from: 0, traces: 0, transitions: 0, states: HashSet::new(), max_depth: 0, max_requested_ratio: 0.0 };
        match &items[idx as usize] {
            Item::PushDfs { file, opt, api, bound, count_from } => {
                tot.count_from = *count_from;
                let fc = &files[*file];
                let o = &sched_opts[*file][*opt];
                match catch(|| sync_rows(fc, o)) {
                    Ok(Ok(want)) => {
                        let mut viol = vec![];
                        dfs_push(fc, o, *api, &want, *bound, &mut vec![], 0, &mut tot, &mut viol);
                        let nontrivial = (!want.is_empty() && want.len() < fc.f.nrows) as u64;
                        st.add("push-schedule-dfs", tot.traces, tot.traces * nontrivial);
                        st.outcome_n(if want.is_empty() { "push/agree/no-rows" } else if want.len() == fc.f.nrows { "push/agree/all-rows" } else { "push/agree/some-rows" }, tot.traces - viol.len() as u64);
                        for ((fp, msg), script) in viol {
                            st.outcome("violation");
                            st.violate(idx, fp, format!("{} {} api={} script={script:?}: {msg}", fc.f.name, opts_json(o), api_name(*api)), || case_json(fc, o, "push", json!({"api": api_name(*api), "script": script})));
                        }
                        if idx == 0 {
                            st.sample("push-schedule-dfs", || case_json(fc, o, "push", json!({"api": api_name(*api), "bound": bound, "traces": tot.traces})));
                        }
                    }
                    Ok(Err(e)) => st.violate(idx, format!("c15:sync:error:{}", vcore::strip_digits(&e)), format!("{} {}: {e}", fc.f.name, opts_json(o)), || case_json(fc, o, "sync", json!(null))),
                    Err(p) => st.violate(idx, format!("c15:sync:{}", p.fingerprint()), format!("{p:?}"), || case_json(fc, o, "sync", json!(null))),
                }
            }
            Item::AsyncDfs { file, opt, mode, bound } => {
                let fc = &files[*file];
                let o = &sched_opts[*file][*opt];
                let mode = async_mode(*mode);
                if let Ok(Ok(want)) = catch(|| sync_rows(fc, o)) {
                    let mut viol = vec![];
                    dfs_async(fc, o, mode, &want, *bound, &mut vec![], 0, &mut tot, &mut viol);
                    let nontrivial = (!want.is_empty() && want.len() < fc.f.nrows) as u64;
                    st.add("async-schedule-dfs", tot.traces, tot.traces * nontrivial);
                    st.outcome_n(if want.is_empty() { "async/agree/no-rows" } else if want.len() == fc.f.nrows { "async/agree/all-rows" } else { "async/agree/some-rows" }, tot.traces - viol.len() as u64);
                    for ((fp, msg), pend) in viol {
                        st.outcome("violation");
                        st.violate(idx, fp, format!("{} {} mode={mode:?} pend={pend:?}: {msg}", fc.f.name, opts_json(o)), || case_json(fc, o, "async", json!({"mode": mode_json(mode), "pend": pend})));
                    }
                    if idx == 3 {
                        st.sample("async-schedule-dfs", || case_json(fc, o, "async", json!({"mode": mode_json(mode), "bound": bound, "traces": tot.traces})));
                    }
                }
            }
            Item::Sweep { file, opts } => {
                sweep(&files[*file], opts, idx, st, &mut tot, !ctx.quick());
                if idx == n_items - 1 {
                    st.sample("sweep", || case_json(&files[*file], opts, "all", json!(null)));
                }
            }
        }
        st.traces += tot.traces;
        st.transitions += tot.transitions;
        st.max_depth = st.max_depth.max(tot.max_depth);
        states_total.fetch_add(tot.states.len(), Ordering::Relaxed);
        let mut r = ratio_max.lock().unwrap();
        if tot.max_requested_ratio > *r {
            *r = tot.max_requested_ratio;
        }
    });
    st.merge(res);
    st.states = states_total.load(Ordering::Relaxed) as u64;
    st.extra.insert(
        "space".into(),
        json!({"files": files.len(), "rows_per_file": n, "work_items": n_items,
            "push": {"apis": ["try_decode", "try_next_reader", "try_next_reader-deferred-drain"], "deviation_bound": push_bound, "deviation_bound_note": "quick: 1 for deferred drain; thorough: additionally all traces with exactly 4 deviations for try_decode/try_next_reader on the 3-row-group layouts, option points 0..4 (scheduled last)", "pre_call_alternatives": ["nothing", "push whole file (first call)", "push first row group (first call)", "push last row group (first call)", "into_builder+build (boundary)", "into_builder+with_batch_size(2)+build (boundary)", "clear_all_ranges (boundary)", "switch API"],
                "answer_alternatives": ["exact", "reversed", "rotated", "push_range one by one", "every range twice", "first range only then call", "all but first then call", "nothing then call", "each range +-1 byte", "one enclosing range", "whole row groups", "whole file", "exact + next row group early", "exact then switch API"]},
            "async": {"modes": "vectored x metadata-up-front x next_row_group x spurious-poll (16)", "deviation_bound(pending gates)": async_bound},
            "schedule_option_points_per_file": "12 (17 for 3-row-group layouts)",
            "sweep": "every configuration within 1 deviation x 4 selections x 4 (offset,limit) pairs on all files (thorough: also every 2-deviation configuration x 2 selections x 2 pairs); full selection x offset x limit core on mix3/L1 and struct-with-list/L5; quick: each under 12 fixed push schedules and 12 fixed async schedules; thorough: each under every single-deviation push schedule (3 APIs) and every single pending gate (4 async modes)",
            "max_requested_bytes_over_file_len": *ratio_max.lock().unwrap(),
            "state_key": "(last result kind, is_at_row_group_boundary, row_groups_remaining, buffered_bytes, rows emitted) per work item, summed over work items"}),
    );
    vcore::finish(
        ctx,
        Level {
            category: "model_checking",
            rule: "every trace is one complete execution of the real front end under one environment schedule (script of <= bound deviations from the cooperative environment, discovered by stateless DFS); traces are distinct by construction (distinct scripts / option points); a trace is non-trivial when the expected output is a proper non-empty subset of the file's rows".into(),
            assumptions: vec![
                "environment deviations are bounded (quick 2, thorough 3) per trace".into(),
                "each requested range is supplied inside one pushed range (the non-coalescing buffer's documented requirement)".into(),
                "I/O futures return Pending at most once each".into(),
                "into_builder rebuilds keep every option except (optionally) the batch size".into(),
                "files and option points as in C06 (8/10-row files, 6 schemas x 6 layouts)".into(),
            ],
            exhaustive_space: "all environment schedules within the deviation bound over the listed alternative menus, for the listed files x option points x APIs / async modes".into(),
        },
        st,
    )
}
