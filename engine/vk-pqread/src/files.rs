//! Deterministic in-memory Parquet files (schemas x physical layouts) shared by C06 and C15, plus a
//! small logical-value extraction (`V`) used by every oracle.
use arrow_array::builder::{Int32Builder, ListBuilder};
use arrow_array::cast::AsArray;
use arrow_array::types::Int32Type;
use arrow_array::{Array, ArrayRef, Int32Array, RecordBatch, StringArray, StructArray};
use arrow_buffer::NullBuffer;
use arrow_schema::{DataType, Field, Fields, Schema, SchemaRef};
use bytes::Bytes;
use parquet::arrow::ArrowWriter;
use parquet::file::properties::{WriterProperties, WriterVersion};
use std::sync::Arc;

/// logical value of one cell
#[derive(Clone, PartialEq, Eq, Debug, Hash)]
pub enum V {
    Null,
    I(i32),
    S(String),
    L(Vec<V>),
    St(Vec<(String, V)>),
}

/// logical values of an array (one `V` per row); panics on types the generators never produce
pub fn col_values(a: &dyn Array) -> Vec<V> {
    let n = a.len();
    match a.data_type() {
        DataType::Int32 => {
            let p = a.as_primitive::<Int32Type>();
            (0..n).map(|i| if p.is_null(i) { V::Null } else { V::I(p.value(i)) }).collect()
        }
        DataType::Utf8 => {
            let s = a.as_string::<i32>();
            (0..n).map(|i| if s.is_null(i) { V::Null } else { V::S(s.value(i).to_string()) }).collect()
        }
        DataType::List(_) => {
            let l = a.as_list::<i32>();
            (0..n).map(|i| if l.is_null(i) { V::Null } else { V::L(col_values(l.value(i).as_ref())) }).collect()
        }
        DataType::Struct(fields) => {
            let s = a.as_struct();
            let kids: Vec<Vec<V>> = s.columns().iter().map(|c| col_values(c.as_ref())).collect();
            (0..n)
                .map(|i| {
                    if s.is_null(i) {
                        V::Null
                    } else {
                        V::St(fields.iter().enumerate().map(|(k, f)| (f.name().clone(), kids[k][i].clone())).collect())
                    }
                })
                .collect()
        }
        _ => {
            // every other (flat) type: the display form of the value, which is injective on the generated data
            let f = arrow_cast::display::ArrayFormatter::try_new(a, &arrow_cast::display::FormatOptions::default()).expect("formatter");
            (0..n).map(|i| if a.is_null(i) { V::Null } else { V::S(f.value(i).to_string()) }).collect()
        }
    }
}

/// rows of a batch: one Vec<V> (per top-level column) per row
pub fn batch_rows(b: &RecordBatch) -> Vec<Vec<V>> {
    let cols: Vec<Vec<V>> = b.columns().iter().map(|c| col_values(c.as_ref())).collect();
    (0..b.num_rows()).map(|i| cols.iter().map(|c| c[i].clone()).collect()).collect()
}

/// `validate_full` on every column of a batch; Err(text) on the first failure
pub fn validate_batch(b: &RecordBatch) -> Result<(), String> {
    for (i, c) in b.columns().iter().enumerate() {
        if c.len() != b.num_rows() {
            return Err(format!("column {i} has {} rows, batch {}", c.len(), b.num_rows()));
        }
        c.to_data().validate_full().map_err(|e| format!("column {i}: {e}"))?;
    }
    Ok(())
}

// ------------------------------------------------------------------------------------------------
// leaf-projection of schema and rows (reference side)

fn n_leaves(dt: &DataType) -> usize {
    match dt {
        DataType::List(f) => n_leaves(f.data_type()),
        DataType::Struct(fs) => fs.iter().map(|f| n_leaves(f.data_type())).sum(),
        _ => 1,
    }
}

/// Projects a field on a leaf mask (`leaf` is the running leaf counter). None when no leaf is kept.
fn project_field(f: &Field, mask: &[bool], leaf: &mut usize) -> Option<Field> {
    match f.data_type() {
        DataType::List(item) => {
            let it = project_field(item, mask, leaf)?;
            Some(Field::new(f.name(), DataType::List(Arc::new(it)), f.is_nullable()))
        }
        DataType::Struct(fs) => {
            let kept: Vec<Field> = fs.iter().filter_map(|c| project_field(c, mask, leaf)).collect();
            if kept.is_empty() { None } else { Some(Field::new(f.name(), DataType::Struct(Fields::from(kept)), f.is_nullable())) }
        }
        _ => {
            let keep = mask[*leaf];
            *leaf += 1;
            if keep { Some(f.clone()) } else { None }
        }
    }
}

fn project_value(f: &Field, v: &V, mask: &[bool], leaf: &mut usize) -> Option<V> {
    match f.data_type() {
        DataType::List(item) => {
            let start = *leaf;
            let kept = project_field(item, mask, leaf).is_some();
            if !kept {
                return None;
            }
            Some(match v {
                V::Null => V::Null,
                V::L(items) => V::L(
                    items
                        .iter()
                        .map(|x| {
                            let mut l = start;
                            project_value(item, x, mask, &mut l).unwrap()
                        })
                        .collect(),
                ),
                other => panic!("list value expected, got {other:?}"),
            })
        }
        DataType::Struct(fs) => {
            let start = *leaf;
            let any = fs.iter().filter_map(|c| project_field(c, mask, leaf)).count() > 0;
            if !any {
                return None;
            }
            Some(match v {
                V::Null => V::Null,
                V::St(kids) => {
                    let mut l = start;
                    let mut out = vec![];
                    for (c, (name, kv)) in fs.iter().zip(kids.iter()) {
                        if let Some(p) = project_value(c, kv, mask, &mut l) {
                            out.push((name.clone(), p));
                        }
                    }
                    V::St(out)
                }
                other => panic!("struct value expected, got {other:?}"),
            })
        }
        _ => {
            let keep = mask[*leaf];
            *leaf += 1;
            if keep { Some(v.clone()) } else { None }
        }
    }
}

/// expected arrow schema of a leaf projection (metadata ignored)
pub fn project_schema(schema: &Schema, mask: &[bool]) -> Schema {
    let mut leaf = 0;
    let fields: Vec<Field> = schema.fields().iter().filter_map(|f| project_field(f, mask, &mut leaf)).collect();
    Schema::new(fields)
}

/// projects one full row (one V per top-level column) on a leaf mask
pub fn project_row(schema: &Schema, row: &[V], mask: &[bool]) -> Vec<V> {
    let mut leaf = 0;
    schema.fields().iter().zip(row.iter()).filter_map(|(f, v)| project_value(f, v, mask, &mut leaf)).collect()
}

/// schema equality ignoring all metadata (names, types, nullability recursively)
pub fn same_schema(a: &Schema, b: &Schema) -> bool {
    fn same_field(a: &Field, b: &Field) -> bool {
        a.name() == b.name() && a.is_nullable() == b.is_nullable() && same_type(a.data_type(), b.data_type())
    }
    fn same_type(a: &DataType, b: &DataType) -> bool {
        match (a, b) {
            (DataType::List(x), DataType::List(y)) => same_field(x, y),
            (DataType::Struct(x), DataType::Struct(y)) => x.len() == y.len() && x.iter().zip(y.iter()).all(|(p, q)| same_field(p, q)),
            (x, y) => x == y,
        }
    }
    a.fields().len() == b.fields().len() && a.fields().iter().zip(b.fields().iter()).all(|(p, q)| same_field(p, q))
}

// ------------------------------------------------------------------------------------------------
// schemas and data: every non-null leaf value encodes the global row id

pub const SCHEMA_NAMES: [&str; 6] = ["int32", "utf8-nullable", "list-int32", "struct", "mix3", "struct-with-list"];

fn int_col(n: usize, base: i32, null_mod: Option<(usize, usize)>) -> Int32Array {
    (0..n).map(|i| if null_mod.is_some_and(|(m, r)| i % m == r) { None } else { Some(base + i as i32) }).collect()
}
fn str_col(n: usize, null_mod: Option<(usize, usize)>) -> StringArray {
    (0..n)
        .map(|i| {
            if null_mod.is_some_and(|(m, r)| i % m == r) {
                None
            } else {
                // variable lengths, including the empty string once (row 2 keeps identity by position only)
                Some(if i == 2 { String::new() } else { format!("s{}{}", i, "x".repeat(i % 4)) })
            }
        })
        .collect()
}
fn list_col(n: usize) -> ArrayRef {
    // row i: i%5==3 -> null list; i%5==1 -> empty list; else (i%3)+1 items [i*10+j], item null when (i+j)%4==2
    let mut b = ListBuilder::new(Int32Builder::new());
    for i in 0..n {
        match i % 5 {
            3 => b.append(false),
            1 => b.append(true),
            _ => {
                for j in 0..(i % 3) + 1 {
                    if (i + j) % 4 == 2 {
                        b.values().append_null();
                    } else {
                        b.values().append_value((i * 10 + j) as i32);
                    }
                }
                b.append(true);
            }
        }
    }
    Arc::new(b.finish())
}

/// full data of schema `sid` with `n` rows
pub fn make_batch(sid: usize, n: usize) -> RecordBatch {
    let cols: Vec<(&str, ArrayRef, bool)> = match sid {
        0 => vec![("a", Arc::new(int_col(n, 100, None)), false)],
        1 => vec![("s", Arc::new(str_col(n, Some((4, 1)))), true)],
        2 => vec![("l", list_col(n), true)],
        3 => {
            let x: ArrayRef = Arc::new(int_col(n, 200, Some((3, 2))));
            let y: ArrayRef = Arc::new(str_col(n, Some((5, 0))));
            let fields = Fields::from(vec![Field::new("x", DataType::Int32, true), Field::new("y", DataType::Utf8, true)]);
            let nulls = NullBuffer::from((0..n).map(|i| i % 4 != 3).collect::<Vec<bool>>());
            vec![("st", Arc::new(StructArray::new(fields, vec![x, y], Some(nulls))), true)]
        }
        4 => vec![("a", Arc::new(int_col(n, 100, None)), false), ("s", Arc::new(str_col(n, Some((4, 1)))), true), ("l", list_col(n), true)],
        5 => {
            let x: ArrayRef = Arc::new(int_col(n, 300, None));
            let l = list_col(n);
            let fields = Fields::from(vec![Field::new("x", DataType::Int32, false), Field::new("l", l.data_type().clone(), true)]);
            let nulls = NullBuffer::from((0..n).map(|i| i % 6 != 4).collect::<Vec<bool>>());
            vec![("id", Arc::new(int_col(n, 0, None)), false), ("st", Arc::new(StructArray::new(fields, vec![x, l], Some(nulls))), true)]
        }
        _ => unreachable!(),
    };
    let schema = Schema::new(cols.iter().map(|(n, a, nullable)| Field::new(*n, a.data_type().clone(), *nullable)).collect::<Vec<_>>());
    RecordBatch::try_new(Arc::new(schema), cols.into_iter().map(|c| c.1).collect()).unwrap()
}

#[derive(Clone, Copy, Debug)]
pub struct Layout {
    pub three_rg: bool,
    pub rows_per_page: usize, // 0 = one page per chunk
    pub offset_index: bool,
    pub dict: bool,
    pub v2: bool,
}
pub const LAYOUTS: [Layout; 6] = [
    Layout { three_rg: false, rows_per_page: 0, offset_index: true, dict: true, v2: false },
    Layout { three_rg: true, rows_per_page: 2, offset_index: true, dict: false, v2: false },
    Layout { three_rg: false, rows_per_page: 3, offset_index: true, dict: true, v2: true },
    Layout { three_rg: true, rows_per_page: 1, offset_index: false, dict: true, v2: true },
    Layout { three_rg: false, rows_per_page: 2, offset_index: false, dict: false, v2: false },
    Layout { three_rg: true, rows_per_page: 3, offset_index: true, dict: false, v2: true },
];

/// unequal row-group sizes for n rows (3 groups)
pub fn rg_split(n: usize) -> Vec<usize> {
    let a = (n * 3 / 10).max(1);
    let c = (n / 5).max(1);
    vec![a, n - a - c, c]
}

pub struct PqFile {
    pub name: String,
    pub sid: usize,
    pub lid: usize,
    pub layout: Layout,
    pub bytes: Bytes,
    pub nrows: usize,
    pub rg_sizes: Vec<usize>,
    pub schema: SchemaRef,
    pub nleaves: usize,
    /// the data that was written, as logical rows (the unrestricted read is compared to this once)
    pub written: Vec<Vec<V>>,
    /// Some for files of the type x encoding grid (then sid / lid are unused)
    pub grid: Option<GridSpec>,
}

pub fn make_file(sid: usize, lid: usize, n: usize) -> PqFile {
    let layout = LAYOUTS[lid];
    let batch = make_batch(sid, n);
    let mut pb = WriterProperties::builder()
        .set_writer_version(if layout.v2 { WriterVersion::PARQUET_2_0 } else { WriterVersion::PARQUET_1_0 })
        .set_dictionary_enabled(layout.dict)
        .set_offset_index_disabled(!layout.offset_index)
        .set_created_by("vk-pqread".into());
    if layout.rows_per_page > 0 {
        pb = pb.set_data_page_row_count_limit(layout.rows_per_page).set_write_batch_size(1);
    }
    let rg_sizes = if layout.three_rg { rg_split(n) } else { vec![n] };
    let mut out: Vec<u8> = vec![];
    let mut w = ArrowWriter::try_new(&mut out, batch.schema(), Some(pb.build())).unwrap();
    let mut at = 0;
    for &k in &rg_sizes {
        w.write(&batch.slice(at, k)).unwrap();
        w.flush().unwrap();
        at += k;
    }
    w.close().unwrap();
    let nleaves = batch.schema().fields().iter().map(|f| n_leaves(f.data_type())).sum();
    PqFile {
        name: format!("{}/L{}", SCHEMA_NAMES[sid], lid),
        sid,
        lid,
        layout,
        bytes: Bytes::from(out),
        nrows: n,
        rg_sizes,
        schema: batch.schema(),
        nleaves,
        written: batch_rows(&batch),
        grid: None,
    }
}

// ------------------------------------------------------------------------------------------------
// type x value-encoding grid: single flat column files, one per (arrow type, encoding, page version,
// nullability, page layout)

#[derive(Clone, Copy, Debug, PartialEq, Eq)]
pub struct GridSpec {
    pub ty: usize,
    pub enc: usize,
    pub v2: bool,
    pub nullable: bool,
    /// true: 3 rows per data page; false: all rows in one data page
    pub paged: bool,
}

pub const GRID_TYPES: [&str; 14] = [
    "Boolean",
    "Int32",
    "Int64",
    "Float32",
    "Float64",
    "Utf8",
    "Binary",
    "Utf8View",
    "FixedSizeBinary(3)",
    "Float16",
    "Decimal128(20,2)",
    "Decimal256(40,3)",
    "Interval(DayTime)",
    "Decimal128(10,2)",
];
/// parquet physical type of each grid type
pub const GRID_PHYS: [&str; 14] = ["BOOLEAN", "INT32", "INT64", "FLOAT", "DOUBLE", "BYTE_ARRAY", "BYTE_ARRAY", "BYTE_ARRAY", "FLBA", "FLBA", "FLBA", "FLBA", "FLBA", "INT64"];
pub const GRID_ENCS: [&str; 7] = ["PLAIN", "DICTIONARY", "DELTA_BINARY_PACKED", "DELTA_LENGTH_BYTE_ARRAY", "DELTA_BYTE_ARRAY", "BYTE_STREAM_SPLIT", "RLE"];

/// value encodings the Parquet format defines for the physical type of grid type `ty`
pub fn grid_encodings(ty: usize) -> Vec<usize> {
    match GRID_PHYS[ty] {
        "BOOLEAN" => vec![0, 6],
        "INT32" | "INT64" => vec![0, 1, 2, 5],
        "FLOAT" | "DOUBLE" => vec![0, 1, 5],
        "BYTE_ARRAY" => vec![0, 1, 3, 4],
        _ => vec![0, 1, 4, 5],
    }
}

fn grid_array(ty: usize, n: usize, nullable: bool) -> ArrayRef {
    use arrow_array::*;
    let null = |i: usize| nullable && i % 3 == 1;
    macro_rules! col {
        ($arr:ty, $f:expr) => {
            Arc::new((0..n).map(|i| if null(i) { None } else { Some($f(i)) }).collect::<$arr>()) as ArrayRef
        };
    }
    match ty {
        0 => col!(BooleanArray, |i: usize| i % 3 == 0 || i % 5 == 2),
        1 => col!(Int32Array, |i: usize| 1000 + 7 * i as i32 - if i % 2 == 0 { 2000 } else { 0 }),
        2 => col!(Int64Array, |i: usize| (1i64 << 40) + 13 * i as i64 - if i % 2 == 0 { 1i64 << 41 } else { 0 }),
        3 => col!(Float32Array, |i: usize| i as f32 * 1.5 - 3.25),
        4 => col!(Float64Array, |i: usize| i as f64 * 2.5e10 - 7.125),
        5 => col!(StringArray, |i: usize| if i == 2 { String::new() } else { format!("s{i}{}", "xy".repeat(i % 4)) }),
        6 => col!(BinaryArray, |i: usize| { let mut v = vec![i as u8; 1 + i % 3]; v.push(0xF0); v }),
        7 => Arc::new((0..n).map(|i| if null(i) { None } else { Some(if i % 2 == 0 { format!("v{i}") } else { format!("a-view-longer-than-twelve-bytes-{i}") }) }).collect::<StringViewArray>()),
        8 => Arc::new(FixedSizeBinaryArray::try_from_sparse_iter_with_size((0..n).map(|i| if null(i) { None } else { Some(vec![i as u8, 0xA0 + i as u8, 0x55 ^ (i as u8 * 3)]) }), 3).unwrap()),
        9 => col!(Float16Array, |i: usize| half::f16::from_f32(i as f32 * 0.5 - 1.25)),
        10 => Arc::new((0..n).map(|i| if null(i) { None } else { Some((i as i128 + 1) * 1_000_000_000_000_000_007 - if i % 2 == 0 { 3_000_000_000_000_000_000 } else { 0 }) }).collect::<Decimal128Array>().with_precision_and_scale(20, 2).unwrap()),
        11 => Arc::new(
            (0..n)
                .map(|i| if null(i) { None } else { Some(arrow_buffer::i256::from_i128((i as i128 + 1) * 1_000_000_000_000_000_000_000_000_007 - if i % 2 == 1 { 5_000_000_000_000_000_000_000_000_000 } else { 0 })) })
                .collect::<Decimal256Array>()
                .with_precision_and_scale(40, 3)
                .unwrap(),
        ),
        12 => col!(IntervalDayTimeArray, |i: usize| arrow_buffer::IntervalDayTime::new(i as i32 - 2, 1000 * i as i32 + 7)),
        13 => Arc::new((0..n).map(|i| if null(i) { None } else { Some(12345 + 1001 * i as i128 - if i % 2 == 0 { 50000 } else { 0 }) }).collect::<Decimal128Array>().with_precision_and_scale(10, 2).unwrap()),
        _ => unreachable!(),
    }
}

/// Writes one grid file. Err(reason) when the writer refuses the combination or did not use the encoding.
pub fn make_grid_file(spec: GridSpec, n: usize) -> Result<PqFile, String> {
    use parquet::basic::Encoding;
    let arr = grid_array(spec.ty, n, spec.nullable);
    let schema = Arc::new(Schema::new(vec![Field::new("c", arr.data_type().clone(), spec.nullable)]));
    let batch = RecordBatch::try_new(schema.clone(), vec![arr]).map_err(|e| e.to_string())?;
    let mut pb = WriterProperties::builder()
        .set_writer_version(if spec.v2 { WriterVersion::PARQUET_2_0 } else { WriterVersion::PARQUET_1_0 })
        .set_created_by("vk-pqread".into());
    let enc = match spec.enc {
        0 => Some(Encoding::PLAIN),
        1 => None,
        2 => Some(Encoding::DELTA_BINARY_PACKED),
        3 => Some(Encoding::DELTA_LENGTH_BYTE_ARRAY),
        4 => Some(Encoding::DELTA_BYTE_ARRAY),
        5 => Some(Encoding::BYTE_STREAM_SPLIT),
        _ => Some(Encoding::RLE),
    };
    pb = match enc {
        Some(e) => pb.set_dictionary_enabled(false).set_encoding(e),
        None => pb.set_dictionary_enabled(true),
    };
    if spec.paged {
        pb = pb.set_data_page_row_count_limit(3).set_write_batch_size(1);
    }
    let mut out: Vec<u8> = vec![];
    {
        let mut w = ArrowWriter::try_new(&mut out, schema.clone(), Some(pb.build())).map_err(|e| format!("writer: {e}"))?;
        w.write(&batch).map_err(|e| format!("write: {e}"))?;
        let md = w.close().map_err(|e| format!("close: {e}"))?;
        // the requested encoding must actually have been used for the data pages
        let used: Vec<Encoding> = md.row_group(0).column(0).encodings().collect();
        let ok = match enc {
            Some(e) => used.contains(&e),
            None => used.contains(&Encoding::RLE_DICTIONARY) || used.contains(&Encoding::PLAIN_DICTIONARY),
        };
        if !ok {
            return Err(format!("writer used {used:?} instead of the requested encoding"));
        }
    }
    let layout = Layout { three_rg: false, rows_per_page: if spec.paged { 3 } else { 0 }, offset_index: true, dict: spec.enc == 1, v2: spec.v2 };
    Ok(PqFile {
        name: format!("grid/{}/{}/{}/{}/{}", GRID_TYPES[spec.ty], GRID_ENCS[spec.enc], if spec.v2 { "v2" } else { "v1" }, if spec.nullable { "nullable" } else { "required" }, if spec.paged { "3-rows-per-page" } else { "one-page" }),
        sid: 0,
        lid: 0,
        layout,
        bytes: Bytes::from(out),
        nrows: n,
        rg_sizes: vec![n],
        schema,
        nleaves: 1,
        written: batch_rows(&batch),
        grid: Some(spec),
    })
}
