mod c06;
mod c15;
mod files;
mod opts;
mod probe;
#[path = "../repro/push_no_offset_index.rs"]
mod repro_push_no_offset_index;
fn main() {
    let ctx = vcore::Ctx::from_args();
    match ctx.prop.as_str() {
        "C06" => c06::run(&ctx),
        "C15" => c15::run(&ctx),
        "PROBE" => probe::run(),
        "REPRO-push-no-offset-index" => repro_push_no_offset_index::main(),
        other => {
            eprintln!("MACHINERY: vk-pqread does not serve property {other:?}");
            std::process::exit(2)
        }
    }
}
