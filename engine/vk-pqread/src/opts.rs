//! Reader option points shared by C06 / C15: how they are applied to any `ArrowReaderBuilder<T>`
//! (sync, async, push) and the in-memory reference semantics on `Vec<row>`.
use crate::files::*;
use arrow_array::{BooleanArray, RecordBatch};
use arrow_buffer::BooleanBuffer;
use arrow_schema::Schema;
use parquet::arrow::ProjectionMask;
use parquet::arrow::arrow_reader::{
    ArrowPredicate, ArrowPredicateFn, ArrowReaderBuilder, ArrowReaderMetadata, ArrowReaderOptions, ParquetRecordBatchReaderBuilder, RowFilter,
    RowSelection, RowSelectionPolicy, RowSelector,
};
use parquet::file::metadata::PageIndexPolicy;
use std::ops::Range;
use vcore::serde_json::{Value, json};

#[derive(Clone, Copy, Debug, PartialEq, Eq)]
pub enum PredKind {
    True,
    False,
    /// keeps a row when fnv(k, projected row) % 3 != 0
    Hash(u8),
    /// fnv % 3: 0 -> null, 1 -> false, 2 -> true
    NullHash(u8),
    /// rejects every row whose projected value equals that of one of the file rows `from..to` (used with a
    /// row group's row range: the predicate empties exactly that row group, plus rows elsewhere that carry
    /// the same projected value, e.g. nulls)
    RejectRows(usize, usize),
}

#[derive(Clone, Debug, PartialEq, Eq)]
pub struct Pred {
    pub kind: PredKind,
    pub leaves: Vec<usize>,
}

pub type RejectSet = std::collections::HashSet<String>;

/// `reject` is the value set of a `RejectRows` predicate (see `FileCtx::reject_set`)
pub fn pred_eval(kind: PredKind, row: &[V], reject: Option<&RejectSet>) -> Option<bool> {
    let h = |k: u8| vcore::fnv64(format!("{k}|{row:?}").as_bytes()) % 3;
    match kind {
        PredKind::RejectRows(..) => Some(!reject.expect("reject set").contains(&format!("{row:?}"))),
        PredKind::True => Some(true),
        PredKind::False => Some(false),
        PredKind::Hash(k) => Some(h(k) != 0),
        PredKind::NullHash(k) => match h(k) {
            0 => None,
            1 => Some(false),
            _ => Some(true),
        },
    }
}

/// selection presentations
pub const PRES_MIN: u8 = 0; // minimal alternating selectors, trailing skip kept
pub const PRES_TRIM: u8 = 1; // minimal selectors without the trailing skip
pub const PRES_MASK: u8 = 2; // BooleanBuffer, bit offset 0
pub const PRES_MASK_OFF: u8 = 3; // BooleanBuffer sliced at bit offset 3 of a larger buffer
pub const PRES_SPLIT: u8 = 4; // selectors with zero-length runs inserted and every run split (1 + rest, and at row-group boundaries)
pub const POLICY_NAMES: [&str; 5] = ["default", "Selectors", "Mask", "Auto{0}", "Auto{32}"];
pub const PRES_NAMES: [&str; 5] = ["selectors-minimal", "selectors-trimmed", "mask", "mask-bit-offset-3", "selectors-empty+split-runs"];

#[derive(Clone, Debug, PartialEq, Eq)]
pub struct SelSpec {
    pub bits: Vec<bool>,
    pub pres: u8,
}

#[derive(Clone, Debug, Default, PartialEq, Eq)]
pub struct Opts {
    pub proj: Option<Vec<usize>>,
    pub rgs: Option<Vec<usize>>,
    pub batch: Option<usize>,
    /// 0 = library default (setter not called), 1 Selectors, 2 Mask, 3 Auto{0}, 4 Auto{32}
    pub policy: u8,
    pub page_index: bool,
    pub preds: Vec<Pred>,
    pub cache0: bool,
    pub sel: Option<SelSpec>,
    pub offset: Option<usize>,
    pub limit: Option<usize>,
}

pub fn runs_of(bits: &[bool]) -> Vec<(bool, usize)> {
    let mut out: Vec<(bool, usize)> = vec![];
    for &b in bits {
        match out.last_mut() {
            Some((v, n)) if *v == b => *n += 1,
            _ => out.push((b, 1)),
        }
    }
    out
}

fn sel(b: bool, n: usize) -> RowSelector {
    if b { RowSelector::select(n) } else { RowSelector::skip(n) }
}

/// Builds a RowSelection denoting exactly the set bits of `bits` in presentation `pres`.
/// `cuts` are positions (row-group boundaries) at which PRES_SPLIT additionally splits runs.
pub fn build_selection(bits: &[bool], pres: u8, cuts: &[usize]) -> RowSelection {
    match pres {
        PRES_MIN => runs_of(bits).into_iter().map(|(b, n)| sel(b, n)).collect::<Vec<_>>().into(),
        PRES_TRIM => {
            let mut r = runs_of(bits);
            while r.last().is_some_and(|(b, _)| !*b) {
                r.pop();
            }
            r.into_iter().map(|(b, n)| sel(b, n)).collect::<Vec<_>>().into()
        }
        PRES_MASK => RowSelection::from_boolean_buffer(BooleanBuffer::from(bits.to_vec())),
        PRES_MASK_OFF => {
            let mut padded = vec![true, false, true];
            padded.extend_from_slice(bits);
            padded.extend_from_slice(&[true, true, false, true, true]);
            RowSelection::from_boolean_buffer(BooleanBuffer::from(padded).slice(3, bits.len()))
        }
        PRES_SPLIT => {
            let mut v: Vec<RowSelector> = vec![RowSelector::select(0), RowSelector::skip(0)];
            let mut pos = 0;
            for (b, n) in runs_of(bits) {
                // split the run [pos, pos+n) at pos+1 and at every cut inside it
                let mut points: Vec<usize> = vec![pos + 1];
                points.extend(cuts.iter().copied().filter(|c| *c > pos && *c < pos + n));
                points.push(pos + n);
                points.sort();
                points.dedup();
                let mut at = pos;
                for p in points {
                    if p > at && p <= pos + n {
                        v.push(sel(b, p - at));
                        v.push(sel(!b, 0));
                        at = p;
                    }
                }
                pos += n;
            }
            v.into()
        }
        _ => unreachable!(),
    }
}

fn policy_of(p: u8) -> Option<RowSelectionPolicy> {
    match p {
        0 => None,
        1 => Some(RowSelectionPolicy::Selectors),
        2 => Some(RowSelectionPolicy::Mask),
        3 => Some(RowSelectionPolicy::Auto { threshold: 0 }),
        _ => Some(RowSelectionPolicy::Auto { threshold: 32 }),
    }
}

fn make_predicate(schema_descr: &parquet::schema::types::SchemaDescriptor, p: &Pred, reject: Option<RejectSet>) -> Box<dyn ArrowPredicate> {
    let kind = p.kind;
    let mask = ProjectionMask::leaves(schema_descr, p.leaves.iter().copied());
    Box::new(ArrowPredicateFn::new(mask, move |batch: RecordBatch| {
        let rows = batch_rows(&batch);
        Ok(rows.iter().map(|r| pred_eval(kind, r, reject.as_ref())).collect::<BooleanArray>())
    }))
}

/// A file plus everything precomputed once per check run.
pub struct FileCtx {
    pub f: PqFile,
    pub meta_skip: ArrowReaderMetadata,
    pub meta_pi: ArrowReaderMetadata,
    /// unrestricted read of the file (all columns, all rows, default options)
    pub full: Vec<Vec<V>>,
    /// row range of each row group in file order
    pub rg_rows: Vec<Range<usize>>,
}

impl FileCtx {
    pub fn new(f: PqFile) -> Result<FileCtx, String> {
        let meta_skip = ArrowReaderMetadata::load(&f.bytes, ArrowReaderOptions::new().with_page_index_policy(PageIndexPolicy::Skip)).map_err(|e| e.to_string())?;
        let meta_pi = ArrowReaderMetadata::load(&f.bytes, ArrowReaderOptions::new().with_page_index_policy(PageIndexPolicy::Optional)).map_err(|e| e.to_string())?;
        let r = ParquetRecordBatchReaderBuilder::try_new(f.bytes.clone()).map_err(|e| e.to_string())?.build().map_err(|e| e.to_string())?;
        let mut full = vec![];
        for b in r {
            let b = b.map_err(|e| e.to_string())?;
            validate_batch(&b)?;
            full.extend(batch_rows(&b));
        }
        let mut rg_rows = vec![];
        let mut at = 0;
        for &k in &f.rg_sizes {
            rg_rows.push(at..at + k);
            at += k;
        }
        let md = meta_skip.metadata();
        if md.num_row_groups() != f.rg_sizes.len() || (0..md.num_row_groups()).any(|i| md.row_group(i).num_rows() as usize != f.rg_sizes[i]) {
            return Err(format!("{}: row group layout differs from what was requested", f.name));
        }
        Ok(FileCtx { f, meta_skip, meta_pi, full, rg_rows })
    }

    /// value set of a `RejectRows` predicate: the projected values of the file rows it names
    pub fn reject_set(&self, p: &Pred) -> Option<RejectSet> {
        match p.kind {
            PredKind::RejectRows(from, to) => {
                let m = self.leaf_mask(Some(&p.leaves));
                Some(self.full[from.min(self.full.len())..to.min(self.full.len())].iter().map(|r| format!("{:?}", project_row(self.f.schema.as_ref(), r, &m))).collect())
            }
            _ => None,
        }
    }

    pub fn meta(&self, o: &Opts) -> &ArrowReaderMetadata {
        if o.page_index { &self.meta_pi } else { &self.meta_skip }
    }

    pub fn rg_list(&self, o: &Opts) -> Vec<usize> {
        o.rgs.clone().unwrap_or_else(|| (0..self.f.rg_sizes.len()).collect())
    }

    /// number of rows of the chosen row groups
    pub fn chosen_rows(&self, o: &Opts) -> usize {
        self.rg_list(o).iter().map(|&g| self.f.rg_sizes[g]).sum()
    }

    /// row-group boundaries (positions) inside the chosen rows
    pub fn cuts(&self, o: &Opts) -> Vec<usize> {
        let mut at = 0;
        let mut v = vec![];
        for g in self.rg_list(o) {
            at += self.f.rg_sizes[g];
            v.push(at);
        }
        v.pop();
        v
    }

    pub fn leaf_mask(&self, leaves: Option<&Vec<usize>>) -> Vec<bool> {
        match leaves {
            None => vec![true; self.f.nleaves],
            Some(l) => (0..self.f.nleaves).map(|i| l.contains(&i)).collect(),
        }
    }

    /// applies `o` to any reader builder (sync / async / push)
    pub fn apply<T>(&self, mut b: ArrowReaderBuilder<T>, o: &Opts) -> ArrowReaderBuilder<T> {
        if let Some(p) = &o.proj {
            let m = ProjectionMask::leaves(b.parquet_schema(), p.iter().copied());
            b = b.with_projection(m);
        }
        if let Some(r) = &o.rgs {
            b = b.with_row_groups(r.clone());
        }
        if let Some(n) = o.batch {
            b = b.with_batch_size(n);
        }
        if let Some(p) = policy_of(o.policy) {
            b = b.with_row_selection_policy(p);
        }
        if !o.preds.is_empty() {
            let preds: Vec<Box<dyn ArrowPredicate>> = o.preds.iter().map(|p| make_predicate(b.parquet_schema(), p, self.reject_set(p))).collect();
            b = b.with_row_filter(RowFilter::new(preds));
        }
        if o.cache0 {
            b = b.with_max_predicate_cache_size(0);
        }
        if let Some(s) = &o.sel {
            b = b.with_row_selection(build_selection(&s.bits, s.pres, &self.cuts(o)));
        }
        if let Some(n) = o.offset {
            b = b.with_offset(n);
        }
        if let Some(n) = o.limit {
            b = b.with_limit(n);
        }
        b
    }

    /// Reference semantics on Vec<row>: row-group choice -> selection -> predicates in order -> offset
    /// -> limit -> projection. Returns (rows, projected schema, effective batch size bound).
    pub fn reference(&self, o: &Opts) -> (Vec<Vec<V>>, Schema, usize) {
        let schema = self.f.schema.as_ref();
        let mut rows: Vec<&Vec<V>> = vec![];
        for g in self.rg_list(o) {
            rows.extend(self.full[self.rg_rows[g].clone()].iter());
        }
        if let Some(s) = &o.sel {
            rows = rows.into_iter().enumerate().filter(|(i, _)| s.bits.get(*i).copied().unwrap_or(false)).map(|(_, r)| r).collect();
        }
        for p in &o.preds {
            let m = self.leaf_mask(Some(&p.leaves));
            let rs = self.reject_set(p);
            rows.retain(|r| pred_eval(p.kind, &project_row(schema, r, &m), rs.as_ref()) == Some(true));
        }
        if let Some(n) = o.offset {
            rows = rows.into_iter().skip(n).collect();
        }
        if let Some(n) = o.limit {
            rows.truncate(n);
        }
        let m = self.leaf_mask(o.proj.as_ref());
        let out = rows.into_iter().map(|r| project_row(schema, r, &m)).collect();
        let bs = o.batch.unwrap_or(1024).min(self.f.nrows);
        (out, project_schema(schema, &m), bs)
    }
}

// ------------------------------------------------------------------------------------------------
// JSON (replay descriptors)

fn pred_json(p: &Pred) -> Value {
    if let PredKind::RejectRows(from, to) = p.kind {
        return json!({"kind": "reject-rows", "from": from, "to": to, "leaves": p.leaves});
    }
    let (k, n) = match p.kind {
        PredKind::RejectRows(..) => unreachable!(),
        PredKind::True => ("true", 0),
        PredKind::False => ("false", 0),
        PredKind::Hash(k) => ("hash", k),
        PredKind::NullHash(k) => ("nullhash", k),
    };
    json!({"kind": k, "k": n, "leaves": p.leaves})
}

pub fn opts_json(o: &Opts) -> Value {
    json!({
        "projection_leaves": o.proj,
        "row_groups": o.rgs,
        "batch_size": o.batch,
        "policy": POLICY_NAMES[o.policy as usize],
        "page_index": o.page_index,
        "predicates": o.preds.iter().map(pred_json).collect::<Vec<_>>(),
        "max_predicate_cache_size_0": o.cache0,
        "selection": o.sel.as_ref().map(|s| json!({"bits": s.bits.iter().map(|b| if *b { '1' } else { '0' }).collect::<String>(), "presentation": PRES_NAMES[s.pres as usize]})),
        "offset": o.offset,
        "limit": o.limit,
    })
}

fn usize_list(v: &Value) -> Option<Vec<usize>> {
    v.as_array().map(|a| a.iter().map(|x| x.as_u64().unwrap() as usize).collect())
}

pub fn opts_from_json(v: &Value) -> Opts {
    let preds = v["predicates"]
        .as_array()
        .map(|a| {
            a.iter()
                .map(|p| {
                    let k = p["k"].as_u64().unwrap_or(0) as u8;
                    let kind = match p["kind"].as_str().unwrap() {
                        "true" => PredKind::True,
                        "false" => PredKind::False,
                        "hash" => PredKind::Hash(k),
                        "reject-rows" => PredKind::RejectRows(p["from"].as_u64().unwrap() as usize, p["to"].as_u64().unwrap() as usize),
                        _ => PredKind::NullHash(k),
                    };
                    Pred { kind, leaves: usize_list(&p["leaves"]).unwrap_or_default() }
                })
                .collect()
        })
        .unwrap_or_default();
    let sel = if v["selection"].is_null() {
        None
    } else {
        let s = &v["selection"];
        let bits = s["bits"].as_str().unwrap().chars().map(|c| c == '1').collect();
        let pres = PRES_NAMES.iter().position(|n| Some(*n) == s["presentation"].as_str()).unwrap() as u8;
        Some(SelSpec { bits, pres })
    };
    Opts {
        proj: usize_list(&v["projection_leaves"]),
        rgs: usize_list(&v["row_groups"]),
        batch: v["batch_size"].as_u64().map(|x| x as usize),
        policy: POLICY_NAMES.iter().position(|n| Some(*n) == v["policy"].as_str()).unwrap_or(0) as u8,
        page_index: v["page_index"].as_bool().unwrap_or(false),
        preds,
        cache0: v["max_predicate_cache_size_0"].as_bool().unwrap_or(false),
        sel,
        offset: v["offset"].as_u64().map(|x| x as usize),
        limit: v["limit"].as_u64().map(|x| x as usize),
    }
}

pub fn file_json(f: &PqFile) -> Value {
    if let Some(g) = &f.grid {
        return json!({"grid": {"ty": g.ty, "enc": g.enc, "v2": g.v2, "nullable": g.nullable, "paged": g.paged}, "name": f.name, "rows": f.nrows});
    }
    json!({"schema": SCHEMA_NAMES[f.sid], "sid": f.sid, "layout": f.lid, "rows": f.nrows, "row_groups": f.rg_sizes, "layout_detail": format!("{:?}", f.layout)})
}

/// rebuilds the file a replay descriptor (`file_json`) names
pub fn pqfile_from_json(f: &Value) -> Result<PqFile, String> {
    let n = f["rows"].as_u64().unwrap_or(8) as usize;
    if !f["grid"].is_null() {
        let g = &f["grid"];
        let spec = GridSpec {
            ty: g["ty"].as_u64().unwrap() as usize,
            enc: g["enc"].as_u64().unwrap() as usize,
            v2: g["v2"].as_bool().unwrap(),
            nullable: g["nullable"].as_bool().unwrap(),
            paged: g["paged"].as_bool().unwrap(),
        };
        return make_grid_file(spec, n);
    }
    Ok(make_file(f["sid"].as_u64().unwrap() as usize, f["layout"].as_u64().unwrap() as usize, n))
}

// ------------------------------------------------------------------------------------------------
// deviation-bounded option configurations

/// one value of one non-core dimension
#[derive(Clone, Debug)]
pub enum Dev {
    Proj(Vec<usize>),
    Rgs(Vec<usize>),
    Batch(usize),
    Policy(u8),
    PageIndex,
    Preds(Vec<Pred>),
    Cache0,
}

impl Dev {
    pub fn dim(&self) -> u8 {
        match self {
            Dev::Proj(_) => 0,
            Dev::Rgs(_) => 1,
            Dev::Batch(_) => 2,
            Dev::Policy(_) => 3,
            Dev::PageIndex => 4,
            Dev::Preds(_) => 5,
            Dev::Cache0 => 6,
        }
    }
    pub fn apply(&self, o: &mut Opts) {
        match self {
            Dev::Proj(p) => o.proj = Some(p.clone()),
            Dev::Rgs(r) => o.rgs = Some(r.clone()),
            Dev::Batch(b) => o.batch = Some(*b),
            Dev::Policy(p) => o.policy = *p,
            Dev::PageIndex => o.page_index = true,
            Dev::Preds(p) => o.preds = p.clone(),
            Dev::Cache0 => o.cache0 = true,
        }
    }
}

/// all single deviations for a file
pub fn deviations(fc: &FileCtx) -> Vec<Dev> {
    let nl = fc.f.nleaves;
    let nrg = fc.f.rg_sizes.len();
    let mut v = vec![];
    // projection: every proper subset of the leaves (incl. empty)
    for m in 0..(1usize << nl) - 1 {
        v.push(Dev::Proj((0..nl).filter(|i| m >> i & 1 == 1).collect()));
    }
    // row groups: every subset in file order (incl. empty and the explicit full list), plus two non-ascending orders
    for m in 0..(1usize << nrg) {
        v.push(Dev::Rgs((0..nrg).filter(|i| m >> i & 1 == 1).collect()));
    }
    if nrg == 3 {
        v.push(Dev::Rgs(vec![2, 0]));
        v.push(Dev::Rgs(vec![1, 2, 0]));
    }
    for b in [1, 2, 3] {
        v.push(Dev::Batch(b));
    }
    for p in [1, 2, 3] {
        v.push(Dev::Policy(p));
    }
    v.push(Dev::PageIndex);
    let a = vec![0usize];
    let b = vec![nl - 1];
    let ab: Vec<usize> = if nl > 1 { vec![0, nl - 1] } else { vec![0] };
    let all: Vec<usize> = (0..nl).collect();
    let p = |kind, leaves: &Vec<usize>| Pred { kind, leaves: leaves.clone() };
    v.push(Dev::Preds(vec![p(PredKind::True, &a)]));
    v.push(Dev::Preds(vec![p(PredKind::False, &a)]));
    v.push(Dev::Preds(vec![p(PredKind::Hash(1), &a)]));
    v.push(Dev::Preds(vec![p(PredKind::Hash(1), &b)]));
    v.push(Dev::Preds(vec![p(PredKind::Hash(1), &a), p(PredKind::Hash(2), &b)]));
    v.push(Dev::Preds(vec![p(PredKind::NullHash(1), &a)]));
    v.push(Dev::Preds(vec![p(PredKind::Hash(3), &b), p(PredKind::NullHash(2), &a)]));
    v.push(Dev::Preds(vec![p(PredKind::Hash(4), &ab)]));
    v.push(Dev::Preds(vec![p(PredKind::Hash(5), &all), p(PredKind::True, &b), p(PredKind::Hash(6), &a)]));
    v.push(Dev::Cache0);
    v
}

/// all option configurations within `max_dev` deviations (distinct dimensions), core fields unset
pub fn configs(fc: &FileCtx, max_dev: usize) -> Vec<(Opts, usize)> {
    let devs = deviations(fc);
    let mut out = vec![(Opts::default(), 0)];
    if max_dev >= 1 {
        for d in &devs {
            let mut o = Opts::default();
            d.apply(&mut o);
            out.push((o, 1));
        }
    }
    if max_dev >= 2 {
        for i in 0..devs.len() {
            for j in i + 1..devs.len() {
                if devs[i].dim() == devs[j].dim() {
                    continue;
                }
                let mut o = Opts::default();
                devs[i].apply(&mut o);
                devs[j].apply(&mut o);
                out.push((o, 2));
            }
        }
    }
    if max_dev >= 3 {
        for i in 0..devs.len() {
            for j in i + 1..devs.len() {
                for k in j + 1..devs.len() {
                    let (a, b, c) = (devs[i].dim(), devs[j].dim(), devs[k].dim());
                    if a == b || b == c || a == c {
                        continue;
                    }
                    let mut o = Opts::default();
                    devs[i].apply(&mut o);
                    devs[j].apply(&mut o);
                    devs[k].apply(&mut o);
                    out.push((o, 3));
                }
            }
        }
    }
    out
}
