use crate::files::*;
use arrow_array::RecordBatchReader;
use parquet::arrow::ProjectionMask;
use parquet::arrow::arrow_reader::{ArrowReaderMetadata, ArrowReaderOptions, ParquetRecordBatchReaderBuilder};
use parquet::file::metadata::PageIndexPolicy;

pub fn run() {
    for sid in 0..6 {
        for lid in 0..6 {
            let f = make_file(sid, lid, 10);
            let meta = ArrowReaderMetadata::load(&f.bytes, ArrowReaderOptions::new().with_page_index_policy(PageIndexPolicy::Optional)).unwrap();
            let md = meta.metadata();
            let mut pages = vec![];
            for rg in 0..md.num_row_groups() {
                for c in 0..md.row_group(rg).num_columns() {
                    let n = md.page_index().and_then(|pi| pi.page_locations(rg, c)).map(|l| l.len());
                    pages.push(n);
                }
            }
            println!("{} bytes={} rgs={:?} leaves={} pages={:?}", f.name, f.bytes.len(), f.rg_sizes, f.nleaves, pages);
            let r = ParquetRecordBatchReaderBuilder::new_with_metadata(f.bytes.clone(), meta.clone()).build().unwrap();
            let mut rows = vec![];
            for b in r {
                let b = b.unwrap();
                validate_batch(&b).unwrap();
                rows.extend(batch_rows(&b));
            }
            assert_eq!(rows, f.written, "{}", f.name);
            if lid == 1 {
                // empty projection
                let b = ParquetRecordBatchReaderBuilder::new_with_metadata(f.bytes.clone(), meta.clone());
                let pm = ProjectionMask::leaves(b.parquet_schema(), []);
                let r = b.with_projection(pm).with_batch_size(4).build().unwrap();
                println!("  empty projection schema={:?}", r.schema());
                for b in r {
                    let b = b.unwrap();
                    println!("  empty projection batch rows={} cols={}", b.num_rows(), b.num_columns());
                }
                let b = ParquetRecordBatchReaderBuilder::new_with_metadata(f.bytes.clone(), meta.clone());
                let r = b.with_row_groups(vec![2, 0]).build().unwrap();
                let mut rows = vec![];
                for b in r {
                    rows.extend(batch_rows(&b.unwrap()));
                }
                println!("  rgs [2,0]: {} rows first={:?}", rows.len(), rows.first());
            }
        }
    }
}
