//! C07 candidate F6: variable-length BYTE_ARRAY decimals of different lengths compare wrongly in
//! compare_greater_byte_array_decimals -> chunk statistics min > max.
use parquet::data_type::{ByteArray, ByteArrayType};
use parquet::file::properties::WriterProperties;
use parquet::file::reader::{FileReader, SerializedFileReader};
use parquet::file::writer::SerializedFileWriter;
use parquet::schema::parser::parse_message_type;
use std::sync::Arc;
fn main() {
    let schema = Arc::new(parse_message_type("message m { required binary c (DECIMAL(20,2)); }").unwrap());
    let mut buf = Vec::new();
    let mut w = SerializedFileWriter::new(&mut buf, schema, Arc::new(WriterProperties::builder().build())).unwrap();
    let mut rg = w.next_row_group().unwrap();
    let mut c = rg.next_column().unwrap().unwrap();
    // 5 encoded in three bytes, 4 encoded in two bytes
    let vals = vec![ByteArray::from(vec![0u8, 0, 5]), ByteArray::from(vec![0u8, 4])];
    c.typed::<ByteArrayType>().write_batch(&vals, None, None).unwrap();
    c.close().unwrap();
    rg.close().unwrap();
    w.close().unwrap();
    let r = SerializedFileReader::new(bytes::Bytes::from(buf)).unwrap();
    let s = r.metadata().row_group(0).column(0).statistics().unwrap().clone();
    println!("values 5=[00,00,05], 4=[00,04]: min={:02x?} max={:02x?}", s.min_bytes_opt().unwrap(), s.max_bytes_opt().unwrap());
}
