//! C05 finding: with content-defined chunking enabled, ArrowWriter panics ("length overflow" in
//! ScalarBuffer::slice / "the length + offset of the sliced BooleanBuffer cannot exceed the existing
//! length") for a valid ListView column whose child ranges are not in row order (here: rows stored in
//! reverse order after an unused leading child element). Without CDC the same batch round-trips.
use arrow_array::{Array, ArrayRef, Int32Array, ListViewArray, RecordBatch};
use arrow_buffer::ScalarBuffer;
use arrow_schema::{DataType, Field};
use parquet::arrow::ArrowWriter;
use parquet::file::properties::{CdcOptions, WriterProperties};
use std::sync::Arc;
fn main() {
    // child: [77, null, 0, null, 0]; row 0 = child[3..5], row 1 = child[1..3]
    let child: ArrayRef = Arc::new(Int32Array::from(vec![Some(77), None, Some(0), None, Some(0)]));
    let field = Arc::new(Field::new("item", DataType::Int32, true));
    let lv = ListViewArray::try_new(field, ScalarBuffer::from(vec![3i32, 1]), ScalarBuffer::from(vec![2i32, 2]), child, None).unwrap();
    lv.to_data().validate_full().unwrap();
    let col: ArrayRef = Arc::new(lv);
    let batch = RecordBatch::try_from_iter_with_nullable([("c0", col, true)]).unwrap();
    for cdc in [false, true] {
        let mut b = WriterProperties::builder();
        if cdc {
            b = b.set_content_defined_chunking(Some(CdcOptions { min_chunk_size: 1, max_chunk_size: 40, norm_level: 0 }));
        }
        let mut buf = Vec::new();
        let mut w = ArrowWriter::try_new(&mut buf, batch.schema(), Some(b.build())).unwrap();
        let r = std::panic::catch_unwind(std::panic::AssertUnwindSafe(|| w.write(&batch).and_then(|_| w.close().map(|_| ()))));
        println!("cdc={cdc}: {}", match r { Ok(r) => format!("{r:?}"), Err(_) => "PANIC".into() });
    }
}
