//! C05 finding: ArrowWriter panics ("RLE value encoder is not initialized") when a Boolean column
//! is written with writer version 2.0 (fallback encoding RLE) and content-defined chunking whose
//! chunker emits a page break before any value reached the RLE encoder.
use arrow_array::{ArrayRef, BooleanArray, RecordBatch};
use parquet::arrow::ArrowWriter;
use parquet::file::properties::{CdcOptions, WriterProperties, WriterVersion};
use std::sync::Arc;
fn main() {
    let col: ArrayRef = Arc::new(BooleanArray::from(vec![Some(true)]));
    let batch = RecordBatch::try_from_iter_with_nullable([("c0", col, true)]).unwrap();
    let props = WriterProperties::builder()
        .set_writer_version(WriterVersion::PARQUET_2_0)
        .set_content_defined_chunking(Some(CdcOptions { min_chunk_size: 1, max_chunk_size: 2, norm_level: -1 }))
        .build();
    let mut buf = Vec::new();
    let mut w = ArrowWriter::try_new(&mut buf, batch.schema(), Some(props)).unwrap();
    let r = std::panic::catch_unwind(std::panic::AssertUnwindSafe(|| w.write(&batch).and_then(|_| w.close().map(|_| ()))));
    println!("result: {r:?}");
}
