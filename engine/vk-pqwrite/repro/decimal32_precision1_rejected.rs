//! C05 finding: a Decimal32 column with precision 1 is accepted by ArrowWriter::try_new (schema
//! conversion maps precision 1 to INT64 because the INT32 arm requires `precision > 1`) but every
//! write() fails with "Cannot coerce Decimal32(1, 0) to I64".
use arrow_array::{ArrayRef, Decimal32Array, RecordBatch};
use parquet::arrow::ArrowWriter;
use std::sync::Arc;
fn main() {
    let col: ArrayRef = Arc::new(Decimal32Array::from(vec![Some(0)]).with_precision_and_scale(1, 0).unwrap());
    let batch = RecordBatch::try_from_iter([("c0", col)]).unwrap();
    let mut buf = Vec::new();
    let mut w = ArrowWriter::try_new(&mut buf, batch.schema(), None).unwrap();
    println!("write: {:?}", w.write(&batch));
}
