//! Finding (C05/C07): a Dictionary<_, FixedSizeBinary(n)> column is routed to the byte-array column
//! writer, which PLAIN-encodes values *with a 4-byte length prefix* (BYTE_ARRAY layout) into a column
//! whose physical type is FIXED_LEN_BYTE_ARRAY(n). The file is not valid Parquet for that column:
//! the low-level column reader decodes the length prefix as data, and the statistics do not bound
//! the decoded values.
use arrow_array::{ArrayRef, DictionaryArray, FixedSizeBinaryArray, Int8Array, RecordBatch};
use bytes::Bytes;
use parquet::arrow::ArrowWriter;
use parquet::arrow::arrow_reader::ParquetRecordBatchReaderBuilder;
use parquet::column::reader::get_typed_column_reader;
use parquet::data_type::FixedLenByteArrayType;
use parquet::file::properties::WriterProperties;
use parquet::file::reader::{FileReader, SerializedFileReader};
use std::sync::Arc;
fn run(dict_enabled: bool) {
    let values = FixedSizeBinaryArray::try_from_iter(vec![vec![0xffu8, 0xff, 0xff], vec![1, 2, 3]].into_iter()).unwrap();
    let col: ArrayRef = Arc::new(DictionaryArray::new(Int8Array::from(vec![0, 1, 0]), Arc::new(values)));
    let batch = RecordBatch::try_from_iter([("c", col)]).unwrap();
    let mut buf = Vec::new();
    let props = WriterProperties::builder().set_dictionary_enabled(dict_enabled).build();
    let mut w = ArrowWriter::try_new(&mut buf, batch.schema(), Some(props)).unwrap();
    w.write(&batch).unwrap();
    w.close().unwrap();
    let bytes = Bytes::from(buf);
    println!("--- dictionary_enabled={dict_enabled}");
    let fr = SerializedFileReader::new(bytes.clone()).unwrap();
    let cm = fr.metadata().row_group(0).column(0).clone();
    println!("physical type {:?} type_length {} statistics {:?}", cm.column_type(), cm.column_descr().type_length(), cm.statistics());
    let r = std::panic::catch_unwind(std::panic::AssertUnwindSafe(|| {
        let mut cr = get_typed_column_reader::<FixedLenByteArrayType>(fr.get_row_group(0).unwrap().get_column_reader(0).unwrap());
        let mut vals = vec![];
        let res = cr.read_records(10, None, None, &mut vals);
        println!("low-level FLBA column reader: {res:?} values {:02x?}", vals.iter().map(|v| v.data().to_vec()).collect::<Vec<_>>());
    }));
    if r.is_err() {
        println!("low-level column reader panicked");
    }
    let r = std::panic::catch_unwind(std::panic::AssertUnwindSafe(|| {
        let rd = ParquetRecordBatchReaderBuilder::try_new(bytes.clone()).unwrap().build().unwrap();
        for b in rd {
            println!("arrow reader: {:?}", b.map(|b| b.column(0).clone()));
        }
    }));
    if r.is_err() {
        println!("arrow reader panicked");
    }
}
fn main() {
    run(true);
    run(false);
}
