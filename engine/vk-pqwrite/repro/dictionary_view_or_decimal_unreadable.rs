//! C05 finding: ArrowWriter accepts Dictionary<_, Utf8View> (explicit arm in
//! get_arrow_column_writer) and Dictionary<_, Decimal128>, writes the file and embeds the Arrow schema,
//! but ParquetRecordBatchReaderBuilder::build() on that file fails with
//! "unsupported data type for byte array dictionary reader" (Decimal128 values); for Utf8View /
//! BinaryView values ArrowWriter::write panics at byte_array.rs downcast_op ("cannot downcast Utf8View
//! dictionary value to byte array") although the column-writer factory routes these types there.
use arrow_array::{ArrayRef, Decimal128Array, DictionaryArray, Int32Array, RecordBatch, StringViewArray};
use bytes::Bytes;
use parquet::arrow::ArrowWriter;
use parquet::arrow::arrow_reader::ParquetRecordBatchReaderBuilder;
use std::sync::Arc;
fn roundtrip(col: ArrayRef) {
    let batch = RecordBatch::try_from_iter([("c0", col)]).unwrap();
    let mut buf = Vec::new();
    let mut w = ArrowWriter::try_new(&mut buf, batch.schema(), None).unwrap();
    let r = std::panic::catch_unwind(std::panic::AssertUnwindSafe(|| w.write(&batch)));
    match r {
        Ok(r) => r.unwrap(),
        Err(_) => {
            println!("ArrowWriter::write panicked for {:?}", batch.schema().field(0).data_type());
            return;
        }
    }
    w.close().unwrap();
    let b = ParquetRecordBatchReaderBuilder::try_new(Bytes::from(buf)).unwrap();
    println!("schema read: {:?}", b.schema().field(0).data_type());
    match b.build() {
        Ok(r) => println!("read ok: {:?}", r.map(|b| b.unwrap().num_rows()).collect::<Vec<_>>()),
        Err(e) => println!("build failed: {e}"),
    }
}
fn main() {
    let keys = Int32Array::from(vec![0, 1, 0]);
    roundtrip(Arc::new(DictionaryArray::new(keys.clone(), Arc::new(StringViewArray::from(vec!["a", "b"])))));
    let dec = Decimal128Array::from(vec![1i128, 2]).with_precision_and_scale(38, 10).unwrap();
    roundtrip(Arc::new(DictionaryArray::new(keys, Arc::new(dec))));
}
