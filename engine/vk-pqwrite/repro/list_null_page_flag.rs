//! C07 finding: for a repeated (list) column the writer flags a data page as a *null page* in the
//! column index when (#rows in page) == (#null leaf slots in page), although the page holds non-null
//! values: update_column_offset_index compares num_buffered_rows with num_page_nulls, which count
//! different things once a row has several leaf slots. One row [0, null] -> 1 row, 1 null -> null page,
//! min/max dropped. A reader pruning pages with the column index skips the page for every predicate.
use arrow_array::builder::{Int32Builder, ListBuilder};
use arrow_array::{ArrayRef, RecordBatch};
use bytes::Bytes;
use parquet::arrow::ArrowWriter;
use parquet::file::metadata::{PageIndexPolicy, ParquetMetaDataReader};
use std::sync::Arc;
fn main() {
    let mut b = ListBuilder::new(Int32Builder::new());
    b.values().append_value(0);
    b.values().append_null();
    b.append(true);
    let col: ArrayRef = Arc::new(b.finish());
    let batch = RecordBatch::try_from_iter([("c", col)]).unwrap();
    let mut buf = Vec::new();
    let mut w = ArrowWriter::try_new(&mut buf, batch.schema(), None).unwrap();
    w.write(&batch).unwrap();
    w.close().unwrap();
    let md = ParquetMetaDataReader::new().with_page_index_policy(PageIndexPolicy::Required).parse_and_finish(&Bytes::from(buf)).unwrap();
    let ci = md.page_index().unwrap().column_index(0, 0).unwrap();
    println!("chunk statistics: {:?}", md.row_group(0).column(0).statistics());
    println!("column index: {ci:?}");
    println!("is_null_page(0) = {} although the page contains the value 0", ci.is_null_page(0));
}
