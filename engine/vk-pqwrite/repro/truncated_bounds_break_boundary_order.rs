//! C07 finding: the column index `boundary_order` is computed from the *untruncated* page min/max, but
//! the min_values / max_values lists that are written are truncated (column_index_truncate_length).
//! Pages ["aa"], ["aé"] with truncate length 2: true order ascending, stored mins ["aa", "a"] are not
//! ascending although boundary_order = ASCENDING (the format allows readers to binary-search both lists).
use arrow_array::{ArrayRef, RecordBatch, StringArray};
use bytes::Bytes;
use parquet::arrow::ArrowWriter;
use parquet::file::metadata::{PageIndexPolicy, ParquetMetaDataReader};
use parquet::file::page_index::column_index::ColumnIndexMetaData;
use parquet::file::properties::WriterProperties;
use std::sync::Arc;
fn main() {
    let col: ArrayRef = Arc::new(StringArray::from(vec!["aa", "aé"]));
    let batch = RecordBatch::try_from_iter([("c", col)]).unwrap();
    let props = WriterProperties::builder().set_write_batch_size(1).set_data_page_row_count_limit(1).set_column_index_truncate_length(Some(2)).build();
    let mut buf = Vec::new();
    let mut w = ArrowWriter::try_new(&mut buf, batch.schema(), Some(props)).unwrap();
    w.write(&batch).unwrap();
    w.close().unwrap();
    let md = ParquetMetaDataReader::new().with_page_index_policy(PageIndexPolicy::Required).parse_and_finish(&Bytes::from(buf)).unwrap();
    if let ColumnIndexMetaData::BYTE_ARRAY(ci) = md.page_index().unwrap().column_index(0, 0).unwrap() {
        let mins: Vec<_> = (0..2).map(|i| String::from_utf8_lossy(ci.min_value(i).unwrap()).to_string()).collect();
        let maxs: Vec<_> = (0..2).map(|i| String::from_utf8_lossy(ci.max_value(i).unwrap()).to_string()).collect();
        println!("boundary_order={:?} min_values={mins:?} max_values={maxs:?}", md.page_index().unwrap().column_index(0, 0).unwrap().get_boundary_order());
    }
}
