//! C05 — Parquet write -> read returns the same Arrow types and values.
//!
//! Sub-engines (all exhaustive inside their stated bounds, nothing sampled):
//!  * `values`   : type x every column of length <= N over the type's alphabet x every configuration
//!                 with <= 2 deviations from the default (writer properties, physical layout, reader
//!                 batch size are dimensions of one deviation-bounded product)
//!  * `trees`    : nested types x every column over the full one-level tree alphabet
//!  * `history`  : multi-column schema x every composition of n <= 5 rows into write() calls x every
//!                 subset of flush() positions x empty-write insertions x reader batch sizes x configs
//!  * `long`     : structured long columns (lengths around 8 / 128 / 1024 ...) x content patterns
//!  * `nestlong` : long child runs (63..1025 slots, null densities 0..all) below list / map / struct parents
//!  * `parallel` : low-level ArrowColumnWriter path, all interleavings of per-column op sequences on
//!                 one thread and on one OS thread per column under the baton scheduler
use crate::cfg::*;
use crate::types::*;
use crate::val::*;
use arrow_array::{Array, ArrayRef, RecordBatch};
use arrow_schema::{DataType, Field, Schema, SchemaRef};
use bytes::Bytes;
use parquet::arrow::ArrowWriter;
use parquet::arrow::arrow_reader::ParquetRecordBatchReaderBuilder;
use parquet::arrow::arrow_writer::{ArrowColumnChunk, ArrowColumnWriter, ArrowLeafColumn, compute_leaves};
use parquet::file::metadata::ParquetMetaData;
use std::sync::{Arc, Mutex};
use vcore::serde_json::{Value, json};
use vcore::{Ctx, LFSR_A, LFSR_B, Level, Stats, catch, lfsr_bytes, par_for};

#[derive(Clone, Debug, PartialEq, Eq)]
pub enum Op {
    Write(usize),
    Flush,
}

#[derive(Clone, Debug)]
pub struct Case {
    pub sub: String,
    pub tys: Vec<Ty>,
    pub cols: Vec<Vec<Val>>,
    pub cfg: Cfg,
    pub hist: Vec<Op>,
    /// parallel path: the interleaving (column ids, one entry per column operation); None = serial ArrowWriter
    pub schedule: Option<Vec<usize>>,
    /// parallel path: run each column's operations on its own OS thread under the baton scheduler
    pub threads: bool,
}

impl Case {
    pub fn to_json(&self) -> Value {
        json!({
            "sub": self.sub,
            "types": self.tys.iter().map(|t| json!({"dt": type_to_json(&t.dt), "nullable": t.nullable, "name": t.name, "family": t.family})).collect::<Vec<_>>(),
            "cols": self.cols.iter().map(|c| vals_json(c)).collect::<Vec<_>>(),
            "cfg": self.cfg.to_json(),
            "cfg_desc": self.cfg.describe(),
            "hist": self.hist.iter().map(|o| match o { Op::Write(k) => json!({"write": k}), Op::Flush => json!("flush") }).collect::<Vec<_>>(),
            "schedule": self.schedule,
            "threads": self.threads,
        })
    }
    pub fn from_json(v: &Value) -> Case {
        let tys = v["types"]
            .as_array()
            .unwrap()
            .iter()
            .map(|t| {
                let dt = type_from_json(&t["dt"]);
                Ty { name: t["name"].as_str().unwrap_or("").to_string(), family: t["family"].as_str().unwrap_or("").to_string(), dt, nullable: t["nullable"].as_bool().unwrap(), core: false }
            })
            .collect();
        Case {
            sub: v["sub"].as_str().unwrap_or("").to_string(),
            tys,
            cols: v["cols"].as_array().unwrap().iter().map(vals_from_json).collect(),
            cfg: Cfg::from_json(&v["cfg"]),
            hist: v["hist"].as_array().unwrap().iter().map(|o| if o.is_string() { Op::Flush } else { Op::Write(o["write"].as_u64().unwrap() as usize) }).collect(),
            schedule: v["schedule"].as_array().map(|a| a.iter().map(|x| x.as_u64().unwrap() as usize).collect()),
            threads: v["threads"].as_bool().unwrap_or(false),
        }
    }
}

// ---- DataType <-> JSON (only the constructors of the type menu) --------------------------------

fn field_to_json(f: &Field) -> Value {
    json!({"name": f.name(), "dt": type_to_json(f.data_type()), "nullable": f.is_nullable()})
}
fn field_from_json(v: &Value) -> Arc<Field> {
    Arc::new(Field::new(v["name"].as_str().unwrap(), type_from_json(&v["dt"]), v["nullable"].as_bool().unwrap()))
}
pub fn type_to_json(dt: &DataType) -> Value {
    use DataType::*;
    match dt {
        List(f) => json!({"List": field_to_json(f)}),
        LargeList(f) => json!({"LargeList": field_to_json(f)}),
        ListView(f) => json!({"ListView": field_to_json(f)}),
        LargeListView(f) => json!({"LargeListView": field_to_json(f)}),
        FixedSizeList(f, n) => json!({"FixedSizeList": [field_to_json(f), n]}),
        Struct(fs) => json!({"Struct": fs.iter().map(|f| field_to_json(f)).collect::<Vec<_>>()}),
        Map(f, o) => json!({"Map": [field_to_json(f), o]}),
        Dictionary(k, v) => json!({"Dictionary": [type_to_json(k), type_to_json(v)]}),
        RunEndEncoded(r, v) => json!({"RunEndEncoded": [field_to_json(r), field_to_json(v)]}),
        other => json!(format!("{other:?}")),
    }
}
pub fn type_from_json(v: &Value) -> DataType {
    use DataType::*;
    if let Some(s) = v.as_str() {
        // leaf types: match against the Debug rendering of every leaf in the menu
        for t in flat_types().into_iter().chain(extra_leaf_types()) {
            let mut stack = vec![t.dt.clone()];
            while let Some(d) = stack.pop() {
                if format!("{d:?}") == s {
                    return d;
                }
                match &d {
                    Dictionary(k, v) => {
                        stack.push(k.as_ref().clone());
                        stack.push(v.as_ref().clone());
                    }
                    RunEndEncoded(r, v) => {
                        stack.push(r.data_type().clone());
                        stack.push(v.data_type().clone());
                    }
                    _ => {}
                }
            }
        }
        panic!("unknown leaf type {s}");
    }
    let (k, x) = v.as_object().unwrap().iter().next().unwrap();
    match k.as_str() {
        "List" => List(field_from_json(x)),
        "LargeList" => LargeList(field_from_json(x)),
        "ListView" => ListView(field_from_json(x)),
        "LargeListView" => LargeListView(field_from_json(x)),
        "FixedSizeList" => FixedSizeList(field_from_json(&x[0]), x[1].as_i64().unwrap() as i32),
        "Struct" => Struct(x.as_array().unwrap().iter().map(field_from_json).collect()),
        "Map" => Map(field_from_json(&x[0]), x[1].as_bool().unwrap()),
        "Dictionary" => Dictionary(Box::new(type_from_json(&x[0])), Box::new(type_from_json(&x[1]))),
        "RunEndEncoded" => RunEndEncoded(field_from_json(&x[0]), field_from_json(&x[1])),
        o => panic!("type_from_json {o}"),
    }
}
pub fn extra_leaf_types() -> Vec<Ty> {
    vec![]
}

// ---- expectation --------------------------------------------------------------------------------

/// Documented representation changes applied to the *type* (each entry cites the documentation):
///  * a top-level RunEndEncoded column comes back as its value type: the writer stores the flattened
///    schema hint (`add_encoded_arrow_schema_to_metadata` / `flatten_ree_field`, exercised by the
///    `ree_*` round-trip tests which read back the flat type); property statement: "run-end columns
///    are documented to come back as their value type".
fn expected_field(name: &str, t: &Ty) -> Field {
    match &t.dt {
        DataType::RunEndEncoded(_, v) => Field::new(name, v.data_type().clone(), t.nullable),
        d => Field::new(name, d.clone(), t.nullable),
    }
}

/// `coerce_types = true` is documented (WriterPropertiesBuilder::set_coerce_types,
/// ArrowSchemaConverter::with_coerce_types) to (a) rename the inner fields of List and Map "to match
/// what is required by the newest Parquet specification ... potentially losing naming metadata" and
/// (b) store Date64 "with lower precision" (truncated to whole days). Under that option types are
/// compared modulo list/map inner field names and Date64 values modulo the day.
fn types_equal_mod_inner_names(a: &DataType, b: &DataType) -> bool {
    use DataType::*;
    let fe = |x: &Field, y: &Field, names: bool| (!names || x.name() == y.name()) && x.is_nullable() == y.is_nullable() && types_equal_mod_inner_names(x.data_type(), y.data_type());
    match (a, b) {
        (List(x), List(y)) | (LargeList(x), LargeList(y)) | (ListView(x), ListView(y)) | (LargeListView(x), LargeListView(y)) => fe(x, y, false),
        (FixedSizeList(x, n), FixedSizeList(y, m)) => n == m && fe(x, y, false),
        (Struct(xs), Struct(ys)) => xs.len() == ys.len() && xs.iter().zip(ys.iter()).all(|(x, y)| fe(x, y, true)),
        (Map(x, o), Map(y, p)) => {
            o == p
                && x.is_nullable() == y.is_nullable()
                && match (x.data_type(), y.data_type()) {
                    (Struct(xs), Struct(ys)) => xs.len() == ys.len() && xs.iter().zip(ys.iter()).all(|(x, y)| fe(x, y, false)),
                    _ => false,
                }
        }
        (Dictionary(k, v), Dictionary(l, w)) => k == l && types_equal_mod_inner_names(v, w),
        (x, y) => x == y,
    }
}

fn coerce_expected(dt: &DataType, v: &Val) -> Val {
    match (dt, v) {
        (DataType::Date64, Val::I(x)) => Val::I((*x / 86_400_000) * 86_400_000),
        _ => v.clone(),
    }
}

// ---- one execution ------------------------------------------------------------------------------

#[derive(Debug, Default)]
pub struct Obs {
    pub row_groups: Vec<i64>,
    pub batches: usize,
    pub encodings: String,
    pub file_len: usize,
}

type Fail = (String, String);

fn fam(c: &Case) -> String {
    if c.tys.len() == 1 { c.tys[0].family.clone() } else { "multi".into() }
}

fn err_class(e: &str) -> String {
    vcore::strip_digits(&e.chars().take(60).collect::<String>())
}

fn build_batch(c: &Case) -> Result<(SchemaRef, RecordBatch), Fail> {
    let fields: Vec<Field> = c.tys.iter().enumerate().map(|(i, t)| Field::new(format!("c{i}"), t.dt.clone(), t.nullable)).collect();
    let schema = Arc::new(Schema::new(fields));
    let lay = c.cfg.layout();
    let arrays: Vec<ArrayRef> = c.tys.iter().zip(&c.cols).map(|(t, v)| realise(&t.dt, v, lay)).collect();
    for a in &arrays {
        a.to_data().validate_full().map_err(|e| ("harness:input-invalid".to_string(), format!("realise produced an invalid array: {e}")))?;
    }
    let batch = RecordBatch::try_new(schema.clone(), arrays).map_err(|e| ("harness:input-batch".to_string(), format!("{e}")))?;
    Ok((schema, batch))
}

fn write_serial(c: &Case, schema: &SchemaRef, batch: &RecordBatch) -> Result<(Vec<u8>, ParquetMetaData), Fail> {
    let props = writer_props(&c.cfg, schema).map_err(|e| (format!("c05:write-error:{}:props", fam(c)), e))?;
    let mut buf: Vec<u8> = Vec::new();
    let md = {
        let mut w = ArrowWriter::try_new(&mut buf, schema.clone(), Some(props)).map_err(|e| (format!("c05:write-error:{}:try_new:{}", fam(c), err_class(&e.to_string())), format!("ArrowWriter::try_new: {e}")))?;
        let mut off = 0usize;
        for op in &c.hist {
            match op {
                Op::Write(k) => {
                    let b = batch.slice(off, *k);
                    off += k;
                    w.write(&b).map_err(|e| (format!("c05:write-error:{}:write:{}", fam(c), err_class(&e.to_string())), format!("ArrowWriter::write: {e}")))?;
                }
                Op::Flush => w.flush().map_err(|e| (format!("c05:write-error:{}:flush:{}", fam(c), err_class(&e.to_string())), format!("ArrowWriter::flush: {e}")))?,
            }
        }
        assert_eq!(off, batch.num_rows(), "history must cover all rows");
        w.close().map_err(|e| (format!("c05:write-error:{}:close:{}", fam(c), err_class(&e.to_string())), format!("ArrowWriter::close: {e}")))?
    };
    Ok((buf, md))
}

/// Low-level path: ArrowWriter::into_serialized_writer -> ArrowRowGroupWriterFactory ->
/// ArrowColumnWriter per leaf; operations of the leaf writers executed in the order `schedule`.
/// hist semantics here: every Write(k) is one batch; a Flush closes the row group (so batches
/// between flushes share a row group).
fn write_parallel(c: &Case, schema: &SchemaRef, batch: &RecordBatch, schedule: &[usize], threads: bool, choices: Option<&[usize]>) -> Result<(Vec<u8>, ParquetMetaData, Option<vcore::sched::RunResult>), Fail> {
    let fp = |stage: &str, e: &dyn std::fmt::Display| (format!("c05:parallel-write-error:{}:{stage}:{}", fam(c), err_class(&e.to_string())), format!("{stage}: {e}"));
    let props = writer_props(&c.cfg, schema).map_err(|e| (format!("c05:write-error:{}:props", fam(c)), e))?;
    let mut buf: Vec<u8> = Vec::new();
    let mut last_run = None;
    let md = {
        let w = ArrowWriter::try_new(&mut buf, schema.clone(), Some(props)).map_err(|e| fp("try_new", &e))?;
        let (mut fw, factory) = w.into_serialized_writer().map_err(|e| fp("into_serialized_writer", &e))?;
        // split the history into row groups
        let mut groups: Vec<Vec<RecordBatch>> = vec![vec![]];
        let mut off = 0;
        for op in &c.hist {
            match op {
                Op::Write(k) => {
                    groups.last_mut().unwrap().push(batch.slice(off, *k));
                    off += k;
                }
                Op::Flush => groups.push(vec![]),
            }
        }
        groups.retain(|g| !g.is_empty());
        for (gi, g) in groups.iter().enumerate() {
            let writers = factory.create_column_writers(gi).map_err(|e| fp("create_column_writers", &e))?;
            let nleaf = writers.len();
            // leaves[b][leaf]
            let mut leaves: Vec<Vec<Arc<ArrowLeafColumn>>> = vec![];
            for b in g {
                let mut row = vec![];
                for (f, col) in schema.fields().iter().zip(b.columns()) {
                    for l in compute_leaves(f, col).map_err(|e| fp("compute_leaves", &e))? {
                        row.push(Arc::new(l));
                    }
                }
                if row.len() != nleaf {
                    return Err((format!("c05:parallel:leaf-count:{}", fam(c)), format!("compute_leaves gave {} leaves, factory {} writers", row.len(), nleaf)));
                }
                leaves.push(row);
            }
            let nb = g.len();
            let chunks: Vec<ArrowColumnChunk> = if !threads {
                let mut ws: Vec<Option<ArrowColumnWriter>> = writers.into_iter().map(Some).collect();
                let mut step = vec![0usize; nleaf];
                let mut out: Vec<Option<ArrowColumnChunk>> = (0..nleaf).map(|_| None).collect();
                for &col in schedule {
                    if col >= nleaf {
                        continue;
                    }
                    let s = step[col];
                    step[col] += 1;
                    if s < nb {
                        ws[col].as_mut().unwrap().write(&leaves[s][col]).map_err(|e| fp("ArrowColumnWriter::write", &e))?;
                    } else if s == nb {
                        out[col] = Some(ws[col].take().unwrap().close().map_err(|e| fp("ArrowColumnWriter::close", &e))?);
                    }
                }
                // operations not named by the schedule run at the end in column order
                for col in 0..nleaf {
                    while step[col] <= nb {
                        let s = step[col];
                        step[col] += 1;
                        if s < nb {
                            ws[col].as_mut().unwrap().write(&leaves[s][col]).map_err(|e| fp("ArrowColumnWriter::write", &e))?;
                        } else {
                            out[col] = Some(ws[col].take().unwrap().close().map_err(|e| fp("ArrowColumnWriter::close", &e))?);
                        }
                    }
                }
                out.into_iter().map(|x| x.unwrap()).collect()
            } else {
                let results: Arc<Mutex<Vec<Option<Result<ArrowColumnChunk, String>>>>> = Arc::new(Mutex::new((0..nleaf).map(|_| None).collect()));
                let mut bodies: Vec<Box<dyn FnOnce(vcore::sched::Handle) + Send>> = vec![];
                for (col, mut wtr) in writers.into_iter().enumerate() {
                    let my: Vec<Arc<ArrowLeafColumn>> = leaves.iter().map(|row| row[col].clone()).collect();
                    let results = results.clone();
                    bodies.push(Box::new(move |h| {
                        let mut r: Result<(), String> = Ok(());
                        for l in &my {
                            if let Err(e) = wtr.write(l) {
                                r = Err(format!("write: {e}"));
                                break;
                            }
                            h.point("after-write");
                        }
                        let res = match r {
                            Ok(()) => wtr.close().map_err(|e| format!("close: {e}")),
                            Err(e) => Err(e),
                        };
                        results.lock().unwrap()[col] = Some(res);
                    }));
                }
                let run = vcore::sched::run_one(bodies, choices.unwrap_or(&[]));
                if let Some(p) = &run.panicked {
                    return Err((format!("c05:parallel:panic:{}", vcore::strip_digits(p)), format!("panic in column worker: {p}")));
                }
                last_run = Some(run);
                let mut res = results.lock().unwrap();
                let mut out = vec![];
                for r in res.iter_mut() {
                    match r.take() {
                        Some(Ok(ch)) => out.push(ch),
                        Some(Err(e)) => return Err(fp("column worker", &e)),
                        None => return Err(("harness:parallel-missing-result".into(), "worker produced no result".into())),
                    }
                }
                out
            };
            let mut rg = fw.next_row_group().map_err(|e| fp("next_row_group", &e))?;
            for ch in chunks {
                ch.append_to_row_group(&mut rg).map_err(|e| fp("append_to_row_group", &e))?;
            }
            rg.close().map_err(|e| fp("row group close", &e))?;
        }
        fw.close().map_err(|e| fp("file close", &e))?
    };
    Ok((buf, md, last_run))
}

fn read_and_check(c: &Case, buf: Vec<u8>, md: &ParquetMetaData, obs: &mut Obs) -> Result<(), Fail> {
    let n = c.cols.first().map(|v| v.len()).unwrap_or(0);
    let f = fam(c);
    obs.file_len = buf.len();
    obs.row_groups = md.row_groups().iter().map(|r| r.num_rows()).collect();
    if md.file_metadata().num_rows() != n as i64 || obs.row_groups.iter().sum::<i64>() != n as i64 {
        return Err((format!("c05:row-count:{f}:metadata"), format!("wrote {n} rows, footer says {} rows, row groups {:?}", md.file_metadata().num_rows(), obs.row_groups)));
    }
    if let Some(rg0) = md.row_groups().first() {
        let mut encs: Vec<String> = vec![];
        for col in rg0.columns() {
            let mut e: Vec<String> = col.encodings().map(|e| format!("{e}")).collect();
            e.sort();
            encs.push(e.join("+"));
        }
        obs.encodings = encs.join("|");
    }
    // documented row-group structure: at most max_row_group_row_count rows each, never empty,
    // every explicit flush() is a boundary
    let lim = c.cfg.rg_rows().unwrap_or(1 << 20) as i64;
    if obs.row_groups.iter().any(|r| *r < 1 || *r > lim) {
        return Err((format!("c05:row-group-structure:{f}"), format!("row groups {:?} with max_row_group_row_count {lim}", obs.row_groups)));
    }
    {
        let mut bounds = vec![];
        let mut acc = 0i64;
        for r in &obs.row_groups {
            acc += r;
            bounds.push(acc);
        }
        let mut off = 0i64;
        for op in &c.hist {
            match op {
                Op::Write(k) => off += *k as i64,
                Op::Flush => {
                    if off > 0 && !bounds.contains(&off) {
                        return Err((format!("c05:row-group-structure:{f}:flush-not-a-boundary"), format!("flush after {off} rows but row groups are {:?}", obs.row_groups)));
                    }
                }
            }
        }
    }

    let bs = c.cfg.reader_bs();
    let builder = ParquetRecordBatchReaderBuilder::try_new(Bytes::from(buf)).map_err(|e| (format!("c05:read-error:{f}:open:{}", err_class(&e.to_string())), format!("reader open: {e}")))?;
    let got_schema = builder.schema().clone();
    let coerce = c.cfg.coerce();
    if got_schema.fields().len() != c.tys.len() {
        return Err((format!("c05:schema-differs:{f}"), format!("{} fields read, {} written", got_schema.fields().len(), c.tys.len())));
    }
    for (i, t) in c.tys.iter().enumerate() {
        let want = expected_field(&format!("c{i}"), t);
        let got = got_schema.field(i);
        let same_type = if coerce { types_equal_mod_inner_names(got.data_type(), want.data_type()) } else { got.data_type() == want.data_type() };
        if got.name() != want.name() || got.is_nullable() != want.is_nullable() || !same_type {
            return Err((format!("c05:schema-differs:{f}"), format!("field {i}: wrote {want:?}, read {got:?}")));
        }
    }
    let reader = builder.with_batch_size(bs).build().map_err(|e| (format!("c05:read-error:{f}:build:{}", err_class(&e.to_string())), format!("reader build: {e}")))?;
    let mut got: Vec<Vec<Val>> = vec![vec![]; c.tys.len()];
    for b in reader {
        let b = b.map_err(|e| (format!("c05:read-error:{f}:next:{}", err_class(&e.to_string())), format!("reader next: {e}")))?;
        obs.batches += 1;
        if b.num_rows() > bs {
            return Err((format!("c05:batch-too-long:{f}"), format!("batch of {} rows with batch size {bs}", b.num_rows())));
        }
        if b.schema().fields() != got_schema.fields() {
            return Err((format!("c05:schema-differs:{f}:batch-vs-builder"), format!("batch schema {:?} != builder schema {:?}", b.schema(), got_schema)));
        }
        for (i, col) in b.columns().iter().enumerate() {
            if let Err(e) = col.to_data().validate_full() {
                return Err((format!("wf:c05:read:{f}"), format!("decoded column {i} fails validate_full: {e}")));
            }
            if col.len() != b.num_rows() {
                return Err((format!("wf:c05:read:{f}:len"), format!("column {i} has {} rows in a batch of {}", col.len(), b.num_rows())));
            }
            if !got_schema.field(i).is_nullable() && col.logical_null_count() > 0 {
                return Err((format!("wf:c05:read:{f}:null-in-non-nullable"), format!("column {i} is non-nullable but has nulls")));
            }
            got[i].extend(extract(col.as_ref()));
        }
    }
    for (i, t) in c.tys.iter().enumerate() {
        let want: Vec<Val> = if coerce { c.cols[i].iter().map(|v| coerce_expected(&t.dt, v)).collect() } else { c.cols[i].clone() };
        if got[i].len() != want.len() {
            return Err((format!("c05:row-count:{f}:read"), format!("column {i}: wrote {} rows, read {}", want.len(), got[i].len())));
        }
        if got[i] != want {
            let p = (0..want.len()).find(|&k| got[i][k] != want[k]).unwrap();
            return Err((format!("c05:rows-differ:{f}"), format!("column {i} ({}) row {p}: wrote {:?}, read {:?}", t.name, want[p], got[i][p])));
        }
    }
    Ok(())
}

/// The only way a case is executed (enumeration and replay both come here).
pub fn run_case(c: &Case) -> Result<Obs, Fail> {
    let r = catch(|| -> Result<Obs, Fail> {
        let (schema, batch) = build_batch(c)?;
        let mut obs = Obs::default();
        let (buf, md) = match &c.schedule {
            None => write_serial(c, &schema, &batch)?,
            Some(s) => {
                let (b, m, _) = write_parallel(c, &schema, &batch, s, c.threads, if c.threads { Some(s) } else { None })?;
                (b, m)
            }
        };
        read_and_check(c, buf, &md, &mut obs)?;
        Ok(obs)
    });
    match r {
        Ok(x) => x,
        Err(p) => Err((format!("c05:{}", p.fingerprint().lines().next().unwrap_or("")), format!("panic at {}:{}: {}", p.file, p.line, p.msg))),
    }
}

/// evaluate, classify, report (with M-det re-execution before a violation is reported)
fn eval(c: &Case, order: u64, st: &mut Stats) -> Option<Obs> {
    match run_case(c) {
        Ok(o) => Some(o),
        Err((fp, msg)) => {
            if fp.starts_with("harness:") {
                eprintln!("MACHINERY: harness failure {fp}: {msg} case={}", c.to_json());
                std::process::exit(2);
            }
            match run_case(c) {
                Err((fp2, _)) if fp2 == fp => {}
                other => {
                    eprintln!("MACHINERY: violation {fp} did not reproduce on re-execution (got {:?}) case={}", other.map(|_| "ok"), c.to_json());
                    std::process::exit(2);
                }
            }
            st.violate(order, fp, msg, || c.to_json());
            None
        }
    }
}

fn outcome_class(c: &Case, o: &Obs) -> String {
    format!("{}|rg={}|batches={}|enc={}", c.sub, o.row_groups.len().min(6), o.batches.min(6), o.encodings)
}

// ---- column enumeration -------------------------------------------------------------------------

fn col_count(a: u64, n: usize) -> u64 {
    (0..=n).map(|l| a.pow(l as u32)).sum()
}
/// idx-th column (shortest first) over the alphabet
fn col_decode(alpha: &[Val], mut idx: u64) -> Vec<Val> {
    let a = alpha.len() as u64;
    let mut len = 0;
    while idx >= a.pow(len) {
        idx -= a.pow(len);
        len += 1;
    }
    let mut v = Vec::with_capacity(len as usize);
    for _ in 0..len {
        v.push(alpha[(idx % a) as usize].clone());
        idx /= a;
    }
    v
}
fn col_digits_below(alpha_len: u64, mut idx: u64, small: u64) -> (usize, bool) {
    let mut len = 0;
    while idx >= alpha_len.pow(len) {
        idx -= alpha_len.pow(len);
        len += 1;
    }
    let mut all = true;
    for _ in 0..len {
        if idx % alpha_len >= small {
            all = false;
        }
        idx /= alpha_len;
    }
    (len as usize, all)
}
fn best_n(a: u64, nmax: usize, cap: u64) -> usize {
    let mut n = 0;
    while n < nmax && col_count(a, n + 1) <= cap {
        n += 1;
    }
    n
}

struct Block {
    ty: usize,
    alpha: Vec<Val>,
    nmax: usize,
    ncols: u64,
    cfgs: Arc<Vec<Cfg>>,
    /// columns made only of the first `.0` letters with length <= `.1` are covered by another block
    skip: Option<(u64, usize)>,
    sub: &'static str,
}

fn run_blocks(ctx: &Ctx, label: &str, tys: &[Ty], blocks: &[Block], st: &mut Stats) {
    let mut starts = vec![];
    let mut total = 0u64;
    for b in blocks {
        starts.push(total);
        total += b.ncols * b.cfgs.len() as u64;
    }
    st.merge(par_for(ctx, label, total, 256, |idx, st| {
        let bi = match starts.binary_search(&idx) {
            Ok(mut i) => {
                // skip empty blocks sharing the same start
                while blocks[i].ncols * blocks[i].cfgs.len() as u64 == 0 {
                    i += 1;
                }
                i
            }
            Err(i) => i - 1,
        };
        let b = &blocks[bi];
        let r = idx - starts[bi];
        let ncfg = b.cfgs.len() as u64;
        let (ci, ki) = (r / ncfg, (r % ncfg) as usize);
        if let Some((small, n)) = b.skip {
            let (len, all) = col_digits_below(b.alpha.len() as u64, ci, small);
            if all && len <= n {
                return;
            }
        }
        let vals = col_decode(&b.alpha, ci);
        let n = vals.len();
        let case = Case { sub: b.sub.to_string(), tys: vec![tys[b.ty].clone()], cols: vec![vals], cfg: b.cfgs[ki].clone(), hist: vec![Op::Write(n)], schedule: None, threads: false };
        st.add(b.sub, 1, if n > 0 { 1 } else { 0 });
        if let Some(o) = eval(&case, idx, st) {
            st.outcome(&outcome_class(&case, &o));
            st.count(&format!("rowgroups:{}", o.row_groups.len().min(6)), 1);
            if ci == b.ncols - 1 && ki == 0 {
                st.sample(b.sub, || case.to_json());
            }
        }
    }));
}

// ---- history sub-engine -------------------------------------------------------------------------

fn history_types() -> Vec<Ty> {
    use DataType::*;
    let mk = |dt: DataType, nullable: bool| Ty { name: format!("{dt}"), family: "multi".into(), dt, nullable, core: true };
    vec![
        mk(Int32, true),
        mk(Utf8View, true),
        mk(list(Int32, true), true),
        mk(strukt(vec![("a", Int32, true), ("l", list(Utf8, true), true)]), true),
        mk(Utf8, true),
        mk(BinaryView, true),
        mk(dict(Int8, Utf8), true),
        mk(ree(Int32, Int32), true),
        mk(Float64, false),
    ]
}
fn history_cols(tys: &[Ty], n: usize, variant: usize) -> Vec<Vec<Val>> {
    tys.iter()
        .enumerate()
        .map(|(i, t)| {
            let a = small(&t.dt, t.nullable, true);
            (0..n).map(|r| a[(r * (i + 1 + variant) + i + 2 * variant) % a.len()].clone()).collect()
        })
        .collect()
}
/// all histories for n rows: composition of n x subset of flush positions (before the first write,
/// between writes, after the last) x empty-write insertion {none, first, after first write, last}
fn histories(n: usize) -> Vec<(Vec<Op>, bool)> {
    let mut out = vec![];
    let comps: Vec<Vec<usize>> = if n == 0 {
        vec![vec![]]
    } else {
        (0..(1u32 << (n - 1)))
            .map(|bits| {
                let mut parts = vec![];
                let mut cur = 1;
                for i in 0..n - 1 {
                    if bits >> i & 1 == 1 {
                        parts.push(cur);
                        cur = 1;
                    } else {
                        cur += 1;
                    }
                }
                parts.push(cur);
                parts
            })
            .collect()
    };
    for parts in comps {
        let k = parts.len();
        for fl in 0..(1u32 << (k + 1)) {
            for empty in 0..4 {
                let mut h = vec![];
                if empty == 1 {
                    h.push(Op::Write(0));
                }
                if fl & 1 == 1 {
                    h.push(Op::Flush);
                }
                for (i, p) in parts.iter().enumerate() {
                    h.push(Op::Write(*p));
                    if i == 0 && empty == 2 {
                        h.push(Op::Write(0));
                    }
                    if fl >> (i + 1) & 1 == 1 {
                        h.push(Op::Flush);
                    }
                }
                if empty == 3 {
                    h.push(Op::Write(0));
                }
                if empty == 2 && k == 0 {
                    continue; // same as empty==1 when there is no write
                }
                out.push((h, empty != 0));
            }
        }
    }
    out
}

// ---- long structured columns --------------------------------------------------------------------

#[derive(Clone, Copy, Debug)]
enum Pat {
    Const,
    Ramp,
    Alt,
    Outlier(u8),
    NullRun(u8),
    LfsrSmall,
    LfsrWide,
}
fn all_pats() -> Vec<Pat> {
    let mut v = vec![Pat::Const, Pat::Ramp, Pat::Alt, Pat::LfsrSmall, Pat::LfsrWide];
    for k in 0..3 {
        v.push(Pat::Outlier(k));
    }
    for k in 0..6 {
        v.push(Pat::NullRun(k));
    }
    v
}

/// k-th value of a type (diverse widths / lengths), total function
fn nth_val(dt: &DataType, k: u64) -> Val {
    use DataType::*;
    match dt {
        Boolean => Val::Bool(k % 2 == 1),
        Int8 => Val::I(((k * 3) % 256) as i128 - 128),
        UInt8 => Val::I(((k * 3) % 256) as i128),
        Int16 => Val::I(((k as i128) * 3 - 7) as i16 as i128),
        Int32 | Date32 => Val::I(((k as i128) * 3 - 7) as i32 as i128),
        Int64 | Time64(_) | Timestamp(_, _) | Duration(_) => Val::I((k as i128) * 3 - 7),
        UInt16 => Val::I(((k * 3) % 65536) as i128),
        UInt32 => Val::I(((k as i128) * 3) as u32 as i128),
        UInt64 => Val::I((k as i128) * 3),
        Float16 => Val::F16(half::f16::from_f32(k as f32 * 0.5 - 3.0).to_bits()),
        Float32 => Val::F32((k as f32 * 0.5 - 3.0).to_bits()),
        Float64 => Val::F64((k as f64 * 0.25 - 3.0).to_bits()),
        Decimal32(_, _) | Decimal64(_, _) | Decimal128(_, _) => Val::I((k as i128) * 3 - 7),
        Decimal256(_, _) => {
            let x = (k as i128) * 3 - 7;
            Val::D256(if x < 0 { -1 } else { 0 }, x as u128)
        }
        Utf8 | LargeUtf8 | Utf8View => {
            if k % 7 == 6 {
                Val::Str(format!("s{k}-{}", "x".repeat((k % 20) as usize)))
            } else if k % 7 == 3 {
                Val::Str(format!("{:012}", k % 1_000_000_000_000)) // exactly 12 bytes: longest inline view
            } else if k % 7 == 5 {
                Val::Str(format!("{:013}", k % 1_000_000_000_000)) // 13 bytes: shortest out-of-line view
            } else {
                Val::Str(format!("s{k}"))
            }
        }
        Binary | LargeBinary | BinaryView => {
            let b = k.to_le_bytes();
            match k % 7 {
                3 => Val::Bytes([&b[..], &b[..4]].concat()),       // 12 bytes
                5 => Val::Bytes([&b[..], &b[..5]].concat()),       // 13 bytes
                _ => Val::Bytes(b[..(1 + (k % 8) as usize)].to_vec()),
            }
        }
        FixedSizeBinary(n) => Val::Bytes((0..*n as u64).map(|j| (k >> (8 * (j % 8))) as u8).collect()),
        List(f) | LargeList(f) | ListView(f) | LargeListView(f) => Val::List((0..k % 4).map(|j| nth_val(f.data_type(), k + j)).collect()),
        Struct(fs) => Val::Struct(fs.iter().enumerate().map(|(j, f)| nth_val(f.data_type(), k + j as u64)).collect()),
        Dictionary(_, v) => nth_val(v, k),
        RunEndEncoded(_, v) => nth_val(v.data_type(), k / 3),
        other => panic!("nth_val {other}"),
    }
}

fn long_col(t: &Ty, len: usize, p: Pat) -> Option<Vec<Val>> {
    let dt = &t.dt;
    let extreme = {
        let a = if is_leaf(dt) { leaf_alpha(dt) } else { small(dt, false, true) };
        a[a.len() - 1].clone()
    };
    let pos = |k: u8| -> usize {
        match k {
            0 => 0,
            1 => len / 2,
            _ => len - 1,
        }
    };
    Some(match p {
        Pat::Const => vec![nth_val(dt, 3); len],
        Pat::Ramp => (0..len).map(|i| nth_val(dt, i as u64)).collect(),
        Pat::Alt => (0..len).map(|i| nth_val(dt, 1 + (i % 2) as u64)).collect(),
        Pat::Outlier(k) => {
            let mut v = vec![nth_val(dt, 3); len];
            v[pos(k)] = extreme;
            v
        }
        Pat::NullRun(k) => {
            if !t.nullable {
                return None;
            }
            let (p, q) = match k {
                0 => (0, 1),
                1 => (0, len / 2),
                2 => (len / 2, len),
                3 => (len - 1, len),
                4 => (1, len - 1),
                _ => (0, len),
            };
            (0..len).map(|i| if i >= p && i < q { Val::Null } else { nth_val(dt, i as u64) }).collect()
        }
        Pat::LfsrSmall => {
            let a = lfsr_bytes(len, LFSR_A);
            let b = lfsr_bytes(len, LFSR_B);
            (0..len).map(|i| if t.nullable && b[i] % 8 == 0 { Val::Null } else { nth_val(dt, (a[i] % 5) as u64) }).collect()
        }
        Pat::LfsrWide => {
            let a = lfsr_bytes(len * 4, LFSR_B);
            (0..len).map(|i| nth_val(dt, u32::from_le_bytes([a[4 * i], a[4 * i + 1], a[4 * i + 2], a[4 * i + 3]]) as u64)).collect()
        }
    })
}

/// indices into long_types() used by the quick tier
const LONG_QUICK: [usize; 16] = [0, 1, 2, 3, 4, 6, 7, 9, 11, 12, 13, 14, 15, 17, 18, 20];

fn long_types() -> Vec<Ty> {
    use DataType::*;
    let mk = |dt: DataType, nullable: bool| {
        let fam = format!("{dt}");
        Ty { name: fam.clone(), family: format!("long:{}", fam.chars().take(40).collect::<String>()), dt, nullable, core: true }
    };
    vec![
        mk(Boolean, true),
        mk(Int32, true),
        mk(Int32, false),
        mk(Int64, true),
        mk(UInt32, true),
        mk(Int8, true),
        mk(Float32, true),
        mk(Float64, true),
        mk(Float16, true),
        mk(Decimal128(38, 10), true),
        mk(Decimal64(12, 3), true),
        mk(Utf8, true),
        mk(Utf8View, true),
        mk(Binary, true),
        mk(FixedSizeBinary(3), true),
        mk(dict(Int32, Utf8), true),
        mk(dict(Int32, Int64), true),
        mk(ree(Int32, Int32), true),
        mk(list(Int32, true), true),
        mk(list(Utf8, true), true),
        mk(strukt(vec![("a", Int32, true), ("l", list(Boolean, true), true)]), true),
    ]
}

// ---- parallel sub-engine ------------------------------------------------------------------------

/// all interleavings of `ncol` sequences of `steps` operations each
fn interleavings(ncol: usize, steps: usize) -> Vec<Vec<usize>> {
    fn rec(rem: &mut Vec<usize>, cur: &mut Vec<usize>, out: &mut Vec<Vec<usize>>) {
        if rem.iter().all(|r| *r == 0) {
            out.push(cur.clone());
            return;
        }
        for c in 0..rem.len() {
            if rem[c] > 0 {
                rem[c] -= 1;
                cur.push(c);
                rec(rem, cur, out);
                cur.pop();
                rem[c] += 1;
            }
        }
    }
    let mut out = vec![];
    rec(&mut vec![steps; ncol], &mut vec![], &mut out);
    out
}

fn parallel_schemas() -> Vec<Vec<Ty>> {
    use DataType::*;
    let mk = |dt: DataType, nullable: bool| Ty { name: format!("{dt}"), family: "multi".into(), dt, nullable, core: true };
    vec![
        vec![mk(Int32, true), mk(Utf8, true), mk(list(Int32, true), true)],
        vec![mk(strukt(vec![("a", Int32, true), ("b", Utf8, true)]), true), mk(dict(Int8, Utf8), true)],
        vec![mk(map(Int32, true), true), mk(Float64, true)],
    ]
}

// ---- replay -------------------------------------------------------------------------------------

pub fn replay(case: &Value) -> bool {
    let c = Case::from_json(case);
    println!("replay: sub={} types={:?} cfg=[{}] hist={:?} schedule={:?} threads={}", c.sub, c.tys.iter().map(|t| t.name.clone()).collect::<Vec<_>>(), c.cfg.describe(), c.hist, c.schedule, c.threads);
    for (i, col) in c.cols.iter().enumerate() {
        println!("  expectation (model): column {i} reads back as {:?}", col);
    }
    if let Some(n) = std::env::var("VK_REPEAT").ok().and_then(|s| s.parse::<u32>().ok()) {
        let t = std::time::Instant::now();
        for _ in 0..n {
            let _ = run_case(&c);
        }
        println!("bench: {n} executions in {:?}", t.elapsed());
    }
    match run_case(&c) {
        Ok(o) => {
            println!("replay outcome: round trip equal (row groups {:?}, {} batches, encodings {})", o.row_groups, o.batches, o.encodings);
            true
        }
        Err((fp, msg)) => {
            println!("replay outcome: VIOLATION {fp}: {msg}");
            false
        }
    }
}

// ---- driver -------------------------------------------------------------------------------------

pub fn run(ctx: &Ctx) -> ! {
    if let Some(case) = vcore::load_replay(ctx) {
        let ok = replay(&case);
        std::process::exit(if ok { 0 } else { 1 });
    }
    let only: Option<String> = ctx.extra_args.iter().find_map(|a| a.strip_prefix("--sub=").map(|s| s.to_string()));
    let want = |s: &str| only.as_deref().map(|o| o == s).unwrap_or(true);
    let mut st = Stats::new();
    let quick = ctx.quick();
    let mut sub_times: Vec<(&str, f64)> = vec![];

    let dims = all_dims();
    let c0 = exactly(0, &dims);
    let c1 = exactly(1, &dims);
    let c2 = exactly(2, &dims);
    let c3 = if quick { vec![] } else { exactly(3, &dims) };
    let mut c01 = c0.clone();
    c01.extend(c1.clone());
    let c01 = Arc::new(c01);
    let c2 = Arc::new(c2);
    let bloom_default = Arc::new(vec![Cfg(vec![(D_BLOOM, 3)])]);
    let c3 = Arc::new(c3);
    st.extra.insert("configs".into(), json!({"deviation0": 1, "deviation1": c1.len(), "deviation2": c2.len(), "deviation3_thorough_only": c3.len(),
        "dimensions": DIMS.iter().map(|d| json!({"name": d.name, "choices": d.choices})).collect::<Vec<_>>() }));

    // ---------------- values: flat + nested types, small alphabet
    let mut tys: Vec<Ty> = flat_types();
    tys.extend(nested_types());
    if let Some(tf) = ctx.extra_args.iter().find_map(|a| a.strip_prefix("--type=").map(|s| s.to_string())) {
        tys.retain(|t| t.name.contains(&tf));
    }
    let mut type_report = vec![];
    if want("values") || want("trees") {
        // acceptance probe: every menu type must be accepted by the writer (guards against a silently vacuous grid)
        for (i, t) in tys.iter().enumerate() {
            let case = Case { sub: "accept".into(), tys: vec![t.clone()], cols: vec![vec![]], cfg: Cfg::default(), hist: vec![Op::Write(0)], schedule: None, threads: false };
            st.add("accept", 1, 0);
            eval(&case, i as u64, &mut st);
        }
    }
    let (cap01, cap2, cap3, cap_tree, nmax) = if quick { (260u64, 21u64, 0u64, 450u64, 4usize) } else { (1600, 85, 21, 4000, 5) };
    sub_times.push(("values", ctx.start.elapsed().as_secs_f64()));
    if want("values") {
        let mut blocks = vec![];
        for (i, t) in tys.iter().enumerate() {
            let alpha = small(&t.dt, t.nullable, true);
            if alpha.is_empty() {
                continue;
            }
            let a = alpha.len() as u64;
            let n01 = best_n(a, nmax, cap01);
            // reduced alphabet (<= 4 letters: first, middle, last non-null, Null) for the 2- and 3-deviation blocks
            let red: Vec<Val> = if alpha.len() <= 4 { alpha.clone() } else { vec![alpha[0].clone(), alpha[alpha.len() / 2].clone(), alpha[alpha.len() - 2].clone(), alpha[alpha.len() - 1].clone()] };
            let ra = red.len() as u64;
            let n2 = best_n(ra, nmax, cap2).max(1);
            let n3 = if cap3 > 0 { best_n(ra, nmax, cap3).max(1) } else { 0 };
            type_report.push(json!({"type": t.name, "alphabet": a, "N_at_<=1_deviation": n01, "reduced_alphabet": ra, "N_at_2_deviations": n2, "N_at_3_deviations": n3}));
            blocks.push(Block { ty: i, ncols: col_count(a, n01), alpha: alpha.clone(), nmax: n01, cfgs: c01.clone(), skip: None, sub: "values" });
            // default-sized bloom filter (1 MiB per chunk): columns of length <= 1 only
            blocks.push(Block { ty: i, ncols: col_count(a, 1), alpha: alpha.clone(), nmax: 1, cfgs: bloom_default.clone(), skip: None, sub: "values" });
            blocks.push(Block { ty: i, ncols: col_count(ra, n2), alpha: red.clone(), nmax: n2, cfgs: c2.clone(), skip: None, sub: "values" });
            if n3 > 0 && !c3.is_empty() {
                blocks.push(Block { ty: i, ncols: col_count(ra, n3), alpha: red.clone(), nmax: n3, cfgs: c3.clone(), skip: None, sub: "values" });
            }
        }
        let _ = blocks.iter().map(|b| b.nmax).max();
        run_blocks(ctx, "values", &tys, &blocks, &mut st);
        st.extra.insert("values_bounds_per_type".into(), json!(type_report));
    }
    // ---------------- trees: full one-level tree alphabets of the nested types at <= 1 deviation
    sub_times.push(("trees", ctx.start.elapsed().as_secs_f64()));
    if want("trees") {
        let mut blocks = vec![];
        let mut rep = vec![];
        for (i, t) in tys.iter().enumerate() {
            if is_leaf(&t.dt) {
                continue;
            }
            let sm = small(&t.dt, t.nullable, true);
            let mut alpha = sm.clone();
            for v in full(&t.dt, t.nullable) {
                if !alpha.contains(&v) {
                    alpha.push(v);
                }
            }
            if alpha.len() == sm.len() {
                continue;
            }
            let a = alpha.len() as u64;
            let n = best_n(a, 3, cap_tree).max(1);
            let n_small = best_n(sm.len() as u64, nmax, cap01);
            rep.push(json!({"type": t.name, "tree_alphabet": a, "N": n}));
            blocks.push(Block { ty: i, ncols: col_count(a, n), alpha, nmax: n, cfgs: c01.clone(), skip: Some((sm.len() as u64, n_small)), sub: "trees" });
        }
        run_blocks(ctx, "trees", &tys, &blocks, &mut st);
        st.extra.insert("trees_bounds_per_type".into(), json!(rep));
    }

    // ---------------- histories
    sub_times.push(("history", ctx.start.elapsed().as_secs_f64()));
    if want("history") {
        // quick: 4 columns and 9 dimensions; thorough: 7 columns and 14 dimensions (a 7-column, 5-row-group
        // case read with batch size 1 costs ~4 ms)
        let htys: Vec<Ty> = if quick { history_types().into_iter().take(4).collect() } else { history_types() };
        let hdims: Vec<usize> = if quick {
            vec![D_VERSION, D_DICT, D_DICT_LIMIT, D_PAGE_SIZE, D_PAGE_ROWS, D_WBS, D_RG_ROWS, D_RG_BYTES, D_CDC, D_LAYOUT]
        } else {
            vec![D_VERSION, D_DICT, D_DICT_LIMIT, D_PAGE_SIZE, D_PAGE_ROWS, D_WBS, D_RG_ROWS, D_RG_BYTES, D_COMPRESSION, D_STATS, D_CDC, D_LAYOUT, D_BLOOM, D_OFFIDX]
        };
        let mut hc = exactly(0, &hdims);
        hc.extend(exactly(1, &hdims));
        let hc2 = exactly(2, &hdims);
        // configurations used for the histories that contain an empty write()
        let hce: Vec<Cfg> = vec![Cfg::default(), Cfg::default().with(D_RG_ROWS, 1), Cfg::default().with(D_RG_ROWS, 2), Cfg::default().with(D_RG_BYTES, 1), Cfg::default().with(D_CDC, 1)];
        let nmax_h = 5usize;
        let n2max = if quick { 2 } else { 3 };
        // (n, hist, config class) list; class 0: <=1 deviation, 1: exactly 2 deviations, 2: empty-write set
        let mut items: Vec<(usize, Vec<Op>, u8)> = vec![];
        for n in 0..=nmax_h {
            for (h, has_empty) in histories(n) {
                if has_empty && quick {
                    items.push((n, h, 2));
                    continue;
                }
                items.push((n, h.clone(), 0));
                if n <= n2max {
                    items.push((n, h, 1));
                }
            }
        }
        let variants = if quick { 1u64 } else { 2u64 };
        let bss = 4u64;
        let per_item = |class: u8| match class {
            0 => hc.len() as u64,
            1 => hc2.len() as u64,
            _ => hce.len() as u64,
        };
        let mut starts = vec![];
        let mut total = 0u64;
        for it in &items {
            starts.push(total);
            total += per_item(it.2) * variants * bss;
        }
        st.extra.insert("history_bounds".into(), json!({"rows_max": nmax_h, "rows_max_at_2_deviations": n2max, "histories": items.iter().filter(|i| i.2 != 1).count(),
            "configs_<=1": hc.len(), "configs_2": hc2.len(), "configs_for_histories_with_empty_write(quick)": hce.len(), "reader_batch_sizes": [1024,1,2,3], "content_variants": variants,
            "columns": htys.iter().map(|t| t.name.clone()).collect::<Vec<_>>()}));
        st.merge(par_for(ctx, "history", total, 64, |idx, st| {
            let ii = match starts.binary_search(&idx) {
                Ok(i) => i,
                Err(i) => i - 1,
            };
            let (n, h, class) = &items[ii];
            let mut r = idx - starts[ii];
            let bsi = (r % bss) as usize;
            r /= bss;
            let var = (r % variants) as usize;
            r /= variants;
            let cfg = match class {
                0 => &hc[r as usize],
                1 => &hc2[r as usize],
                _ => &hce[r as usize],
            };
            let cfg = cfg.with(D_READER_BS, bsi);
            let case = Case { sub: "history".into(), tys: htys.clone(), cols: history_cols(&htys, *n, var), cfg, hist: h.clone(), schedule: None, threads: false };
            st.add("history", 1, if *n > 0 { 1 } else { 0 });
            if let Some(o) = eval(&case, (1 << 40) + idx, st) {
                st.outcome(&format!("history|rg={}|batches={}", o.row_groups.len().min(6), o.batches.min(6)));
                st.count(&format!("history-rowgroups:{}", o.row_groups.len()), 1);
                if ii == items.len() - 1 && r == 0 {
                    st.sample("history", || case.to_json());
                }
            }
        }));
    }

    // ---------------- long structured columns
    sub_times.push(("long", ctx.start.elapsed().as_secs_f64()));
    if want("long") {
        let ltys: Vec<Ty> = long_types().into_iter().enumerate().filter(|(i, _)| !quick || LONG_QUICK.contains(i)).map(|(_, t)| t).collect();
        let lens: Vec<usize> = if quick { vec![7, 8, 9, 127, 128, 129, 1023, 1024, 1025] } else { vec![7, 8, 9, 15, 16, 17, 31, 32, 33, 63, 64, 65, 127, 128, 129, 255, 256, 257, 511, 512, 513, 1023, 1024, 1025, 2047, 2048, 2049] };
        let pats = all_pats();
        // bases that put each value encoder in play (dictionary, plain, mid-chunk dictionary fallback,
        // delta family, byte-stream-split family, v2 defaults), then one further deviation
        let bases: Vec<Cfg> = vec![
            Cfg::default(),
            Cfg::default().with(D_DICT, 1),
            Cfg::default().with(D_DICT_LIMIT, 2),
            Cfg::default().with(D_DICT, 1).with(D_ENC, 2),
            Cfg::default().with(D_DICT, 1).with(D_ENC, 3),
            Cfg::default().with(D_DICT, 1).with(D_VERSION, 1),
        ];
        let extra_small: Vec<(usize, usize)> = vec![(D_VERSION, 1), (D_READER_BS, 2), (D_READER_BS, 3), (D_LAYOUT, 1), (D_LAYOUT, 2), (D_CDC, 1), (D_CDC, 2), (D_PAGE_SIZE, 2), (D_WBS, 3), (D_PAGE_ROWS, 3), (D_RG_ROWS, 3), (D_COMPRESSION, 1), (D_COMPRESSION, 6)];
        let extra_big: Vec<(usize, usize)> = vec![(D_VERSION, 1), (D_READER_BS, 3), (D_LAYOUT, 1), (D_CDC, 2), (D_PAGE_SIZE, 2)];
        let mk = |extras: &[(usize, usize)]| {
            let mut v: Vec<Cfg> = vec![];
            for b in &bases {
                if !v.contains(b) {
                    v.push(b.clone());
                }
                for (d, c) in extras {
                    if b.get(*d) == 0 {
                        let x = b.with(*d, *c);
                        if !v.contains(&x) {
                            v.push(x);
                        }
                    }
                }
            }
            v
        };
        let cfg_small = mk(if quick { &extra_small } else { &extra_small });
        let cfg_big = if quick { mk(&extra_big) } else { mk(&extra_small) };
        let big_from = 1000usize;
        let mut items: Vec<(usize, usize, usize)> = vec![]; // (type, len idx, pattern)
        for ti in 0..ltys.len() {
            for li in 0..lens.len() {
                for pi in 0..pats.len() {
                    items.push((ti, li, pi));
                }
            }
        }
        let mut starts = vec![];
        let mut total = 0u64;
        for it in &items {
            starts.push(total);
            total += if lens[it.1] >= big_from { cfg_big.len() } else { cfg_small.len() } as u64;
        }
        st.extra.insert("long_bounds".into(), json!({"lengths": lens, "patterns": pats.iter().map(|p| format!("{p:?}")).collect::<Vec<_>>(), "types": ltys.iter().map(|t| t.name.clone()).collect::<Vec<_>>(),
            "configs_len<1000": cfg_small.iter().map(|c| c.describe()).collect::<Vec<_>>(), "configs_len>=1000": cfg_big.len()}));
        st.merge(par_for(ctx, "long", total, 8, |idx, st| {
            let ii = match starts.binary_search(&idx) {
                Ok(i) => i,
                Err(i) => i - 1,
            };
            let (ti, li, pi) = items[ii];
            let ki = (idx - starts[ii]) as usize;
            let t = &ltys[ti];
            let cfg = if lens[li] >= big_from { &cfg_big[ki] } else { &cfg_small[ki] };
            let Some(vals) = long_col(t, lens[li], pats[pi]) else { return };
            let case = Case { sub: "long".into(), tys: vec![t.clone()], cols: vec![vals], cfg: cfg.clone(), hist: vec![Op::Write(lens[li])], schedule: None, threads: false };
            st.add("long", 1, 1);
            if let Some(o) = eval(&case, (2 << 40) + idx, st) {
                st.outcome(&format!("long|enc={}|rg={}", o.encodings, o.row_groups.len().min(6)));
                if idx == total - 1 {
                    st.sample("long", || json!({"type": t.name, "len": lens[li], "pattern": format!("{:?}", pats[pi]), "cfg": case.cfg.describe()}));
                }
            }
        }));
    }

    // ---------------- nested long families: long child runs below list / map / struct parents
    sub_times.push(("nestlong", ctx.start.elapsed().as_secs_f64()));
    if want("nestlong") {
        use DataType::*;
        // (container kind, leaf): kinds 0 List, 1 LargeList, 2 ListView, 3 FixedSizeList<_,1>, 4 Map, 5 Struct with null rows, 6 List<Struct>
        let leaves = [Int32, Utf8];
        let kinds: Vec<usize> = (0..7).collect();
        let runs: Vec<usize> = if quick { vec![63, 64, 65, 127, 128, 129, 1024] } else { vec![31, 32, 33, 63, 64, 65, 66, 127, 128, 129, 255, 256, 257, 1023, 1024, 1025] };
        // null density of the long run: 0, 1/3, 1/2, 2/3, all
        let dens = 5usize;
        // placement: 0 periodic (alternating), 1 runs (nulls first, then values), 2 xorshift stream threshold
        let places = 3usize;
        // prefix: 0 one short row directly before the long row; 1 short row + empty row; 2 short row + null row;
        // 3 short, empty, short, null (the long row always starts a new child run except for prefix 0)
        let prefixes = 4usize;
        let ndims = all_dims();
        let mut ncfg_small = exactly(0, &ndims);
        ncfg_small.extend(exactly(1, &ndims));
        let ncfg_big: Vec<Cfg> = vec![Cfg::default(), Cfg::default().with(D_VERSION, 1), Cfg::default().with(D_DICT, 1), Cfg::default().with(D_LAYOUT, 1), Cfg::default().with(D_LAYOUT, 2), Cfg::default().with(D_READER_BS, 3), Cfg::default().with(D_PAGE_SIZE, 2), Cfg::default().with(D_CDC, 2), Cfg::default().with(D_DICT_LIMIT, 2), Cfg::default().with(D_WBS, 3)];
        let mk_ty = |kind: usize, leaf: &DataType| -> Ty {
            let dt = match kind {
                0 => list(leaf.clone(), true),
                1 => large_list(leaf.clone(), true),
                2 => list_view(leaf.clone(), true),
                3 => fsl(leaf.clone(), true, 1),
                4 => map(leaf.clone(), true),
                5 => strukt(vec![("a", leaf.clone(), true)]),
                _ => list(strukt(vec![("a", leaf.clone(), true), ("b", Int32, true)]), true),
            };
            Ty { name: format!("{dt}"), family: format!("nestlong:{}", ["List", "LargeList", "ListView", "FixedSizeList", "Map", "Struct", "List<Struct>"][kind]), dt, nullable: true, core: true }
        };
        let stream = lfsr_bytes(4096, LFSR_A);
        let build_rows = |kind: usize, leaf: &DataType, run: usize, den: usize, place: usize, prefix: usize| -> Vec<Val> {
            // slot i of the long run: null or a value that is distinct per position
            let is_null = |i: usize| -> bool {
                match (den, place) {
                    (0, _) => false,
                    (4, _) => true,
                    (1, 0) => i % 3 == 1,
                    (2, 0) => i % 2 == 1,
                    (3, 0) => i % 3 != 0,
                    (1, 1) => i < run / 3,
                    (2, 1) => i < run / 2,
                    (3, 1) => i < 2 * run / 3,
                    (1, _) => stream[i % 4096] % 3 == 0,
                    (2, _) => stream[i % 4096] % 2 == 0,
                    (_, _) => stream[i % 4096] % 3 != 0,
                }
            };
            let leafv = |k: u64| nth_val(leaf, k);
            let slot = |i: usize| if is_null(i) { Val::Null } else { leafv(100 + i as u64) };
            // element of a container row for one leaf slot value
            let elem = |kind: usize, v: Val, k: u64| -> Val {
                match kind {
                    4 => Val::Struct(vec![Val::Str(format!("k{k}")), v]),
                    6 => Val::Struct(vec![v, Val::I(k as i128)]),
                    _ => v,
                }
            };
            let mut rows: Vec<Val> = vec![];
            if kind == 3 || kind == 5 {
                // one leaf slot per row: a run is a sequence of consecutive valid rows
                let row = |v: Val| if kind == 3 { Val::List(vec![v]) } else { Val::Struct(vec![v]) };
                let short = [leafv(1), Val::Null, leafv(2)];
                for v in short.iter().take(1 + prefix % 3) {
                    rows.push(row(v.clone()));
                }
                if prefix > 0 {
                    rows.push(Val::Null);
                }
                for i in 0..run {
                    rows.push(row(slot(i)));
                }
                rows.push(Val::Null);
                rows.push(row(leafv(3)));
            } else {
                let short1 = Val::List(vec![elem(kind, leafv(1), 1), elem(kind, Val::Null, 2), elem(kind, leafv(2), 3)]);
                let short2 = Val::List(vec![elem(kind, leafv(3), 4)]);
                rows.push(short1);
                match prefix {
                    1 => rows.push(Val::List(vec![])),
                    2 => rows.push(Val::Null),
                    3 => {
                        rows.push(Val::List(vec![]));
                        rows.push(short2.clone());
                        rows.push(Val::Null);
                    }
                    _ => {}
                }
                rows.push(Val::List((0..run).map(|i| elem(kind, slot(i), 10 + i as u64)).collect()));
                rows.push(short2);
            }
            rows
        };
        let mut items: Vec<(usize, usize, usize, usize, usize, usize)> = vec![];
        for &kind in &kinds {
            for li in 0..leaves.len() {
                for ri in 0..runs.len() {
                    for den in 0..dens {
                        for place in 0..places {
                            if (den == 0 || den == 4) && place > 0 {
                                continue;
                            }
                            for prefix in 0..prefixes {
                                items.push((kind * 2 + li, ri, den, place, prefix, 0));
                            }
                        }
                    }
                }
            }
        }
        let mut starts = vec![];
        let mut total = 0u64;
        for it in &items {
            starts.push(total);
            total += if runs[it.1] >= 1000 { ncfg_big.len() } else { ncfg_small.len() } as u64;
        }
        st.extra.insert("nestlong_bounds".into(), json!({"containers": ["List", "LargeList", "ListView", "FixedSizeList<_,1>", "Map<Utf8,_>", "Struct with null rows", "List<Struct>"], "leaves": ["Int32", "Utf8"],
            "child_run_lengths": runs, "null_densities": ["0", "1/3", "1/2", "2/3", "all"], "placements": ["periodic", "nulls first", "xorshift stream"], "prefixes": 4,
            "configs_run<1000": ncfg_small.len(), "configs_run>=1000": ncfg_big.len(), "shapes": items.len()}));
        st.merge(par_for(ctx, "nestlong", total, 16, |idx, st| {
            let ii = match starts.binary_search(&idx) {
                Ok(i) => i,
                Err(i) => i - 1,
            };
            let (kl, ri, den, place, prefix, _) = items[ii];
            let (kind, li) = (kl / 2, kl % 2);
            let ki = (idx - starts[ii]) as usize;
            let cfg = if runs[ri] >= 1000 { &ncfg_big[ki] } else { &ncfg_small[ki] };
            let t = mk_ty(kind, &leaves[li]);
            let rows = build_rows(kind, &leaves[li], runs[ri], den, place, prefix);
            let n = rows.len();
            let case = Case { sub: "nestlong".into(), tys: vec![t], cols: vec![rows], cfg: cfg.clone(), hist: vec![Op::Write(n)], schedule: None, threads: false };
            st.add("nestlong", 1, 1);
            if let Some(o) = eval(&case, (5 << 40) + idx, st) {
                st.outcome(&format!("nestlong|enc={}|rg={}", o.encodings, o.row_groups.len().min(6)));
                if idx == total - 1 {
                    st.sample("nestlong", || json!({"type": case.tys[0].name, "run": runs[ri], "density": den, "placement": place, "prefix": prefix, "cfg": case.cfg.describe(), "rows": n}));
                }
            }
        }));
    }

    // ---------------- parallel column writers
    sub_times.push(("parallel", ctx.start.elapsed().as_secs_f64()));
    if want("parallel") {
        let schemas = parallel_schemas();
        let pdims: Vec<usize> = if quick { vec![D_VERSION, D_DICT, D_DICT_LIMIT, D_BLOOM, D_STATS, D_PAGE_ROWS, D_WBS, D_NDV, D_PAGE_SIZE, D_LAYOUT] } else { vec![D_VERSION, D_DICT, D_DICT_LIMIT, D_COMPRESSION, D_BLOOM, D_STATS, D_PAGE_ROWS, D_WBS, D_NDV, D_PAGE_SIZE, D_LAYOUT] };
        let mut pc = exactly(0, &pdims);
        pc.extend(exactly(1, &pdims));
        if quick {
            // two codecs (one block codec, one with a reusable context) instead of all six
            pc.push(Cfg::default().with(D_COMPRESSION, 1));
            pc.push(Cfg::default().with(D_COMPRESSION, 6));
        } else {
            pc.extend(exactly(2, &pdims));
        }
        // (a) two batches in one row group: 3 leaf columns x [write, write, close] -> 1680 interleavings
        // (b) one batch per row group, two row groups: [write, close] per column -> 90 interleavings
        let modes: Vec<(Vec<Op>, usize)> = vec![(vec![Op::Write(2), Op::Write(2)], 3), (vec![Op::Write(2), Op::Flush, Op::Write(2)], 2), (vec![Op::Write(1), Op::Write(0), Op::Write(3)], 4)];
        let mut scheds: Vec<Vec<Vec<usize>>> = vec![];
        for m in &modes {
            scheds.push(interleavings(3, m.1));
        }
        let mut items = vec![];
        for si in 0..schemas.len() {
            for (mi, _) in modes.iter().enumerate() {
                if mi == 2 && quick {
                    continue;
                }
                for ki in 0..pc.len() {
                    if mi == 2 && pc[ki].0.len() > 1 {
                        continue; // the 34650-interleaving mode only at <= 1 deviation
                    }
                    for ii in 0..scheds[mi].len() {
                        items.push((si, mi, ki, ii));
                    }
                }
            }
        }
        st.extra.insert("parallel_bounds".into(), json!({"schemas": schemas.iter().map(|s| s.iter().map(|t| t.name.clone()).collect::<Vec<_>>()).collect::<Vec<_>>(), "leaf_columns": 3,
            "interleavings_per_mode": scheds.iter().map(|s| s.len()).collect::<Vec<_>>(), "configs": pc.len()}));
        st.merge(par_for(ctx, "parallel-1thread", items.len() as u64, 32, |idx, st| {
            let (si, mi, ki, ii) = items[idx as usize];
            let tys = &schemas[si];
            let case = Case { sub: "parallel".into(), tys: tys.clone(), cols: history_cols(tys, 4, si), cfg: pc[ki].clone(), hist: modes[mi].0.clone(), schedule: Some(scheds[mi][ii].clone()), threads: false };
            st.add("parallel", 1, 1);
            st.transitions += scheds[mi][ii].len() as u64;
            st.traces += 1;
            if let Some(o) = eval(&case, (3 << 40) + idx, st) {
                st.outcome(&format!("parallel|rg={}", o.row_groups.len()));
                // the serial ArrowWriter is the reference for the number of row groups
                if ii == 0 {
                    let serial = Case { schedule: None, ..case.clone() };
                    if let Some(os) = eval(&serial, (3 << 40) + idx, st) {
                        if os.row_groups != o.row_groups {
                            st.violate((3 << 40) + idx, "c05:parallel:row-groups-differ-from-serial", format!("serial {:?} parallel {:?}", os.row_groups, o.row_groups), || case.to_json());
                        }
                    }
                    st.sample("parallel", || case.to_json());
                }
            }
        }));
        // real threads: one OS thread per column under the baton scheduler; all schedules
        let tcfgs: Vec<Cfg> = if quick { vec![Cfg::default(), Cfg::default().with(D_COMPRESSION, 6)] } else { pc.iter().filter(|c| c.0.len() <= 1).cloned().collect() };
        // quick: all 1680 schedules of mode (a) for the first schema under the default configuration,
        // all 90 schedules of mode (b) for every schema and both configurations
        let mut titems = vec![];
        for si in 0..schemas.len() {
            for mi in 0..2 {
                for ki in 0..tcfgs.len() {
                    if quick && mi == 0 && (si != 0 || ki != 0) {
                        continue;
                    }
                    titems.push((si, mi, ki));
                }
            }
        }
        st.merge(par_for(ctx, "parallel-threads", titems.len() as u64, 1, |idx, st| {
            let (si, mi, ki) = titems[idx as usize];
            let tys = &schemas[si];
            let base = Case { sub: "parallel-threads".into(), tys: tys.clone(), cols: history_cols(tys, 4, si), cfg: tcfgs[ki].clone(), hist: modes[mi].0.clone(), schedule: Some(vec![]), threads: true };
            // Depth-first enumeration of all schedules (no preemption bound: every interleaving of the
            // scheduling points). With two row groups each row group is scheduled with the same prefix.
            let mut stack: Vec<Vec<usize>> = vec![vec![]];
            let mut n = 0u64;
            while let Some(prefix) = stack.pop() {
                let (schema, batch) = match build_batch(&base) {
                    Ok(x) => x,
                    Err(e) => {
                        eprintln!("MACHINERY: {e:?}");
                        std::process::exit(2)
                    }
                };
                let case = Case { schedule: Some(prefix.clone()), ..base.clone() };
                let r = catch(|| write_parallel(&case, &schema, &batch, &prefix, true, Some(&prefix)));
                n += 1;
                st.add("parallel-threads", 1, 1);
                st.traces += 1;
                let (buf, md, run) = match r {
                    Ok(Ok(x)) => x,
                    Ok(Err((fp, msg))) => {
                        st.violate((4 << 40) + idx * 100000 + n, fp, msg, || case.to_json());
                        continue;
                    }
                    Err(p) => {
                        st.violate((4 << 40) + idx * 100000 + n, format!("c05:{}", p.fingerprint().lines().next().unwrap_or("")), format!("panic {}:{} {}", p.file, p.line, p.msg), || case.to_json());
                        continue;
                    }
                };
                let mut obs = Obs::default();
                match catch(|| read_and_check(&case, buf, &md, &mut obs)) {
                    Ok(Ok(())) => {}
                    Ok(Err((fp, msg))) => st.violate((4 << 40) + idx * 100000 + n, fp, msg, || case.to_json()),
                    Err(p) => st.violate((4 << 40) + idx * 100000 + n, format!("c05:{}", p.fingerprint().lines().next().unwrap_or("")), format!("panic {}:{} {}", p.file, p.line, p.msg), || case.to_json()),
                }
                st.outcome(&format!("parallel-threads|rg={}", obs.row_groups.len()));
                if let Some(run) = run {
                    st.transitions += run.decisions.len() as u64;
                    let choices: Vec<usize> = run.decisions.iter().map(|d| d.1).collect();
                    // only the last row group's decisions are visible; expand alternatives there
                    for i in (prefix.len()..run.decisions.len()).rev() {
                        for alt in 1..run.decisions[i].0.len() {
                            let mut p = choices[..i].to_vec();
                            p.push(alt);
                            stack.push(p);
                        }
                    }
                }
            }
            st.count("thread-schedules", n);
            st.sample("parallel-threads", || json!({"schema": si, "mode": mi, "cfg": tcfgs[ki].describe(), "schedules": n}));
        }));
    }

    sub_times.push(("end", ctx.start.elapsed().as_secs_f64()));
    st.extra.insert("sub_engine_start_s".into(), json!(sub_times.iter().map(|(n, t)| json!([n, (t * 10.0).round() / 10.0])).collect::<Vec<_>>()));
    st.states = st.traces;
    vcore::finish(
        ctx,
        Level {
            category: "exploration",
            rule: "every case is enumerated by index, never sampled. values/trees: (type, column, configuration) triples are distinct by construction; a case is non-trivial when the column has >= 1 row. history: (rows, composition, flush subset, empty-write insertion, content variant, reader batch size, configuration) tuples, non-trivial when n >= 1. long: (type, length, pattern, configuration), all non-trivial. parallel: (schema, mode, configuration, interleaving / thread schedule), all non-trivial. Configurations are all points with <= 2 deviations (quick) from the default over the listed dimensions; writer properties, physical input layout and reader batch size are dimensions of the same product.".into(),
            assumptions: vec![
                "alphabets per type are listed in types.rs (extremes, +-0, NaN payloads incl. signalling, precision-limit decimals, empty / 1-byte / multi-byte / 13-byte strings, null at every level, empty list, list of nulls)".into(),
                "RunEndEncoded only as a top-level column (documented to come back as the value type); coerce_types compared modulo list/map inner field names and Date64 day truncation (documented lossy)".into(),
                "skip_arrow_metadata, encryption, custom parquet schema / schema root are not enumerated".into(),
            ],
            exhaustive_space: "property quantifier: all schemas x all value sequences x all WriterProperties x all write/flush partitions x reader batch sizes x thread completion orders; explored: the bounded sub-space stated in coverage.*_bounds".into(),
        },
        st,
    )
}
