//! C07 — statistics, page indexes and bloom filters never exclude present data.
//!
//! Sub-engines:
//!  * `typed`   : low-level SerializedFileWriter/ColumnWriter, one column of every physical x logical
//!                type, all value sequences N<=Nmax over boundary alphabets (incl. null) x full product
//!                of page layout x statistics level x bloom filter x version x dictionary x page-header
//!                statistics
//!  * `strings` : BYTE_ARRAY/STRING (low-level and through ArrowWriter Utf8 / Utf8View / dictionary):
//!                every string of <= 3 characters over the boundary alphabet as single value, every pair
//!                of <= 2-character strings, x truncate lengths {None,1,2,3,4,64}
//!  * `binary`  : every <= 3-byte string over {00,7F,80,FF}: singles, pairs; BYTE_ARRAY, FLBA(3), Arrow
//!  * `multiwrite`: every type x short sequences x every composition into <= 3 write calls x page / mini-batch layouts
//!  * `arrow`   : ArrowWriter flat types x sequences N<=3 + StatisticsConverter soundness
use crate::c07check::*;
use crate::c07model::*;
use crate::types::*;
use crate::val::*;
use arrow_array::{Array, ArrayRef, RecordBatch};
use arrow_schema::{DataType, Field, Schema};
use bytes::Bytes;
use parquet::arrow::ArrowWriter;
use parquet::arrow::arrow_reader::statistics::StatisticsConverter;
use parquet::arrow::arrow_reader::{ArrowReaderMetadata, ArrowReaderOptions, ParquetRecordBatchReaderBuilder};
use parquet::basic::Type as PhysicalType;
use parquet::data_type::{BoolType, ByteArray, ByteArrayType, DataType as PqType, DoubleType, FixedLenByteArray, FixedLenByteArrayType, FloatType, Int32Type, Int64Type, Int96, Int96Type};
use parquet::file::metadata::PageIndexPolicy;
use parquet::file::properties::{EnabledStatistics, WriterProperties, WriterVersion};
use parquet::file::writer::SerializedFileWriter;
use parquet::schema::parser::parse_message_type;
use std::cmp::Ordering;
use std::sync::Arc;
use vcore::serde_json::{Value, json};
use vcore::{Ctx, Level, Stats, catch, par_for};

// ---- configuration ------------------------------------------------------------------------------

#[derive(Clone, Copy, Debug, PartialEq, Eq)]
pub struct C7Cfg {
    /// 0 = all rows in one page, k = data_page_row_count_limit k with write_batch_size 1
    pub page_rows: u8,
    /// 0 Page, 1 Chunk, 2 None
    pub stats: u8,
    /// 0 off, 1 on (max_ndv=1000), 2 ndv=1 fpp=0.5, 3 ndv=8 fpp=0.01, 4 on (default ndv=1M, ~1 MiB filter; bloomlong only), 5 max_ndv=100 fpp=0.01 (bloomlong only)
    pub bloom: u8,
    pub v2: bool,
    pub dict: bool,
    pub hdr: bool,
    /// 0 = default (64), 1..=4 = Some(k), 5 = None, 6 = stats Some(1) / column index None, 7 = stats None / column index Some(1)
    pub trunc: u8,
    /// dictionary page size limit: 0 = default, 1 = 1 byte (fallback after the first mini-batch), 2 = 16 bytes (mid-chunk fallback)
    pub dlimit: u8,
    /// write batch size: 0 = library default (or 1 when page_rows > 0), k = k
    pub wbs: u8,
    /// partition of the rows into write calls (ArrowWriter::write / ColumnWriter::write_batch): part lengths, all 0 = one call
    pub parts: [u8; 3],
}
impl C7Cfg {
    pub const DEFAULT: C7Cfg = C7Cfg { page_rows: 0, stats: 0, bloom: 0, v2: false, dict: true, hdr: false, trunc: 0, dlimit: 0, wbs: 0, parts: [0; 3] };
    fn to_json(&self) -> Value {
        json!({"page_rows": self.page_rows, "stats": self.stats, "bloom": self.bloom, "v2": self.v2, "dict": self.dict, "hdr": self.hdr, "trunc": self.trunc, "dlimit": self.dlimit, "wbs": self.wbs, "parts": self.parts})
    }
    fn from_json(v: &Value) -> C7Cfg {
        C7Cfg {
            page_rows: v["page_rows"].as_u64().unwrap_or(0) as u8,
            stats: v["stats"].as_u64().unwrap_or(0) as u8,
            bloom: v["bloom"].as_u64().unwrap_or(0) as u8,
            v2: v["v2"].as_bool().unwrap_or(false),
            dict: v["dict"].as_bool().unwrap_or(true),
            hdr: v["hdr"].as_bool().unwrap_or(false),
            trunc: v["trunc"].as_u64().unwrap_or(0) as u8,
            dlimit: v["dlimit"].as_u64().unwrap_or(0) as u8,
            wbs: v["wbs"].as_u64().unwrap_or(0) as u8,
            parts: [v["parts"][0].as_u64().unwrap_or(0) as u8, v["parts"][1].as_u64().unwrap_or(0) as u8, v["parts"][2].as_u64().unwrap_or(0) as u8],
        }
    }
    fn props(&self) -> WriterProperties {
        let mut b = WriterProperties::builder();
        if self.page_rows > 0 {
            b = b.set_write_batch_size(1).set_data_page_row_count_limit(self.page_rows as usize);
        }
        if self.wbs > 0 {
            b = b.set_write_batch_size(self.wbs as usize);
        }
        b = b.set_statistics_enabled([EnabledStatistics::Page, EnabledStatistics::Chunk, EnabledStatistics::None][self.stats as usize]);
        match self.bloom {
            1 => b = b.set_bloom_filter_enabled(true).set_bloom_filter_max_ndv(1000),
            4 => b = b.set_bloom_filter_enabled(true),
            5 => b = b.set_bloom_filter_enabled(true).set_bloom_filter_max_ndv(100).set_bloom_filter_fpp(0.01),
            2 => b = b.set_bloom_filter_enabled(true).set_bloom_filter_max_ndv(1).set_bloom_filter_fpp(0.5),
            3 => b = b.set_bloom_filter_enabled(true).set_bloom_filter_max_ndv(8).set_bloom_filter_fpp(0.01),
            _ => {}
        }
        if self.v2 {
            b = b.set_writer_version(WriterVersion::PARQUET_2_0);
        }
        b = b.set_dictionary_enabled(self.dict);
        match self.dlimit {
            1 => b = b.set_dictionary_page_size_limit(1),
            2 => b = b.set_dictionary_page_size_limit(16),
            _ => {}
        }
        if self.hdr {
            b = b.set_write_page_header_statistics(true);
        }
        let t = |k: u8| Some(k as usize);
        match self.trunc {
            0 => {}
            k @ 1..=4 => b = b.set_statistics_truncate_length(t(k)).set_column_index_truncate_length(t(k)),
            5 => b = b.set_statistics_truncate_length(None).set_column_index_truncate_length(None),
            6 => b = b.set_statistics_truncate_length(Some(1)).set_column_index_truncate_length(None),
            _ => b = b.set_statistics_truncate_length(None).set_column_index_truncate_length(Some(1)),
        }
        b.build()
    }
}

impl C7Cfg {
    /// (offset, len) of every write call for `n` rows
    fn calls(&self, n: usize) -> Vec<(usize, usize)> {
        if self.parts == [0; 3] {
            return vec![(0, n)];
        }
        let mut out = vec![];
        let mut off = 0;
        for p in self.parts.iter().filter(|p| **p > 0) {
            out.push((off, *p as usize));
            off += *p as usize;
        }
        assert_eq!(off, n, "parts must cover the rows");
        out
    }
}

/// full product over the non-truncation dimensions
fn product_cfgs() -> Vec<C7Cfg> {
    let mut v = vec![];
    for page_rows in [0u8, 1, 2] {
        for stats in 0..3u8 {
            for bloom in 0..4u8 {
                for v2 in [false, true] {
                    for dict in [true, false] {
                        for hdr in [false, true] {
                            v.push(C7Cfg { page_rows, stats, bloom, v2, dict, hdr, trunc: 0, dlimit: 0, wbs: 0, parts: [0; 3] });
                        }
                    }
                }
            }
        }
    }
    v
}
/// <= 1 deviation from the default
fn dev1_cfgs() -> Vec<C7Cfg> {
    let d = C7Cfg::DEFAULT;
    vec![
        d,
        C7Cfg { page_rows: 1, ..d },
        C7Cfg { page_rows: 2, ..d },
        C7Cfg { stats: 1, ..d },
        C7Cfg { stats: 2, ..d },
        C7Cfg { bloom: 1, ..d },
        C7Cfg { bloom: 2, ..d },
        C7Cfg { bloom: 3, ..d },
        C7Cfg { v2: true, ..d },
        C7Cfg { dict: false, ..d },
        C7Cfg { hdr: true, ..d },
        C7Cfg { page_rows: 1, hdr: true, ..d },
        // dictionary fallback (immediately / mid-chunk), one page and several pages
        C7Cfg { dlimit: 1, ..d },
        C7Cfg { dlimit: 1, page_rows: 1, ..d },
        C7Cfg { dlimit: 1, page_rows: 2, ..d },
        C7Cfg { dlimit: 2, page_rows: 1, ..d },
    ]
}
/// truncation product used for byte-array columns
fn trunc_cfgs(quick: bool) -> Vec<C7Cfg> {
    let mut v = vec![];
    let truncs: Vec<u8> = vec![5, 1, 2, 3, 4, 0, 6, 7];
    for trunc in truncs {
        for page_rows in [0u8, 1] {
            for (stats, hdr) in [(0u8, false), (0, true), (1, false)] {
                for v2 in if quick { vec![false] } else { vec![false, true] } {
                    for dict in [true, false] {
                        v.push(C7Cfg { page_rows, stats, bloom: 0, v2, dict, hdr, trunc, dlimit: 0, wbs: 0, parts: [0; 3] });
                    }
                }
            }
        }
    }
    v.push(C7Cfg { bloom: 1, ..C7Cfg::DEFAULT });
    v.push(C7Cfg { bloom: 2, ..C7Cfg::DEFAULT });
    v.push(C7Cfg { dlimit: 1, page_rows: 1, ..C7Cfg::DEFAULT });
    v.push(C7Cfg { dlimit: 1, page_rows: 1, trunc: 1, hdr: true, ..C7Cfg::DEFAULT });
    v.push(C7Cfg { dlimit: 2, page_rows: 1, ..C7Cfg::DEFAULT });
    v
}

// ---- low-level column specs ---------------------------------------------------------------------

#[derive(Clone, Debug)]
pub struct Spec {
    pub label: &'static str,
    pub decl: &'static str,
    pub phys: PhysicalType,
    pub alpha: Vec<Raw>,
}

fn b(x: &[u8]) -> Raw {
    Raw::Bytes(x.to_vec())
}

pub fn specs() -> Vec<Spec> {
    use PhysicalType::*;
    let i32s = |v: &[i32]| v.iter().map(|x| Raw::I32(*x)).collect::<Vec<_>>();
    let i64s = |v: &[i64]| v.iter().map(|x| Raw::I64(*x)).collect::<Vec<_>>();
    let f32s: Vec<Raw> = [0x7fc0_0001u32, 0xffc0_0000, 0xff80_0000, 0x8000_0000, 0, 0x3fc0_0000, 0x7f80_0000].iter().map(|x| Raw::F32(*x)).collect();
    let f64s: Vec<Raw> = [0x7ff8_0000_0000_0001u64, 0xfff8_0000_0000_0000, 0xfff0_0000_0000_0000, 1 << 63, 0, 0x3ff8_0000_0000_0000, 0x7ff0_0000_0000_0000].iter().map(|x| Raw::F64(*x)).collect();
    let full32 = i32s(&[i32::MIN, -1, 0, 1, i32::MAX]);
    let full64 = i64s(&[i64::MIN, -1, 0, 1, i64::MAX]);
    vec![
        Spec { label: "BOOLEAN", decl: "boolean c", phys: BOOLEAN, alpha: vec![Raw::Bool(false), Raw::Bool(true)] },
        Spec { label: "INT32", decl: "int32 c", phys: INT32, alpha: full32.clone() },
        Spec { label: "INT32/INT8", decl: "int32 c (INTEGER(8,true))", phys: INT32, alpha: i32s(&[-128, -1, 0, 1, 127]) },
        Spec { label: "INT32/INT16", decl: "int32 c (INTEGER(16,true))", phys: INT32, alpha: i32s(&[-32768, -1, 0, 1, 32767]) },
        Spec { label: "INT32/UINT8", decl: "int32 c (INTEGER(8,false))", phys: INT32, alpha: i32s(&[0, 1, 127, 128, 255]) },
        Spec { label: "INT32/UINT16", decl: "int32 c (INTEGER(16,false))", phys: INT32, alpha: i32s(&[0, 1, 32767, 32768, 65535]) },
        Spec { label: "INT32/UINT32", decl: "int32 c (INTEGER(32,false))", phys: INT32, alpha: full32.clone() },
        Spec { label: "INT32/DATE", decl: "int32 c (DATE)", phys: INT32, alpha: full32.clone() },
        Spec { label: "INT32/TIME_MILLIS", decl: "int32 c (TIME(MILLIS,true))", phys: INT32, alpha: i32s(&[0, 1, 86_399_999, -1, i32::MAX]) },
        Spec { label: "INT32/DECIMAL", decl: "int32 c (DECIMAL(9,2))", phys: INT32, alpha: i32s(&[-999_999_999, -1, 0, 1, 999_999_999]) },
        Spec { label: "INT64", decl: "int64 c", phys: INT64, alpha: full64.clone() },
        Spec { label: "INT64/UINT64", decl: "int64 c (INTEGER(64,false))", phys: INT64, alpha: full64.clone() },
        Spec { label: "INT64/TIMESTAMP_MILLIS", decl: "int64 c (TIMESTAMP(MILLIS,true))", phys: INT64, alpha: full64.clone() },
        Spec { label: "INT64/TIMESTAMP_NANOS", decl: "int64 c (TIMESTAMP(NANOS,false))", phys: INT64, alpha: full64.clone() },
        Spec { label: "INT64/TIME_MICROS", decl: "int64 c (TIME(MICROS,true))", phys: INT64, alpha: i64s(&[0, 1, 86_399_999_999, -1, i64::MAX]) },
        Spec { label: "INT64/DECIMAL", decl: "int64 c (DECIMAL(18,2))", phys: INT64, alpha: i64s(&[-999_999_999_999_999_999, -1, 0, 1, 999_999_999_999_999_999]) },
        Spec { label: "INT96", decl: "int96 c", phys: INT96, alpha: vec![Raw::I96([0, 0, 2_440_588]), Raw::I96([1, 0, 2_440_588]), Raw::I96([0, 1, 2_440_587]), Raw::I96([u32::MAX, 0x4e94, 2_440_589]), Raw::I96([5, 0, 1])] },
        Spec { label: "FLOAT", decl: "float c", phys: FLOAT, alpha: f32s },
        Spec { label: "DOUBLE", decl: "double c", phys: DOUBLE, alpha: f64s },
        Spec { label: "FLBA2/FLOAT16", decl: "fixed_len_byte_array(2) c (FLOAT16)", phys: FIXED_LEN_BYTE_ARRAY, alpha: vec![b(&[0x01, 0x7e]), b(&[0x00, 0xfe]), b(&[0x00, 0xfc]), b(&[0x00, 0x80]), b(&[0, 0]), b(&[0x00, 0x3c]), b(&[0x00, 0x7c])] },
        Spec { label: "FLBA4/DECIMAL", decl: "fixed_len_byte_array(4) c (DECIMAL(9,2))", phys: FIXED_LEN_BYTE_ARRAY, alpha: vec![b(&[0, 0, 0, 0]), b(&[0, 0, 0, 5]), b(&[0x3b, 0x9a, 0xc9, 0xff]), b(&[0xc4, 0x65, 0x36, 0x01]), b(&[0xff, 0xff, 0xff, 0xff]), b(&[0xff, 0, 0, 0])] },
        Spec { label: "FLBA16/DECIMAL", decl: "fixed_len_byte_array(16) c (DECIMAL(38,10))", phys: FIXED_LEN_BYTE_ARRAY, alpha: vec![b(&[0; 16]), b(&[0xff; 16]), b(&[0x7f, 0, 0, 0, 0, 0, 0, 0, 0, 0, 0, 0, 0, 0, 0, 0]), b(&[0x80, 0, 0, 0, 0, 0, 0, 0, 0, 0, 0, 0, 0, 0, 0, 1]), b(&[0, 0, 0, 0, 0, 0, 0, 0, 0xff, 0, 0, 0, 0, 0, 0, 0])] },
        // variable-length big-endian decimals (sign-extension cases): 5, 4, 5, -1, -5, 128, -128, 127, -1 (2 bytes)
        Spec { label: "BYTE_ARRAY/DECIMAL", decl: "binary c (DECIMAL(20,2))", phys: BYTE_ARRAY, alpha: vec![b(&[0, 0, 5]), b(&[0, 4]), b(&[5]), b(&[0xff]), b(&[0xff, 0xff, 0xfb]), b(&[0, 0x80]), b(&[0x80]), b(&[0xff, 0xff])] },
        Spec { label: "FLBA2", decl: "fixed_len_byte_array(2) c", phys: FIXED_LEN_BYTE_ARRAY, alpha: vec![b(&[0, 0]), b(&[0, 0xff]), b(&[0x7f, 0]), b(&[0x80, 0]), b(&[0xff, 0]), b(&[0xff, 0xff])] },
        Spec { label: "FLBA12/INTERVAL", decl: "fixed_len_byte_array(12) c (INTERVAL)", phys: FIXED_LEN_BYTE_ARRAY, alpha: vec![b(&[0; 12]), b(&[1, 0, 0, 0, 0, 0, 0, 0, 0, 0, 0, 0]), b(&[0, 0, 0, 0, 0, 0, 0, 0, 0xff, 0xff, 0xff, 0xff]), b(&[0xff; 12])] },
        Spec { label: "FLBA16/UUID", decl: "fixed_len_byte_array(16) c (UUID)", phys: FIXED_LEN_BYTE_ARRAY, alpha: vec![b(&[0; 16]), b(&[0xff; 16]), b(&[0x80, 0, 0, 0, 0, 0, 0, 0, 0, 0, 0, 0, 0, 0, 0, 0x7f])] },
        Spec { label: "BYTE_ARRAY/ENUM", decl: "binary c (ENUM)", phys: BYTE_ARRAY, alpha: vec![b(b""), b(b"a"), b(&[0x80]), b(&[0x7f, 0xff])] },
        Spec { label: "BYTE_ARRAY/JSON", decl: "binary c (JSON)", phys: BYTE_ARRAY, alpha: vec![b(b"{}"), b(b"[]"), b("\"é\"".as_bytes())] },
    ]
}
fn string_spec() -> Spec {
    Spec { label: "BYTE_ARRAY/STRING", decl: "binary c (STRING)", phys: PhysicalType::BYTE_ARRAY, alpha: vec![] }
}
fn binary_spec() -> Spec {
    Spec { label: "BYTE_ARRAY", decl: "binary c", phys: PhysicalType::BYTE_ARRAY, alpha: vec![] }
}
fn flba3_spec() -> Spec {
    Spec { label: "FLBA3", decl: "fixed_len_byte_array(3) c", phys: PhysicalType::FIXED_LEN_BYTE_ARRAY, alpha: vec![] }
}
fn spec_by_label(l: &str) -> Option<Spec> {
    specs().into_iter().chain([string_spec(), binary_spec(), flba3_spec()]).find(|s| s.label == l)
}

fn raw_json(r: &Option<Raw>) -> Value {
    match r {
        None => Value::Null,
        Some(Raw::Bool(x)) => json!({"bool": x}),
        Some(Raw::I32(x)) => json!({"i32": x}),
        Some(Raw::I64(x)) => json!({"i64": x.to_string()}),
        Some(Raw::I96(x)) => json!({"i96": x}),
        Some(Raw::F32(x)) => json!({"f32": x}),
        Some(Raw::F64(x)) => json!({"f64": x.to_string()}),
        Some(Raw::Bytes(x)) => json!({"b": x}),
    }
}
fn raw_from_json(v: &Value) -> Option<Raw> {
    let o = v.as_object()?;
    let (k, x) = o.iter().next()?;
    Some(match k.as_str() {
        "bool" => Raw::Bool(x.as_bool().unwrap()),
        "i32" => Raw::I32(x.as_i64().unwrap() as i32),
        "i64" => Raw::I64(x.as_str().unwrap().parse().unwrap()),
        "i96" => Raw::I96([x[0].as_u64().unwrap() as u32, x[1].as_u64().unwrap() as u32, x[2].as_u64().unwrap() as u32]),
        "f32" => Raw::F32(x.as_u64().unwrap() as u32),
        "f64" => Raw::F64(x.as_str().unwrap().parse().unwrap()),
        _ => Raw::Bytes(x.as_array().unwrap().iter().map(|b| b.as_u64().unwrap() as u8).collect()),
    })
}

fn write_lowlevel(spec: &Spec, rows: &[Option<Raw>], cfg: &C7Cfg) -> Result<Vec<u8>, Fail> {
    let fe = |stage: &str, e: &dyn std::fmt::Display| (format!("c07:write-error:{}:{stage}", spec.label), format!("{stage}: {e}"));
    let schema = Arc::new(parse_message_type(&format!("message m {{ optional {}; }}", spec.decl)).map_err(|e| ("harness:schema".to_string(), format!("{e}")))?);
    let mut buf = vec![];
    {
        let mut w = SerializedFileWriter::new(&mut buf, schema, Arc::new(cfg.props())).map_err(|e| fe("new", &e))?;
        let mut rg = w.next_row_group().map_err(|e| fe("next_row_group", &e))?;
        let mut cw = rg.next_column().map_err(|e| fe("next_column", &e))?.expect("one column");
        for (off, len) in cfg.calls(rows.len()) {
        let rows = &rows[off..off + len];
        let def: Vec<i16> = rows.iter().map(|r| r.is_some() as i16).collect();
        let vals: Vec<&Raw> = rows.iter().flatten().collect();
        macro_rules! wr {
            ($t:ty, $conv:expr) => {{
                let v: Vec<<$t as PqType>::T> = vals.iter().map(|r| $conv(r)).collect();
                cw.typed::<$t>().write_batch(&v, Some(&def), None).map_err(|e| fe("write_batch", &e))?;
            }};
        }
        match spec.phys {
            PhysicalType::BOOLEAN => wr!(BoolType, |r: &&Raw| matches!(r, Raw::Bool(true))),
            PhysicalType::INT32 => wr!(Int32Type, |r: &&Raw| if let Raw::I32(x) = r { *x } else { panic!() }),
            PhysicalType::INT64 => wr!(Int64Type, |r: &&Raw| if let Raw::I64(x) = r { *x } else { panic!() }),
            PhysicalType::INT96 => wr!(Int96Type, |r: &&Raw| if let Raw::I96(x) = r {
                let mut i = Int96::new();
                i.set_data(x[0], x[1], x[2]);
                i
            } else {
                panic!()
            }),
            PhysicalType::FLOAT => wr!(FloatType, |r: &&Raw| if let Raw::F32(x) = r { f32::from_bits(*x) } else { panic!() }),
            PhysicalType::DOUBLE => wr!(DoubleType, |r: &&Raw| if let Raw::F64(x) = r { f64::from_bits(*x) } else { panic!() }),
            PhysicalType::BYTE_ARRAY => wr!(ByteArrayType, |r: &&Raw| if let Raw::Bytes(x) = r { ByteArray::from(x.clone()) } else { panic!() }),
            PhysicalType::FIXED_LEN_BYTE_ARRAY => wr!(FixedLenByteArrayType, |r: &&Raw| if let Raw::Bytes(x) = r { FixedLenByteArray::from(x.clone()) } else { panic!() }),
        }
        }
        cw.close().map_err(|e| fe("column close", &e))?;
        rg.close().map_err(|e| fe("row group close", &e))?;
        w.close().map_err(|e| fe("file close", &e))?;
    }
    Ok(buf)
}

// ---- Arrow path + StatisticsConverter -----------------------------------------------------------

fn val_cmp(a: &Val, b: &Val) -> Option<Ordering> {
    Some(match (a, b) {
        (Val::Bool(x), Val::Bool(y)) => x.cmp(y),
        (Val::I(x), Val::I(y)) => x.cmp(y),
        (Val::D256(h, l), Val::D256(g, k)) => (h, l).cmp(&(g, k)),
        (Val::F16(x), Val::F16(y)) => half::f16::from_bits(*x).partial_cmp(&half::f16::from_bits(*y))?,
        (Val::F32(x), Val::F32(y)) => f32::from_bits(*x).partial_cmp(&f32::from_bits(*y))?,
        (Val::F64(x), Val::F64(y)) => f64::from_bits(*x).partial_cmp(&f64::from_bits(*y))?,
        (Val::Str(x), Val::Str(y)) => x.as_bytes().cmp(y.as_bytes()),
        (Val::Bytes(x), Val::Bytes(y)) => x.cmp(y),
        _ => return None,
    })
}
fn val_is_nan(v: &Val) -> bool {
    match v {
        Val::F16(x) => half::f16::from_bits(*x).is_nan(),
        Val::F32(x) => f32::from_bits(*x).is_nan(),
        Val::F64(x) => f64::from_bits(*x).is_nan(),
        _ => false,
    }
}

fn write_arrow(t: &Ty, vals: &[Val], cfg: &C7Cfg) -> Result<Vec<u8>, Fail> {
    let schema = Arc::new(Schema::new(vec![Field::new("c", t.dt.clone(), t.nullable)]));
    let arr: ArrayRef = realise(&t.dt, vals, Lay::Compact);
    let batch = RecordBatch::try_new(schema.clone(), vec![arr]).map_err(|e| ("harness:batch".to_string(), format!("{e}")))?;
    let mut buf = vec![];
    let mut w = ArrowWriter::try_new(&mut buf, schema, Some(cfg.props())).map_err(|e| (format!("c07:write-error:{}:try_new", t.family), format!("{e}")))?;
    for (off, len) in cfg.calls(vals.len()) {
        w.write(&batch.slice(off, len)).map_err(|e| (format!("c07:write-error:{}:write", t.family), format!("{e}")))?;
    }
    w.close().map_err(|e| (format!("c07:write-error:{}:close", t.family), format!("{e}")))?;
    Ok(buf)
}

/// StatisticsConverter outputs are sound bounds / exact counts for the rows read back through the
/// Arrow reader (Arrow-domain comparison; NaN and interval values carry no order).
fn check_converter(bytes: &Bytes, op: &Opened, label: &str, obs: &mut ConvObs) -> Result<(), Fail> {
    let fe = |what: &str, e: &dyn std::fmt::Display| (format!("c07:converter-error:{label}:{what}"), format!("{what}: {e}"));
    let arm = ArrowReaderMetadata::load(bytes, ArrowReaderOptions::new().with_page_index_policy(PageIndexPolicy::Optional)).map_err(|e| fe("load", &e))?;
    let schema = arm.schema().clone();
    let md = arm.metadata().clone();
    let _ = op;
    let reader = ParquetRecordBatchReaderBuilder::new_with_metadata(bytes.clone(), arm).with_batch_size(1024).build().map_err(|e| fe("reader", &e))?;
    let mut rows: Vec<Val> = vec![];
    for bt in reader {
        let bt = bt.map_err(|e| fe("read", &e))?;
        rows.extend(extract(bt.column(0).as_ref()));
    }
    let fname = schema.field(0).name().clone();
    if matches!(schema.field(0).data_type(), DataType::Interval(_)) {
        return Ok(());
    }
    let conv = StatisticsConverter::try_new(&fname, &schema, md.file_metadata().schema_descr()).map_err(|e| fe("try_new", &e))?;
    let rgs = md.row_groups();
    let mins = conv.row_group_mins(rgs).map_err(|e| fe("row_group_mins", &e))?;
    let maxes = conv.row_group_maxes(rgs).map_err(|e| fe("row_group_maxes", &e))?;
    for a in [&mins, &maxes] {
        a.to_data().validate_full().map_err(|e| (format!("wf:c07:converter:{label}"), format!("converter output invalid: {e}")))?;
        if a.len() != rgs.len() {
            return Err((format!("c07:converter-length:{label}"), format!("{} entries for {} row groups", a.len(), rgs.len())));
        }
    }
    let nulls = conv.row_group_null_counts(rgs).map_err(|e| fe("row_group_null_counts", &e))?;
    let counts = conv.row_group_row_counts(rgs).map_err(|e| fe("row_group_row_counts", &e))?;
    let min_exact = conv.row_group_is_min_value_exact(rgs).map_err(|e| fe("is_min_value_exact", &e))?;
    let max_exact = conv.row_group_is_max_value_exact(rgs).map_err(|e| fe("is_max_value_exact", &e))?;
    let (minv, maxv) = (extract(mins.as_ref()), extract(maxes.as_ref()));
    let mut off = 0usize;
    for (i, rg) in rgs.iter().enumerate() {
        let n = rg.num_rows() as usize;
        let part = &rows[off..off + n];
        off += n;
        let present: Vec<&Val> = part.iter().filter(|v| !v.is_null() && !val_is_nan(v)).collect();
        let has_chunk_stats = rg.column(0).statistics().is_some();
        if let Some(c) = &counts {
            if c.is_valid(i) && c.value(i) as usize != n {
                return Err((format!("c07:converter-row-count:{label}"), format!("row group {i}: row count {} but {n} rows", c.value(i))));
            }
        }
        if has_chunk_stats && nulls.is_valid(i) && rg.column(0).statistics().and_then(|s| s.null_count_opt()).is_some() {
            let nn = part.iter().filter(|v| v.is_null()).count();
            if nulls.value(i) as usize != nn {
                return Err((format!("c07:converter-null-count:{label}"), format!("row group {i}: null count {} but {nn} nulls read", nulls.value(i))));
            }
        }
        for (which, bound, exact) in [("min", &minv[i], &min_exact), ("max", &maxv[i], &max_exact)] {
            if bound.is_null() || val_is_nan(bound) {
                continue;
            }
            obs.bounds += 1;
            for v in &present {
                let c = val_cmp(bound, v);
                let bad = if which == "min" { c == Some(Ordering::Greater) } else { c == Some(Ordering::Less) };
                if bad {
                    return Err((format!("c07:converter-{which}-not-a-bound:{label}"), format!("row group {i}: converter {which} {bound:?} does not bound value {v:?}")));
                }
            }
            if exact.is_valid(i) && exact.value(i) && !present.is_empty() && !present.iter().any(|v| val_cmp(bound, v) == Some(Ordering::Equal)) {
                return Err((format!("c07:converter-{which}-exact-not-attained:{label}"), format!("row group {i}: converter {which} {bound:?} flagged exact, values {present:?}")));
            }
        }
    }
    // data page level
    if let Some(pi) = md.page_index() {
        let idx: Vec<usize> = (0..rgs.len()).collect();
        if pi.column_index(0, 0).is_some() && pi.offset_index(0, 0).is_some() {
            let pmins = conv.data_page_mins(pi, &idx).map_err(|e| fe("data_page_mins", &e))?;
            let pmaxes = conv.data_page_maxes(pi, &idx).map_err(|e| fe("data_page_maxes", &e))?;
            let pnulls = conv.data_page_null_counts(pi, &idx).map_err(|e| fe("data_page_null_counts", &e))?;
            let prows = conv.data_page_row_counts(pi, rgs, &idx).map_err(|e| fe("data_page_row_counts", &e))?;
            for a in [&pmins, &pmaxes] {
                a.to_data().validate_full().map_err(|e| (format!("wf:c07:converter:{label}"), format!("converter page output invalid: {e}")))?;
            }
            if let Some(prows) = prows {
                let (pminv, pmaxv) = (extract(pmins.as_ref()), extract(pmaxes.as_ref()));
                if prows.len() != pminv.len() || prows.len() != pnulls.len() {
                    return Err((format!("c07:converter-page-length:{label}"), format!("page arrays differ in length: rows {} mins {} nulls {}", prows.len(), pminv.len(), pnulls.len())));
                }
                let total: u64 = (0..prows.len()).map(|k| prows.value(k)).sum();
                if total as usize != rows.len() {
                    return Err((format!("c07:converter-page-row-counts:{label}"), format!("page row counts sum to {total}, file has {} rows", rows.len())));
                }
                let mut at = 0usize;
                for k in 0..prows.len() {
                    let n = prows.value(k) as usize;
                    let part = &rows[at..at + n];
                    at += n;
                    obs.pages += 1;
                    if pnulls.is_valid(k) {
                        let nn = part.iter().filter(|v| v.is_null()).count();
                        if pnulls.value(k) as usize != nn {
                            return Err((format!("c07:converter-page-null-count:{label}"), format!("page {k}: null count {} but {nn} nulls", pnulls.value(k))));
                        }
                    }
                    for v in part.iter().filter(|v| !v.is_null() && !val_is_nan(v)) {
                        if !pminv[k].is_null() && !val_is_nan(&pminv[k]) && val_cmp(&pminv[k], v) == Some(Ordering::Greater) {
                            return Err((format!("c07:converter-page-min-not-a-bound:{label}"), format!("page {k}: min {:?} does not bound {v:?}", pminv[k])));
                        }
                        if !pmaxv[k].is_null() && !val_is_nan(&pmaxv[k]) && val_cmp(&pmaxv[k], v) == Some(Ordering::Less) {
                            return Err((format!("c07:converter-page-max-not-a-bound:{label}"), format!("page {k}: max {:?} does not bound {v:?}", pmaxv[k])));
                        }
                    }
                }
            }
        }
    }
    Ok(())
}

#[derive(Default, Debug)]
struct ConvObs {
    bounds: usize,
    pages: usize,
}

// ---- cases --------------------------------------------------------------------------------------

#[derive(Clone, Debug)]
enum Input {
    Low { spec: Spec, rows: Vec<Option<Raw>> },
    Arrow { ty: Ty, vals: Vec<Val> },
}
#[derive(Clone, Debug)]
struct Case {
    sub: &'static str,
    input: Input,
    cfg: C7Cfg,
}
impl Case {
    fn label(&self) -> String {
        match &self.input {
            Input::Low { spec, .. } => spec.label.to_string(),
            Input::Arrow { ty, .. } => format!("arrow:{}", ty.family),
        }
    }
    fn to_json(&self) -> Value {
        match &self.input {
            Input::Low { spec, rows } => json!({"sub": self.sub, "path": "low-level", "spec": spec.label, "decl": spec.decl, "rows": rows.iter().map(raw_json).collect::<Vec<_>>(), "cfg": self.cfg.to_json()}),
            Input::Arrow { ty, vals } => json!({"sub": self.sub, "path": "arrow", "type": crate::c05::type_to_json(&ty.dt), "type_name": ty.name, "family": ty.family, "nullable": ty.nullable, "vals": vals_json(vals), "cfg": self.cfg.to_json()}),
        }
    }
    fn from_json(v: &Value) -> Case {
        let cfg = C7Cfg::from_json(&v["cfg"]);
        let input = if v["path"] == "low-level" {
            Input::Low { spec: spec_by_label(v["spec"].as_str().unwrap()).expect("spec"), rows: v["rows"].as_array().unwrap().iter().map(raw_from_json).collect() }
        } else {
            let dt = crate::c05::type_from_json(&v["type"]);
            Input::Arrow { ty: Ty { name: v["type_name"].as_str().unwrap_or("").into(), family: v["family"].as_str().unwrap_or("").into(), dt, nullable: v["nullable"].as_bool().unwrap_or(true), core: false }, vals: vals_from_json(&v["vals"]) }
        };
        Case { sub: "replay", input, cfg }
    }
}

fn run_case(c: &Case) -> Result<(FileObs, ConvObs), Fail> {
    let label = c.label();
    let r = catch(|| -> Result<(FileObs, ConvObs), Fail> {
        let mut obs = FileObs::default();
        let mut cobs = ConvObs::default();
        match &c.input {
            Input::Low { spec, rows } => {
                let bytes = Bytes::from(write_lowlevel(spec, rows, &c.cfg)?);
                let op = open(&bytes)?;
                check_column(&bytes, &op, 0, &label, Some(rows), &mut obs)?;
                check_converter(&bytes, &op, &label, &mut cobs)?;
            }
            Input::Arrow { ty, vals } => {
                let bytes = Bytes::from(write_arrow(ty, vals, &c.cfg)?);
                let op = open(&bytes)?;
                let ncols = op.md.file_metadata().schema_descr().num_columns();
                // byte-like flat columns: the physical values are the bytes themselves, so the decoded
                // chunk can also be compared with what was written
                let expect: Option<Vec<Option<Raw>>> = if ncols == 1 && crate::types::is_leaf(&ty.dt) && vals.iter().all(|v| matches!(v, Val::Null | Val::Str(_) | Val::Bytes(_))) {
                    Some(vals.iter().map(|v| match v {
                        Val::Str(s) => Some(Raw::Bytes(s.as_bytes().to_vec())),
                        Val::Bytes(b) => Some(Raw::Bytes(b.clone())),
                        _ => None,
                    }).collect())
                } else {
                    None
                };
                for col in 0..ncols {
                    check_column(&bytes, &op, col, &label, expect.as_deref(), &mut obs)?;
                }
                if ncols == 1 && crate::types::is_leaf(&ty.dt) {
                    check_converter(&bytes, &op, &label, &mut cobs)?;
                }
            }
        }
        Ok((obs, cobs))
    });
    match r {
        Ok(x) => x,
        Err(p) => Err((format!("c07:{}", p.fingerprint().lines().next().unwrap_or("")), format!("panic at {}:{}: {}", p.file, p.line, p.msg))),
    }
}

fn eval(c: &Case, order: u64, st: &mut Stats) {
    match run_case(c) {
        Ok((o, co)) => {
            st.outcome(&format!(
                "{}|pages={}|dict={}|chunk-minmax={}|exact={:?}/{:?}|colidx={}|offidx={}|order={}|nullpages={}|hdrstats={}|bloom={}|nanonly={}|conv={}",
                c.sub,
                o.data_pages.min(4),
                o.dict_pages.min(1),
                o.chunk_minmax,
                o.min_exact,
                o.max_exact,
                o.column_index,
                o.offset_index,
                o.boundary,
                o.null_pages.min(2),
                o.page_header_stats.min(1),
                o.bloom,
                o.nan_only_chunk,
                (co.bounds > 0) as u8 + 2 * (co.pages > 0) as u8
            ));
            st.count("bloom-values-checked", o.bloom_checked as u64);
            st.count("converter-bounds-checked", co.bounds as u64);
            st.count("pages-checked", o.data_pages as u64);
        }
        Err((fp, msg)) => {
            if fp.starts_with("harness:") {
                eprintln!("MACHINERY: harness failure {fp}: {msg} case={}", c.to_json());
                std::process::exit(2);
            }
            match run_case(c) {
                Err((fp2, _)) if fp2 == fp => {}
                _ => {
                    eprintln!("MACHINERY: violation {fp} did not reproduce on re-execution case={}", c.to_json());
                    std::process::exit(2);
                }
            }
            st.violate(order, fp, msg, || c.to_json());
        }
    }
}

// ---- enumeration helpers ------------------------------------------------------------------------

fn seq_count(a: u64, n: usize) -> u64 {
    (0..=n).map(|l| a.pow(l as u32)).sum()
}
fn seq_decode<T: Clone>(alpha: &[T], mut idx: u64) -> Vec<T> {
    let a = alpha.len() as u64;
    let mut len = 0;
    while idx >= a.pow(len) {
        idx -= a.pow(len);
        len += 1;
    }
    (0..len)
        .map(|_| {
            let v = alpha[(idx % a) as usize].clone();
            idx /= a;
            v
        })
        .collect()
}

const CHARS: [char; 8] = ['a', '\u{7f}', 'é', '€', '\u{1D11E}', '\u{D7FF}', '\u{E000}', '\u{10FFFF}'];
fn strings_upto(n: usize) -> Vec<String> {
    let mut out = vec![String::new()];
    let mut last = vec![String::new()];
    for _ in 0..n {
        let mut nx = vec![];
        for s in &last {
            for c in CHARS {
                let mut t = s.clone();
                t.push(c);
                nx.push(t);
            }
        }
        out.extend(nx.iter().cloned());
        last = nx;
    }
    out
}
const BYTES4: [u8; 4] = [0x00, 0x7f, 0x80, 0xff];
fn binaries_upto(n: usize) -> Vec<Vec<u8>> {
    let mut out = vec![vec![]];
    let mut last: Vec<Vec<u8>> = vec![vec![]];
    for _ in 0..n {
        let mut nx = vec![];
        for s in &last {
            for c in BYTES4 {
                let mut t = s.clone();
                t.push(c);
                nx.push(t);
            }
        }
        out.extend(nx.iter().cloned());
        last = nx;
    }
    out
}

pub fn replay(v: &Value) -> bool {
    let c = Case::from_json(v);
    println!("replay: {}", c.to_json());
    println!("expectation (model): every statistics / index / bloom claim holds for the values decoded from each page");
    match run_case(&c) {
        Ok((o, co)) => {
            println!("replay outcome: all claims hold ({o:?}, {co:?})");
            true
        }
        Err((fp, msg)) => {
            println!("replay outcome: VIOLATION {fp}: {msg}");
            false
        }
    }
}

fn arrow_types() -> Vec<Ty> {
    let mut v: Vec<Ty> = flat_types().into_iter().filter(|t| !matches!(t.dt, DataType::RunEndEncoded(_, _) | DataType::Null)).filter(|t| !matches!(&t.dt, DataType::Dictionary(_, v) if matches!(v.as_ref(), DataType::Utf8View | DataType::Decimal128(_, _)))).filter(|t| !matches!(t.dt, DataType::Decimal32(1, _))).collect();
    v.push(nested_types().into_iter().find(|t| matches!(&t.dt, DataType::List(f) if f.data_type() == &DataType::Int32) && t.nullable).unwrap());
    v
}

pub fn run(ctx: &Ctx) -> ! {
    if let Some(case) = vcore::load_replay(ctx) {
        std::process::exit(if replay(&case) { 0 } else { 1 });
    }
    let only: Option<String> = ctx.extra_args.iter().find_map(|a| a.strip_prefix("--sub=").map(|s| s.to_string()));
    let want = |s: &str| only.as_deref().map(|o| o == s).unwrap_or(true);
    let quick = ctx.quick();
    let mut st = Stats::new();

    // ---------------- typed
    if want("typed") {
        let tf: Option<String> = ctx.extra_args.iter().find_map(|a| a.strip_prefix("--type=").map(|s| s.to_string()));
        let sp: Vec<Spec> = specs().into_iter().filter(|s| tf.as_deref().map(|f| s.label.contains(f)).unwrap_or(true)).collect();
        let prod = product_cfgs();
        let dev1 = dev1_cfgs();
        let (n_prod, n_dev1) = if quick { (3usize, 4usize) } else { (4, 5) };
        struct Blk {
            spec: usize,
            alpha: Vec<Option<Raw>>,
            n: usize,
            min_len: usize,
            cfgs: Vec<C7Cfg>,
        }
        let mut blocks = vec![];
        let mut rep = vec![];
        for (i, s) in sp.iter().enumerate() {
            let mut alpha: Vec<Option<Raw>> = s.alpha.iter().cloned().map(Some).collect();
            alpha.push(None);
            let a = alpha.len() as u64;
            // keep the per-type sequence count bounded: shrink N for big alphabets
            let mut np = n_prod;
            while np > 1 && seq_count(a, np) > if quick { 600 } else { 5000 } {
                np -= 1;
            }
            let mut nd = n_dev1;
            while nd > np && seq_count(a, nd) > if quick { 5000 } else { 40000 } {
                nd -= 1;
            }
            rep.push(json!({"type": s.label, "alphabet_incl_null": a, "N_full_product": np, "N_at_<=1_deviation": nd}));
            blocks.push(Blk { spec: i, alpha: alpha.clone(), n: np, min_len: 0, cfgs: prod.clone() });
            if nd > np {
                blocks.push(Blk { spec: i, alpha, n: nd, min_len: np + 1, cfgs: dev1.clone() });
            }
        }
        st.extra.insert("typed_bounds".into(), json!({"per_type": rep, "full_product_configs": prod.len(), "deviation1_configs": dev1.len()}));
        let mut starts = vec![];
        let mut total = 0u64;
        for b in &blocks {
            starts.push(total);
            total += seq_count(b.alpha.len() as u64, b.n) * b.cfgs.len() as u64;
        }
        st.merge(par_for(ctx, "typed", total, 128, |idx, st| {
            let bi = match starts.binary_search(&idx) {
                Ok(i) => i,
                Err(i) => i - 1,
            };
            let b = &blocks[bi];
            let r = idx - starts[bi];
            let nc = b.cfgs.len() as u64;
            let rows = seq_decode(&b.alpha, r / nc);
            if rows.len() < b.min_len {
                return;
            }
            let case = Case { sub: "typed", input: Input::Low { spec: sp[b.spec].clone(), rows }, cfg: b.cfgs[(r % nc) as usize] };
            let nt = match &case.input {
                Input::Low { rows, .. } => !rows.is_empty(),
                _ => true,
            };
            st.add("typed", 1, nt as u64);
            if idx == total - 1 {
                st.sample("typed", || case.to_json());
            }
            eval(&case, idx, st);
        }));
    }

    // ---------------- strings
    if want("strings") {
        let s3 = strings_upto(3);
        let s2 = strings_upto(if quick { 1 } else { 2 });
        let tc = trunc_cfgs(quick);
        use DataType::*;
        let mk = |dt: DataType| Ty { name: format!("{dt}"), family: format!("{dt}"), dt, nullable: true, core: true };
        let atys = vec![mk(Utf8), mk(Utf8View), mk(LargeUtf8), mk(dict(Int8, Utf8))];
        let paths = 1 + atys.len();
        // items: singles over <=3 chars, ordered pairs over the smaller set, triples with a null over a reduced alphabet
        let mut items: Vec<Vec<Option<String>>> = vec![];
        for s in &s3 {
            items.push(vec![Some(s.clone())]);
        }
        // pair base: all <= 1-character [<= 2] strings plus every <= 2-character string over {a, é, U+10FFFF}
        let mut pair_base = s2.clone();
        for x in ["a", "é", "\u{10FFFF}"] {
            for y in ["a", "é", "\u{10FFFF}"] {
                let t = format!("{x}{y}");
                if !pair_base.contains(&t) {
                    pair_base.push(t);
                }
            }
        }
        for a in &pair_base {
            for b2 in &pair_base {
                items.push(vec![Some(a.clone()), Some(b2.clone())]);
            }
        }
        let red: Vec<Option<String>> = vec![None, Some("".into()), Some("a".into()), Some("é€".into()), Some("\u{10FFFF}\u{10FFFF}".into()), Some("a\u{7f}\u{7f}\u{7f}\u{7f}".into())];
        for i in 0..seq_count(red.len() as u64, 4) {
            let v = seq_decode(&red, i);
            if v.len() >= 3 {
                items.push(v);
            }
        }
        // long values around the default truncate length 64
        for l in [63usize, 64, 65, 66] {
            for c in ['a', '\u{7f}', 'é', '\u{10FFFF}'] {
                let s: String = std::iter::repeat_n(c, l).collect();
                items.push(vec![Some(s.clone())]);
                items.push(vec![Some(s), Some("b".into())]);
            }
        }
        st.extra.insert("strings_bounds".into(), json!({"alphabet": CHARS.iter().map(|c| format!("U+{:04X}", *c as u32)).collect::<Vec<_>>(), "singles": s3.len(), "pair_base": pair_base.len(), "items": items.len(), "configs": tc.len(), "writer_paths": paths}));
        let total = (items.len() * tc.len() * paths) as u64;
        let sspec = string_spec();
        st.merge(par_for(ctx, "strings", total, 64, |idx, st| {
            let mut r = idx as usize;
            let p = r % paths;
            r /= paths;
            let k = r % tc.len();
            let it = &items[r / tc.len()];
            let case = if p == 0 {
                Case { sub: "strings", input: Input::Low { spec: sspec.clone(), rows: it.iter().map(|s| s.as_ref().map(|s| Raw::Bytes(s.as_bytes().to_vec()))).collect() }, cfg: tc[k] }
            } else {
                Case { sub: "strings", input: Input::Arrow { ty: atys[p - 1].clone(), vals: it.iter().map(|s| s.as_ref().map(|s| Val::Str(s.clone())).unwrap_or(Val::Null)).collect() }, cfg: tc[k] }
            };
            st.add("strings", 1, 1);
            if idx == total - 1 {
                st.sample("strings", || case.to_json());
            }
            eval(&case, (1 << 40) + idx, st);
        }));
    }

    // ---------------- binary
    if want("binary") {
        let b3 = binaries_upto(3);
        let b2 = binaries_upto(if quick { 2 } else { 3 });
        let tc = trunc_cfgs(quick);
        use DataType::*;
        let mk = |dt: DataType| Ty { name: format!("{dt}"), family: format!("{dt}"), dt, nullable: true, core: true };
        let atys = vec![mk(Binary), mk(BinaryView), mk(FixedSizeBinary(3))];
        let mut items: Vec<Vec<Option<Vec<u8>>>> = vec![];
        for s in &b3 {
            items.push(vec![Some(s.clone())]);
        }
        for a in &b2 {
            for c in &b2 {
                items.push(vec![Some(a.clone()), Some(c.clone())]);
                if a.len() == 3 && c.len() == 3 {
                    items.push(vec![Some(a.clone()), None, Some(c.clone())]);
                }
            }
        }
        // every (<= 1-byte, 3-byte) pair in both orders (truncation of one page bound next to an untruncated one)
        if quick {
            for a in b3.iter().filter(|x| x.len() <= 1) {
                for c in b3.iter().filter(|x| x.len() == 3) {
                    items.push(vec![Some(a.clone()), Some(c.clone())]);
                    items.push(vec![Some(c.clone()), Some(a.clone())]);
                }
            }
        }
        for l in [63usize, 64, 65] {
            for c in [0u8, 0xff] {
                items.push(vec![Some(vec![c; l])]);
                items.push(vec![Some(vec![c; l]), Some(vec![0x80])]);
            }
        }
        let paths = 5usize; // BYTE_ARRAY low-level, FLBA(3) low-level, Binary, BinaryView, FixedSizeBinary(3)
        st.extra.insert("binary_bounds".into(), json!({"alphabet": ["00","7F","80","FF"], "singles": b3.len(), "pair_base": b2.len(), "items": items.len(), "configs": tc.len(), "writer_paths": paths}));
        let total = (items.len() * tc.len() * paths) as u64;
        let (bs, fs) = (binary_spec(), flba3_spec());
        st.merge(par_for(ctx, "binary", total, 64, |idx, st| {
            let mut r = idx as usize;
            let p = r % paths;
            r /= paths;
            let k = r % tc.len();
            let it = &items[r / tc.len()];
            let fixed = p == 1 || p == 4;
            if fixed && it.iter().flatten().any(|v| v.len() != 3) {
                return;
            }
            let case = match p {
                0 | 1 => Case { sub: "binary", input: Input::Low { spec: if p == 0 { bs.clone() } else { fs.clone() }, rows: it.iter().map(|s| s.as_ref().map(|s| Raw::Bytes(s.clone()))).collect() }, cfg: tc[k] },
                _ => Case { sub: "binary", input: Input::Arrow { ty: atys[p - 2].clone(), vals: it.iter().map(|s| s.as_ref().map(|s| Val::Bytes(s.clone())).unwrap_or(Val::Null)).collect() }, cfg: tc[k] },
            };
            st.add("binary", 1, 1);
            if idx == total - 1 {
                st.sample("binary", || case.to_json());
            }
            eval(&case, (2 << 40) + idx, st);
        }));
    }

    // ---------------- bloomlong: many distinct values, so that the filter keeps several blocks after folding
    if want("bloomlong") {
        let sp: Vec<Spec> = specs().into_iter().filter(|s| matches!(s.label, "INT32" | "INT64/UINT64" | "DOUBLE" | "FLBA16/UUID")).chain([string_spec()]).collect();
        let lens: Vec<usize> = if quick { vec![40, 100, 300, 1000, 3000] } else { vec![8, 20, 40, 64, 100, 200, 300, 600, 1000, 2000, 3000, 10000] };
        let blooms: Vec<u8> = vec![1, 2, 3, 4, 5];
        let pats: usize = 3; // ramp, LFSR-A, LFSR-B
        let mut items = vec![];
        for si in 0..sp.len() {
            for li in 0..lens.len() {
                for bl in &blooms {
                    for pat in 0..pats {
                        for dict in [true, false] {
                            for page_rows in [0u8, 2] {
                                if page_rows == 2 && lens[li] > 300 {
                                    continue;
                                }
                                items.push((si, li, *bl, pat, dict, page_rows, 0u8));
                                if dict && *bl == 1 {
                                    // mid-chunk dictionary fallback (16-byte dictionary limit) on long columns
                                    items.push((si, li, *bl, pat, dict, page_rows, 2u8));
                                }
                            }
                        }
                    }
                }
            }
        }
        st.extra.insert("bloomlong_bounds".into(), json!({"types": sp.iter().map(|s| s.label).collect::<Vec<_>>(), "lengths": lens, "bloom_settings": ["max_ndv=1000", "ndv=1 fpp=0.5", "ndv=8 fpp=0.01", "default (1M)", "max_ndv=100 fpp=0.01"], "patterns": ["ramp*7919", "LFSR-A", "LFSR-B"], "cases": items.len()}));
        let a = vcore::lfsr_bytes(8 * 10000, vcore::LFSR_A);
        let b2 = vcore::lfsr_bytes(8 * 10000, vcore::LFSR_B);
        st.merge(par_for(ctx, "bloomlong", items.len() as u64, 4, |idx, st| {
            let (si, li, bloom, pat, dict, page_rows, dlimit) = items[idx as usize];
            let spec = &sp[si];
            let rows: Vec<Option<Raw>> = (0..lens[li])
                .map(|i| {
                    let k: u64 = match pat {
                        0 => (i as u64).wrapping_mul(7919),
                        1 => u64::from_le_bytes(a[8 * i..8 * i + 8].try_into().unwrap()),
                        _ => u64::from_le_bytes(b2[8 * i..8 * i + 8].try_into().unwrap()),
                    };
                    Some(match spec.phys {
                        PhysicalType::INT32 => Raw::I32(k as i32),
                        PhysicalType::INT64 => Raw::I64(k as i64),
                        PhysicalType::DOUBLE => Raw::F64((k as f64).to_bits()),
                        PhysicalType::FIXED_LEN_BYTE_ARRAY => Raw::Bytes([k.to_le_bytes(), (!k).to_be_bytes()].concat()),
                        _ => Raw::Bytes(format!("v{k}").into_bytes()),
                    })
                })
                .collect();
            let case = Case { sub: "bloomlong", input: Input::Low { spec: spec.clone(), rows }, cfg: C7Cfg { page_rows, stats: 0, bloom, v2: false, dict, hdr: false, trunc: 0, dlimit, wbs: 0, parts: [0; 3] } };
            st.add("bloomlong", 1, 1);
            if idx + 1 == items.len() as u64 {
                st.sample("bloomlong", || json!({"type": spec.label, "len": lens[li], "bloom": bloom, "pattern": pat, "dict": dict}));
            }
            eval(&case, (4 << 40) + idx, st);
        }));
    }

    // ---------------- multiwrite: the same page / chunk fed by several write calls and multi-value mini-batches
    if want("multiwrite") {
        let sp = specs();
        let atys = arrow_types();
        // (page_rows, write batch size): one page + one mini-batch per call; mini-batches of 2; pages of >= 2 rows fed
        // by mini-batches of 2; pages of 3 rows fed by single values; one row per page
        let layouts: [(u8, u8); 5] = [(0, 0), (0, 2), (2, 2), (3, 1), (1, 1)];
        let stat_modes: [(u8, bool); 2] = [(0, true), (1, false)];
        // (sequence length n, composition of n into <= 3 write calls)
        let comps = |n: usize| -> Vec<[u8; 3]> {
            let mut v = vec![];
            if n == 0 {
                return vec![[0; 3]];
            }
            v.push([n as u8, 0, 0]);
            for a in 1..n {
                v.push([a as u8, (n - a) as u8, 0]);
                for b in 1..(n - a) {
                    v.push([a as u8, b as u8, (n - a - b) as u8]);
                }
            }
            v
        };
        // letters: first / middle / last letter of the type's alphabet (+ null); all sequences of length <= 3 over
        // the 4 letters and all sequences of length 4 over the 3 non-null letters: a later call then lowers the min
        // only, raises the max only, does both, or neither, with and without nulls
        let pick = |len: usize| -> [usize; 3] { [0, len / 2, len - 1] };
        let mut shapes: Vec<(Vec<u8>, [u8; 3])> = vec![]; // (letter indices, 3 = null), parts
        for n in 0..=3usize {
            for code in 0..4usize.pow(n as u32) {
                let seq: Vec<u8> = (0..n).map(|k| ((code / 4usize.pow(k as u32)) % 4) as u8).collect();
                for c in comps(n) {
                    shapes.push((seq.clone(), c));
                }
            }
        }
        for code in 0..81usize {
            let seq: Vec<u8> = (0..4).map(|k| ((code / 3usize.pow(k as u32)) % 3) as u8).collect();
            for c in comps(4) {
                shapes.push((seq.clone(), c));
            }
        }
        let ntypes = sp.len() + atys.len();
        let per = shapes.len() * layouts.len() * stat_modes.len();
        st.extra.insert("multiwrite_bounds".into(), json!({"low_level_types": sp.len(), "arrow_types": atys.len(), "shapes(sequence x composition into <=3 write calls)": shapes.len(),
            "layouts(page_rows, write_batch_size)": layouts, "statistics": ["Page + page-header statistics", "Chunk"]}));
        let total = (ntypes * per) as u64;
        st.merge(par_for(ctx, "multiwrite", total, 64, |idx, st| {
            let ti = idx as usize / per;
            let mut r = idx as usize % per;
            let (stats, hdr) = stat_modes[r % stat_modes.len()];
            r /= stat_modes.len();
            let (page_rows, wbs) = layouts[r % layouts.len()];
            let (seq, parts) = &shapes[r / layouts.len()];
            let cfg = C7Cfg { page_rows, wbs, stats, hdr, parts: if parts[1] == 0 { [0; 3] } else { *parts }, ..C7Cfg::DEFAULT };
            let case = if ti < sp.len() {
                let spec = &sp[ti];
                let ix = pick(spec.alpha.len());
                Case { sub: "multiwrite", input: Input::Low { spec: spec.clone(), rows: seq.iter().map(|l| if *l == 3 { None } else { Some(spec.alpha[ix[*l as usize]].clone()) }).collect() }, cfg }
            } else {
                let t = &atys[ti - sp.len()];
                let alpha: Vec<Val> = if is_leaf(&t.dt) { leaf_alpha(&t.dt) } else { small(&t.dt, false, true) };
                if alpha.is_empty() || (!t.nullable && seq.contains(&3)) {
                    return;
                }
                let ix = pick(alpha.len());
                Case { sub: "multiwrite", input: Input::Arrow { ty: t.clone(), vals: seq.iter().map(|l| if *l == 3 { Val::Null } else { alpha[ix[*l as usize]].clone() }).collect() }, cfg }
            };
            st.add("multiwrite", 1, (!seq.is_empty()) as u64);
            if idx == total - 1 {
                st.sample("multiwrite", || case.to_json());
            }
            eval(&case, (5 << 40) + idx, st);
        }));
    }

    // ---------------- arrow flat types + converter
    if want("arrow") {
        let tys = arrow_types();
        let mut cfgs = dev1_cfgs();
        cfgs.push(C7Cfg { page_rows: 1, stats: 0, bloom: 1, v2: true, dict: false, hdr: true, trunc: 0, dlimit: 0, wbs: 0, parts: [0; 3] });
        cfgs.push(C7Cfg { page_rows: 1, v2: true, dlimit: 1, ..C7Cfg::DEFAULT });
        cfgs.push(C7Cfg { page_rows: 2, stats: 0, bloom: 0, v2: true, dict: true, hdr: false, trunc: 1, dlimit: 0, wbs: 0, parts: [0; 3] });
        let nmax = if quick { 3 } else { 4 };
        let mut starts = vec![];
        let mut total = 0u64;
        let mut alphas = vec![];
        let mut rep = vec![];
        for t in &tys {
            let a = if is_leaf(&t.dt) { small(&t.dt, t.nullable, true) } else { full(&t.dt, t.nullable) };
            let mut n = nmax;
            while n > 1 && seq_count(a.len() as u64, n) > if quick { 300 } else { 3000 } {
                n -= 1;
            }
            rep.push(json!({"type": t.name, "alphabet": a.len(), "N": n}));
            starts.push(total);
            total += seq_count(a.len() as u64, n) * cfgs.len() as u64;
            alphas.push(a);
        }
        st.extra.insert("arrow_bounds".into(), json!({"per_type": rep, "configs": cfgs.len()}));
        st.merge(par_for(ctx, "arrow", total, 64, |idx, st| {
            let ti = match starts.binary_search(&idx) {
                Ok(i) => i,
                Err(i) => i - 1,
            };
            let r = idx - starts[ti];
            let nc = cfgs.len() as u64;
            let vals = seq_decode(&alphas[ti], r / nc);
            let nt = !vals.is_empty();
            let case = Case { sub: "arrow", input: Input::Arrow { ty: tys[ti].clone(), vals }, cfg: cfgs[(r % nc) as usize] };
            st.add("arrow", 1, nt as u64);
            if idx == total - 1 {
                st.sample("arrow", || case.to_json());
            }
            eval(&case, (3 << 40) + idx, st);
        }));
    }

    vcore::finish(
        ctx,
        Level {
            category: "exploration",
            rule: "cases are enumerated by index, never sampled: typed = (column type, value sequence, configuration) with the configuration space fully multiplied for N<=N_full_product; strings/binary = (value item, truncation/page/statistics configuration, writer path); arrow = (Arrow type, value sequence, configuration). Every tuple is distinct by construction; a case is non-trivial when it has >= 1 row.".into(),
            assumptions: vec![
                "sort orders come from a model written from the Parquet format specification (signed / unsigned / IEEE total order with NaN excluded / signed big-endian decimals / unsigned bytewise / INT96 timestamp order); INTERVAL has no defined order and only its counts are checked".into(),
                "float bounds are compared under total order (-0 < +0) exactly when the file declares IEEE_754_TOTAL_ORDER, numerically otherwise; 'exact' flags are checked numerically".into(),
                "page coverage is obtained by decoding the chunk with the column reader and splitting by the num_values of the page headers found by a sequential scan without the offset index".into(),
            ],
            exhaustive_space: "property quantifier: all column types x all value sequences and page layouts x all statistics levels, truncation lengths and bloom filter settings; explored: the bounded sub-space stated in coverage.*_bounds".into(),
        },
        st,
    )
}
