//! C07 checker: re-open a written file, decode every column chunk and every page, and check all
//! statistics / index / bloom filter claims against the decoded values with the model comparator.
use crate::c07model::*;
use bytes::Bytes;
use parquet::basic::{BoundaryOrder, ColumnOrder, PageType};
use parquet::bloom_filter::Sbbf;
use parquet::column::page::{Page, PageReader};
use parquet::column::reader::ColumnReader;
use parquet::data_type::{ByteArray, FixedLenByteArray, Int96};
use parquet::file::metadata::{ColumnChunkMetaData, PageIndexPolicy, ParquetMetaData, ParquetMetaDataReader};
use parquet::file::page_index::column_index::ColumnIndexMetaData;
use parquet::file::properties::ReaderProperties;
use parquet::file::reader::{FileReader, SerializedFileReader};
use parquet::file::serialized_reader::{ReadOptionsBuilder, SerializedPageReader};
use parquet::file::statistics::Statistics;
use std::cmp::Ordering;
use std::sync::Arc;

pub type Fail = (String, String);

#[derive(Debug, Default, Clone)]
pub struct FileObs {
    pub data_pages: usize,
    pub dict_pages: usize,
    pub chunk_stats: bool,
    pub chunk_minmax: bool,
    pub min_exact: Option<bool>,
    pub max_exact: Option<bool>,
    pub column_index: bool,
    pub offset_index: bool,
    pub boundary: String,
    pub null_pages: usize,
    pub page_header_stats: usize,
    pub bloom: bool,
    pub bloom_checked: usize,
    pub nan_only_chunk: bool,
}

pub struct Decoded {
    /// one entry per level position: None = null (or empty/null list position)
    pub slots: Vec<Option<Raw>>,
    pub rep: Vec<i16>,
}

macro_rules! read_all {
    ($r:expr, $maxdef:expr, $maxrep:expr, $conv:expr) => {{
        let mut vals = vec![];
        let mut def: Vec<i16> = vec![];
        let mut rep: Vec<i16> = vec![];
        loop {
            let (recs, _, lv) = $r
                .read_records(1 << 20, if $maxdef > 0 { Some(&mut def) } else { None }, if $maxrep > 0 { Some(&mut rep) } else { None }, &mut vals)
                .map_err(|e| ("c07:decode-error".to_string(), format!("column reader: {e}")))?;
            if recs == 0 && lv == 0 {
                break;
            }
        }
        let mut slots = vec![];
        if $maxdef > 0 {
            let mut it = vals.into_iter();
            for d in &def {
                if *d == $maxdef { slots.push(Some($conv(it.next().expect("value for max def level")))) } else { slots.push(None) }
            }
        } else {
            for v in vals {
                slots.push(Some($conv(v)));
            }
        }
        if $maxrep == 0 {
            rep = vec![0; slots.len()];
        }
        Decoded { slots, rep }
    }};
}

pub fn decode_chunk(fr: &SerializedFileReader<Bytes>, rg: usize, col: usize) -> Result<Decoded, Fail> {
    let rgr = fr.get_row_group(rg).map_err(|e| ("c07:decode-error".to_string(), format!("row group: {e}")))?;
    let d = fr.metadata().row_group(rg).column(col).column_descr_ptr();
    let (maxdef, maxrep) = (d.max_def_level(), d.max_rep_level());
    let cr = rgr.get_column_reader(col).map_err(|e| ("c07:decode-error".to_string(), format!("column reader: {e}")))?;
    Ok(match cr {
        ColumnReader::BoolColumnReader(mut r) => read_all!(r, maxdef, maxrep, Raw::Bool),
        ColumnReader::Int32ColumnReader(mut r) => read_all!(r, maxdef, maxrep, Raw::I32),
        ColumnReader::Int64ColumnReader(mut r) => read_all!(r, maxdef, maxrep, Raw::I64),
        ColumnReader::Int96ColumnReader(mut r) => read_all!(r, maxdef, maxrep, |v: Int96| {
            let d = v.data();
            Raw::I96([d[0], d[1], d[2]])
        }),
        ColumnReader::FloatColumnReader(mut r) => read_all!(r, maxdef, maxrep, |v: f32| Raw::F32(v.to_bits())),
        ColumnReader::DoubleColumnReader(mut r) => read_all!(r, maxdef, maxrep, |v: f64| Raw::F64(v.to_bits())),
        ColumnReader::ByteArrayColumnReader(mut r) => read_all!(r, maxdef, maxrep, |v: ByteArray| Raw::Bytes(v.data().to_vec())),
        ColumnReader::FixedLenByteArrayColumnReader(mut r) => read_all!(r, maxdef, maxrep, |v: FixedLenByteArray| Raw::Bytes(v.data().to_vec())),
    })
}

struct PageInfo {
    num_levels: usize,
    stats: Option<Statistics>,
    buf: Bytes,
    v2_rows: Option<u32>,
    v2_nulls: Option<u32>,
}

fn scan_pages(bytes: &Bytes, cm: &ColumnChunkMetaData, nrows: usize, locs: Option<Vec<parquet::file::page_index::offset_index::PageLocation>>) -> Result<(Vec<PageInfo>, usize), String> {
    let props = Arc::new(ReaderProperties::builder().set_read_page_statistics(true).build());
    let mut pr = SerializedPageReader::new_with_properties(Arc::new(bytes.clone()), cm, nrows, locs, props).map_err(|e| format!("page reader: {e}"))?;
    let mut out = vec![];
    let mut dicts = 0;
    while let Some(p) = pr.get_next_page().map_err(|e| format!("get_next_page: {e}"))? {
        match p {
            Page::DictionaryPage { .. } => dicts += 1,
            Page::DataPage { buf, num_values, statistics, .. } => out.push(PageInfo { num_levels: num_values as usize, stats: statistics, buf, v2_rows: None, v2_nulls: None }),
            Page::DataPageV2 { buf, num_values, num_rows, num_nulls, statistics, .. } => out.push(PageInfo { num_levels: num_values as usize, stats: statistics, buf, v2_rows: Some(num_rows), v2_nulls: Some(num_nulls) }),
        }
    }
    let _ = PageType::DATA_PAGE;
    Ok((out, dicts))
}

/// the values a bound must cover / may be attained by
struct Cover<'a> {
    o: Order,
    tz: bool,
    vals: Vec<&'a Raw>,
}
impl<'a> Cover<'a> {
    fn new(o: Order, tz: bool, slots: &'a [Option<Raw>]) -> Self {
        Cover { o, tz, vals: slots.iter().flatten().collect() }
    }
    fn non_nan(&self) -> Vec<Vec<u8>> {
        self.vals.iter().map(|v| v.bytes()).filter(|b| !is_nan(self.o, b)).collect()
    }
    /// check min <= v <= max for every non-NaN value, and attainment when flagged exact
    fn check_bounds(&self, what: &str, label: &str, min: Option<&[u8]>, max: Option<&[u8]>, min_exact: Option<bool>, max_exact: Option<bool>) -> Result<(), Fail> {
        if self.o == Order::Undefined {
            return Ok(());
        }
        let vs = self.non_nan();
        if let Some(min) = min {
            if !is_nan(self.o, min) {
                for v in &vs {
                    if cmp(self.o, min, v, self.tz) == Some(Ordering::Greater) {
                        return Err((format!("c07:bound-unsound:{label}"), format!("{what} min {min:02x?} > covered value {v:02x?} (values {:02x?})", vs)));
                    }
                }
                if min_exact == Some(true) && !vs.is_empty() && !vs.iter().any(|v| cmp(self.o, min, v, false) == Some(Ordering::Equal)) {
                    return Err((format!("c07:{what}-min-exact-not-attained:{label}"), format!("{what} min {min:02x?} flagged exact but not among values {:02x?}", vs)));
                }
            } else if !vs.is_empty() {
                return Err((format!("c07:bound-unsound:{label}"), format!("{what} min is NaN although non-NaN values {:02x?} are covered", vs)));
            }
        }
        if let Some(max) = max {
            if !is_nan(self.o, max) {
                for v in &vs {
                    if cmp(self.o, max, v, self.tz) == Some(Ordering::Less) {
                        return Err((format!("c07:bound-unsound:{label}"), format!("{what} max {max:02x?} < covered value {v:02x?} (values {:02x?})", vs)));
                    }
                }
                if max_exact == Some(true) && !vs.is_empty() && !vs.iter().any(|v| cmp(self.o, max, v, false) == Some(Ordering::Equal)) {
                    return Err((format!("c07:{what}-max-exact-not-attained:{label}"), format!("{what} max {max:02x?} flagged exact but not among values {:02x?}", vs)));
                }
            } else if !vs.is_empty() {
                return Err((format!("c07:bound-unsound:{label}"), format!("{what} max is NaN although non-NaN values {:02x?} are covered", vs)));
            }
        }
        if let (Some(min), Some(max)) = (min, max) {
            if cmp(self.o, min, max, self.tz) == Some(Ordering::Greater) {
                return Err((format!("c07:bound-unsound:{label}"), format!("{what} min {min:02x?} > max {max:02x?}")));
            }
        }
        Ok(())
    }
    fn nan_count(&self) -> usize {
        self.vals.iter().filter(|v| is_nan(self.o, &v.bytes())).count()
    }
}

fn colidx_bytes(ci: &ColumnIndexMetaData, i: usize) -> (Option<Vec<u8>>, Option<Vec<u8>>) {
    macro_rules! prim {
        ($x:expr, $f:expr) => {
            ($x.min_value(i).map($f), $x.max_value(i).map($f))
        };
    }
    match ci {
        ColumnIndexMetaData::BOOLEAN(x) => prim!(x, |v: &bool| vec![*v as u8]),
        ColumnIndexMetaData::INT32(x) => prim!(x, |v: &i32| v.to_le_bytes().to_vec()),
        ColumnIndexMetaData::INT64(x) => prim!(x, |v: &i64| v.to_le_bytes().to_vec()),
        ColumnIndexMetaData::INT96(x) => prim!(x, |v: &Int96| v.data().iter().flat_map(|w| w.to_le_bytes()).collect::<Vec<u8>>()),
        ColumnIndexMetaData::FLOAT(x) => prim!(x, |v: &f32| v.to_le_bytes().to_vec()),
        ColumnIndexMetaData::DOUBLE(x) => prim!(x, |v: &f64| v.to_le_bytes().to_vec()),
        ColumnIndexMetaData::BYTE_ARRAY(x) | ColumnIndexMetaData::FIXED_LEN_BYTE_ARRAY(x) => (x.min_value(i).map(|v| v.to_vec()), x.max_value(i).map(|v| v.to_vec())),
    }
}

fn bloom_check(b: &Sbbf, v: &Raw) -> bool {
    match v {
        Raw::Bool(x) => b.check(x),
        Raw::I32(x) => b.check(x),
        Raw::I64(x) => b.check(x),
        Raw::I96(x) => {
            let mut i = Int96::new();
            i.set_data(x[0], x[1], x[2]);
            b.check(&i)
        }
        Raw::F32(x) => b.check(&f32::from_bits(*x)),
        Raw::F64(x) => b.check(&f64::from_bits(*x)),
        Raw::Bytes(x) => b.check(x.as_slice()),
    }
}

pub struct Opened {
    pub md: ParquetMetaData,
    pub fr: SerializedFileReader<Bytes>,
}

pub fn open(bytes: &Bytes) -> Result<Opened, Fail> {
    let md = ParquetMetaDataReader::new().with_page_index_policy(PageIndexPolicy::Optional).parse_and_finish(bytes).map_err(|e| ("c07:metadata-unreadable".to_string(), format!("metadata: {e}")))?;
    let opts = ReadOptionsBuilder::new().with_reader_properties(ReaderProperties::builder().set_read_bloom_filter(true).build()).build();
    let fr = SerializedFileReader::new_with_options(bytes.clone(), opts).map_err(|e| ("c07:file-unreadable".to_string(), format!("open: {e}")))?;
    Ok(Opened { md, fr })
}

/// Check column `col` of every row group. `expect`: the values the harness wrote per level slot
/// (low-level path); None when the file came from the Arrow writer (C05 owns that comparison).
pub fn check_column(bytes: &Bytes, op: &Opened, col: usize, label: &str, expect: Option<&[Option<Raw>]>, obs: &mut FileObs) -> Result<(), Fail> {
    let md = &op.md;
    let mut expect_off = 0usize;
    for (rgi, rg) in md.row_groups().iter().enumerate() {
        let cm = rg.column(col);
        let d = cm.column_descr();
        let o = model_order(d);
        let tz = md.file_metadata().column_orders().map(|c| c[col] == ColumnOrder::IEEE_754_TOTAL_ORDER).unwrap_or(false);
        let dec = decode_chunk(&op.fr, rgi, col)?;
        let nrows = dec.rep.iter().filter(|r| **r == 0).count();
        if nrows as i64 != rg.num_rows() {
            return Err((format!("c07:row-count:{label}"), format!("row group {rgi}: metadata num_rows {} but {} records decoded", rg.num_rows(), nrows)));
        }
        if cm.num_values() != dec.slots.len() as i64 {
            return Err((format!("c07:num-values:{label}"), format!("column chunk num_values {} but {} levels decoded", cm.num_values(), dec.slots.len())));
        }
        if let Some(e) = expect {
            let want = &e[expect_off..(expect_off + dec.slots.len()).min(e.len())];
            if want != dec.slots.as_slice() {
                return Err((format!("c07:decoded-values-differ:{label}"), format!("wrote {want:?}, decoded {:?}", dec.slots)));
            }
            expect_off += dec.slots.len();
        }
        let nulls = dec.slots.iter().filter(|s| s.is_none()).count();
        let cover = Cover::new(o, tz, &dec.slots);
        obs.nan_only_chunk = cover.non_nan().is_empty() && cover.nan_count() > 0;

        // ---- chunk statistics
        if let Some(s) = cm.statistics() {
            obs.chunk_stats = true;
            if let Some(nc) = s.null_count_opt() {
                if nc as usize != nulls {
                    return Err((format!("c07:chunk-null-count:{label}"), format!("chunk null_count {nc}, decoded nulls {nulls}")));
                }
            }
            if let Some(nn) = s.nan_count_opt() {
                if nn as usize != cover.nan_count() {
                    return Err((format!("c07:chunk-nan-count:{label}"), format!("chunk nan_count {nn}, decoded NaNs {}", cover.nan_count())));
                }
            }
            let (mn, mx) = (s.min_bytes_opt(), s.max_bytes_opt());
            obs.chunk_minmax = mn.is_some() || mx.is_some();
            if mn.is_some() {
                obs.min_exact = Some(s.min_is_exact());
            }
            if mx.is_some() {
                obs.max_exact = Some(s.max_is_exact());
            }
            cover.check_bounds("chunk", label, mn, mx, mn.map(|_| s.min_is_exact()), mx.map(|_| s.max_is_exact()))?;
        }

        // ---- pages found by scanning the chunk sequentially
        let (pages, dicts) = scan_pages(bytes, cm, nrows, None).map_err(|e| (format!("c07:page-scan-error:{label}"), e))?;
        obs.data_pages += pages.len();
        obs.dict_pages += dicts;
        let total_levels: usize = pages.iter().map(|p| p.num_levels).sum();
        if total_levels != dec.slots.len() {
            return Err((format!("c07:page-num-values:{label}"), format!("pages hold {total_levels} levels, chunk decodes to {}", dec.slots.len())));
        }
        // split decoded slots per page
        let mut page_slots: Vec<&[Option<Raw>]> = vec![];
        let mut page_rows: Vec<usize> = vec![];
        let mut at = 0;
        for p in &pages {
            page_slots.push(&dec.slots[at..at + p.num_levels]);
            let rows = dec.rep[at..at + p.num_levels].iter().filter(|r| **r == 0).count();
            if p.num_levels > 0 && dec.rep[at] != 0 {
                return Err((format!("c07:page-not-on-row-boundary:{label}"), format!("page starting at level {at} begins inside a record")));
            }
            page_rows.push(rows);
            if let Some(r) = p.v2_rows {
                if r as usize != rows {
                    return Err((format!("c07:v2-page-num-rows:{label}"), format!("data page v2 num_rows {r}, decoded {rows}")));
                }
            }
            if let Some(n) = p.v2_nulls {
                let pn = dec.slots[at..at + p.num_levels].iter().filter(|s| s.is_none()).count();
                if n as usize != pn {
                    return Err((format!("c07:v2-page-num-nulls:{label}"), format!("data page v2 num_nulls {n}, decoded {pn}")));
                }
            }
            at += p.num_levels;
        }
        // page header statistics
        for (i, p) in pages.iter().enumerate() {
            if let Some(s) = &p.stats {
                obs.page_header_stats += 1;
                let pc = Cover::new(o, tz, page_slots[i]);
                if let Some(nc) = s.null_count_opt() {
                    let pn = page_slots[i].iter().filter(|s| s.is_none()).count();
                    if nc as usize != pn {
                        return Err((format!("c07:page-header-null-count:{label}"), format!("page {i} header null_count {nc}, decoded {pn}")));
                    }
                }
                let (mn, mx) = (s.min_bytes_opt(), s.max_bytes_opt());
                pc.check_bounds("page-header", label, mn, mx, mn.map(|_| s.min_is_exact()), mx.map(|_| s.max_is_exact()))?;
            }
        }

        // ---- column index
        let ci = md.page_index().and_then(|p| p.column_index(rgi, col));
        if let Some(ci) = ci {
            obs.column_index = true;
            if ci.num_pages() as usize != pages.len() {
                return Err((format!("c07:column-index-page-count:{label}"), format!("column index has {} pages, chunk has {} data pages", ci.num_pages(), pages.len())));
            }
            let mut bounds: Vec<Option<(Vec<u8>, Vec<u8>)>> = vec![];
            for i in 0..pages.len() {
                let all_null = page_slots[i].iter().all(|s| s.is_none());
                if ci.is_null_page(i) != all_null {
                    return Err((format!("c07:null-pages-flag:{label}"), format!("page {i}: null_pages {} but page values {:?}", ci.is_null_page(i), page_slots[i])));
                }
                if all_null {
                    obs.null_pages += 1;
                }
                if let Some(nc) = ci.null_count(i) {
                    let pn = page_slots[i].iter().filter(|s| s.is_none()).count();
                    if nc as usize != pn {
                        return Err((format!("c07:column-index-null-count:{label}"), format!("page {i}: null_count {nc}, decoded {pn}")));
                    }
                }
                let pc = Cover::new(o, tz, page_slots[i]);
                if let Some(nn) = ci.nan_count(i) {
                    if nn as usize != pc.nan_count() {
                        return Err((format!("c07:column-index-nan-count:{label}"), format!("page {i}: nan_count {nn}, decoded {}", pc.nan_count())));
                    }
                }
                if all_null {
                    bounds.push(None);
                    continue;
                }
                let (mn, mx) = colidx_bytes(ci, i);
                pc.check_bounds("column-index", label, mn.as_deref(), mx.as_deref(), None, None)?;
                match (mn, mx) {
                    (Some(a), Some(b)) if !is_nan(o, &a) && !is_nan(o, &b) => bounds.push(Some((a, b))),
                    _ => bounds.push(None),
                }
            }
            let bo = ci.get_boundary_order().unwrap_or(BoundaryOrder::UNORDERED);
            obs.boundary = format!("{bo:?}");
            let nb: Vec<&(Vec<u8>, Vec<u8>)> = bounds.iter().flatten().collect();
            if o != Order::Undefined {
                for w in nb.windows(2) {
                    let (a, b) = (w[0], w[1]);
                    let c_min = cmp(o, &a.0, &b.0, tz);
                    let c_max = cmp(o, &a.1, &b.1, tz);
                    let bad = match bo {
                        BoundaryOrder::ASCENDING => c_min == Some(Ordering::Greater) || c_max == Some(Ordering::Greater),
                        BoundaryOrder::DESCENDING => c_min == Some(Ordering::Less) || c_max == Some(Ordering::Less),
                        BoundaryOrder::UNORDERED => false,
                    };
                    if bad {
                        return Err((format!("c07:boundary-order-false:{o:?}"), format!("boundary_order {bo:?} but consecutive page bounds {a:02x?} then {b:02x?}")));
                    }
                }
            }
        }

        // ---- offset index
        let oi = md.page_index().and_then(|p| p.offset_index(rgi, col));
        if let Some(oi) = oi {
            obs.offset_index = true;
            let locs = oi.page_locations();
            if locs.len() != pages.len() {
                return Err((format!("c07:offset-index-page-count:{label}"), format!("offset index has {} locations, chunk has {} data pages", locs.len(), pages.len())));
            }
            let mut first = 0i64;
            for (i, l) in locs.iter().enumerate() {
                if l.first_row_index != first {
                    return Err((format!("c07:offset-index-first-row-index:{label}"), format!("page {i}: first_row_index {} but {} rows precede it", l.first_row_index, first)));
                }
                first += page_rows[i] as i64;
                if i + 1 < locs.len() && l.offset + l.compressed_page_size as i64 != locs[i + 1].offset {
                    return Err((format!("c07:offset-index-not-contiguous:{label}"), format!("page {i} at {}+{} but next page at {}", l.offset, l.compressed_page_size, locs[i + 1].offset)));
                }
            }
            if let Some(l0) = locs.first() {
                if l0.offset != cm.data_page_offset() {
                    return Err((format!("c07:offset-index-first-offset:{label}"), format!("first page location {} but data_page_offset {}", l0.offset, cm.data_page_offset())));
                }
                let (start, len) = cm.byte_range();
                let last = locs.last().unwrap();
                if (last.offset + last.compressed_page_size as i64) as u64 != start + len {
                    return Err((format!("c07:offset-index-end:{label}"), format!("last page ends at {} but chunk ends at {}", last.offset + last.compressed_page_size as i64, start + len)));
                }
            }
            // the pages located through the offset index are exactly the pages found by scanning
            let (located, _) = scan_pages(bytes, cm, nrows, Some(locs.to_vec())).map_err(|e| (format!("c07:offset-index-locations-unreadable:{label}"), e))?;
            if located.len() != pages.len() || located.iter().zip(&pages).any(|(a, b)| a.num_levels != b.num_levels || a.buf != b.buf) {
                return Err((format!("c07:offset-index-pages-differ:{label}"), "pages read through the offset index differ from the pages found by scanning".to_string()));
            }
        }

        // ---- bloom filter
        if cm.bloom_filter_offset().is_some() {
            let rgr = op.fr.get_row_group(rgi).map_err(|e| ("c07:decode-error".to_string(), format!("{e}")))?;
            match rgr.get_column_bloom_filter(col) {
                Some(bf) => {
                    obs.bloom = true;
                    for v in dec.slots.iter().flatten() {
                        obs.bloom_checked += 1;
                        if !bloom_check(bf, v) {
                            return Err((format!("c07:bloom-filter-excludes-present-value:{label}"), format!("Sbbf::check is false for written value {v:?}")));
                        }
                    }
                }
                None => return Err((format!("c07:bloom-filter-unreadable:{label}"), "bloom_filter_offset set but the reader returned no filter".to_string())),
            }
        }
    }
    Ok(())
}
