//! C07 model: raw physical values, sort orders written from the Parquet format specification
//! (not from the writer's compare_greater), and the per-file checker.
use parquet::basic::{ConvertedType, LogicalType, Type as PhysicalType};
use parquet::schema::types::ColumnDescriptor;
use std::cmp::Ordering;

#[derive(Clone, Debug, PartialEq, Eq, Hash)]
pub enum Raw {
    Bool(bool),
    I32(i32),
    I64(i64),
    I96([u32; 3]),
    F32(u32),
    F64(u64),
    Bytes(Vec<u8>),
}
impl Raw {
    /// plain (statistics) encoding of the value
    pub fn bytes(&self) -> Vec<u8> {
        match self {
            Raw::Bool(b) => vec![*b as u8],
            Raw::I32(x) => x.to_le_bytes().to_vec(),
            Raw::I64(x) => x.to_le_bytes().to_vec(),
            Raw::I96(x) => x.iter().flat_map(|w| w.to_le_bytes()).collect(),
            Raw::F32(x) => x.to_le_bytes().to_vec(),
            Raw::F64(x) => x.to_le_bytes().to_vec(),
            Raw::Bytes(b) => b.clone(),
        }
    }
}

#[derive(Clone, Copy, Debug, PartialEq, Eq)]
pub enum Order {
    Bool,
    Signed32,
    Signed64,
    Unsigned32,
    Unsigned64,
    Float32,
    Float64,
    Float16,
    /// big-endian two's complement of any length (DECIMAL on BYTE_ARRAY / FIXED_LEN_BYTE_ARRAY)
    DecimalBE,
    /// unsigned byte-wise lexicographic
    Bytes,
    /// INT96 timestamps: julian day then nanos of day
    Int96,
    /// no defined order (INTERVAL): min/max carry no meaning
    Undefined,
}

/// Sort order per the format specification (LogicalTypes.md / parquet.thrift ColumnOrder).
pub fn model_order(d: &ColumnDescriptor) -> Order {
    let pt = d.physical_type();
    let lt = d.logical_type_ref();
    let ct = d.converted_type();
    let unsigned_int = matches!(lt, Some(LogicalType::Integer(i)) if !i.is_signed) || matches!(ct, ConvertedType::UINT_8 | ConvertedType::UINT_16 | ConvertedType::UINT_32 | ConvertedType::UINT_64);
    let decimal = matches!(lt, Some(LogicalType::Decimal(_))) || ct == ConvertedType::DECIMAL;
    match pt {
        PhysicalType::BOOLEAN => Order::Bool,
        PhysicalType::INT32 => {
            if unsigned_int {
                Order::Unsigned32
            } else {
                Order::Signed32
            }
        }
        PhysicalType::INT64 => {
            if unsigned_int {
                Order::Unsigned64
            } else {
                Order::Signed64
            }
        }
        PhysicalType::INT96 => Order::Int96,
        PhysicalType::FLOAT => Order::Float32,
        PhysicalType::DOUBLE => Order::Float64,
        PhysicalType::BYTE_ARRAY | PhysicalType::FIXED_LEN_BYTE_ARRAY => {
            if decimal {
                Order::DecimalBE
            } else if matches!(lt, Some(LogicalType::Float16)) {
                Order::Float16
            } else if ct == ConvertedType::INTERVAL {
                Order::Undefined
            } else {
                Order::Bytes
            }
        }
    }
}

pub fn is_nan(o: Order, b: &[u8]) -> bool {
    match o {
        Order::Float32 => b.len() == 4 && f32::from_le_bytes(b.try_into().unwrap()).is_nan(),
        Order::Float64 => b.len() == 8 && f64::from_le_bytes(b.try_into().unwrap()).is_nan(),
        Order::Float16 => b.len() == 2 && (u16::from_le_bytes([b[0], b[1]]) & 0x7fff) > 0x7c00,
        _ => false,
    }
}

fn f16_key(bits: u16) -> i32 {
    // IEEE total order key for non-NaN halves: sign-magnitude to two's complement
    let m = (bits & 0x7fff) as i32;
    if bits & 0x8000 != 0 { -m - 1 } else { m }
}
fn f32_key(bits: u32) -> i64 {
    let m = (bits & 0x7fff_ffff) as i64;
    if bits & 0x8000_0000 != 0 { -m - 1 } else { m }
}
fn f64_key(bits: u64) -> i128 {
    let m = (bits & 0x7fff_ffff_ffff_ffff) as i128;
    if bits >> 63 != 0 { -m - 1 } else { m }
}

/// signed big-endian two's complement comparison with sign extension (written here independently)
fn decimal_cmp(a: &[u8], b: &[u8]) -> Ordering {
    let n = a.len().max(b.len()).max(1);
    let ext = |x: &[u8]| -> Vec<u8> {
        let fill = if x.first().map(|f| f & 0x80 != 0).unwrap_or(false) { 0xffu8 } else { 0 };
        let mut v = vec![fill; n - x.len()];
        v.extend_from_slice(x);
        v
    };
    let (mut ea, mut eb) = (ext(a), ext(b));
    // flip the sign bit: signed order == unsigned order of the flipped values
    ea[0] ^= 0x80;
    eb[0] ^= 0x80;
    ea.cmp(&eb)
}

/// Compare two statistics-encoded values; None when the order is undefined or a NaN is involved.
/// `total_order_zero`: treat -0 < +0 (file declares IEEE_754_TOTAL_ORDER), else -0 == +0.
pub fn cmp(o: Order, a: &[u8], b: &[u8], total_order_zero: bool) -> Option<Ordering> {
    if is_nan(o, a) || is_nan(o, b) {
        return None;
    }
    Some(match o {
        Order::Bool => a[0].cmp(&b[0]),
        Order::Signed32 => i32::from_le_bytes(a.try_into().ok()?).cmp(&i32::from_le_bytes(b.try_into().ok()?)),
        Order::Unsigned32 => u32::from_le_bytes(a.try_into().ok()?).cmp(&u32::from_le_bytes(b.try_into().ok()?)),
        Order::Signed64 => i64::from_le_bytes(a.try_into().ok()?).cmp(&i64::from_le_bytes(b.try_into().ok()?)),
        Order::Unsigned64 => u64::from_le_bytes(a.try_into().ok()?).cmp(&u64::from_le_bytes(b.try_into().ok()?)),
        Order::Float32 => {
            let (x, y) = (u32::from_le_bytes(a.try_into().ok()?), u32::from_le_bytes(b.try_into().ok()?));
            if !total_order_zero && (x << 1) == 0 && (y << 1) == 0 {
                Ordering::Equal
            } else {
                f32_key(x).cmp(&f32_key(y))
            }
        }
        Order::Float64 => {
            let (x, y) = (u64::from_le_bytes(a.try_into().ok()?), u64::from_le_bytes(b.try_into().ok()?));
            if !total_order_zero && (x << 1) == 0 && (y << 1) == 0 {
                Ordering::Equal
            } else {
                f64_key(x).cmp(&f64_key(y))
            }
        }
        Order::Float16 => {
            let (x, y) = (u16::from_le_bytes(a.try_into().ok()?), u16::from_le_bytes(b.try_into().ok()?));
            if !total_order_zero && (x << 1) == 0 && (y << 1) == 0 {
                Ordering::Equal
            } else {
                f16_key(x).cmp(&f16_key(y))
            }
        }
        Order::DecimalBE => decimal_cmp(a, b),
        Order::Bytes => a.cmp(b),
        Order::Int96 => {
            if a.len() != 12 || b.len() != 12 {
                return None;
            }
            let w = |x: &[u8], i: usize| u32::from_le_bytes(x[4 * i..4 * i + 4].try_into().unwrap());
            let key = |x: &[u8]| (w(x, 2) as i32, ((w(x, 1) as u64) << 32) | w(x, 0) as u64);
            key(a).cmp(&key(b))
        }
        Order::Undefined => return None,
    })
}
