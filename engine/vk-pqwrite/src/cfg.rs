//! Writer / reader configuration as a deviation-bounded product over named dimensions.
use crate::val::Lay;
use arrow_schema::Schema;
use parquet::arrow::ArrowSchemaConverter;
use parquet::basic::{BrotliLevel, Compression, Encoding, GzipLevel, Type as PhysicalType, ZstdLevel};
use parquet::file::properties::{BloomFilterPosition, CdcOptions, EnabledStatistics, WriterProperties, WriterVersion};
use parquet::schema::types::ColumnPath;
use vcore::serde_json::{Value, json};

pub struct Dim {
    pub name: &'static str,
    /// choice 0 is the default
    pub choices: &'static [&'static str],
}

pub const D_VERSION: usize = 0;
pub const D_DICT: usize = 1;
pub const D_DICT_LIMIT: usize = 2;
pub const D_ENC: usize = 3;
pub const D_PAGE_SIZE: usize = 4;
pub const D_PAGE_ROWS: usize = 5;
pub const D_WBS: usize = 6;
pub const D_RG_ROWS: usize = 7;
pub const D_RG_BYTES: usize = 8;
pub const D_COMPRESSION: usize = 9;
pub const D_STATS: usize = 10;
pub const D_BLOOM: usize = 11;
pub const D_CDC: usize = 12;
pub const D_COERCE: usize = 13;
pub const D_OFFIDX: usize = 14;
pub const D_PAGE_HDR_STATS: usize = 15;
pub const D_NDV: usize = 16;
pub const D_V2RATIO: usize = 17;
pub const D_BLOOM_POS: usize = 18;
pub const D_TRUNC: usize = 19;
pub const D_LAYOUT: usize = 20;
pub const D_READER_BS: usize = 21;

pub const DIMS: &[Dim] = &[
    Dim { name: "writer_version", choices: &["1.0", "2.0"] },
    Dim { name: "dictionary", choices: &["on", "off"] },
    Dim { name: "dictionary_page_size_limit", choices: &["default", "1", "16"] },
    Dim { name: "encoding", choices: &["default", "PLAIN", "famA(int:DELTA_BINARY_PACKED,bytes:DELTA_LENGTH_BYTE_ARRAY,flba:DELTA_BYTE_ARRAY,bool:RLE,float:BYTE_STREAM_SPLIT)", "famB(int:BYTE_STREAM_SPLIT,bytes:DELTA_BYTE_ARRAY,flba:BYTE_STREAM_SPLIT,bool:RLE,float:PLAIN)"] },
    Dim { name: "data_page_size_limit", choices: &["default", "1", "16"] },
    Dim { name: "data_page_row_count_limit", choices: &["default", "1", "2", "3"] },
    Dim { name: "write_batch_size", choices: &["1024", "1", "2", "3"] },
    Dim { name: "max_row_group_row_count", choices: &["default", "1", "2", "3"] },
    Dim { name: "max_row_group_bytes", choices: &["None", "1", "64"] },
    Dim { name: "compression", choices: &["UNCOMPRESSED", "SNAPPY", "GZIP", "BROTLI", "LZ4", "LZ4_RAW", "ZSTD"] },
    Dim { name: "statistics", choices: &["Page", "None", "Chunk"] },
    Dim { name: "bloom_filter", choices: &["off", "on(max_ndv=1000)", "on(ndv=1,fpp=0.5)", "on(default ndv=1M; dedicated block only)"] },
    Dim { name: "content_defined_chunking", choices: &["off", "min=1,max=2,norm=-1", "min=1,max=40,norm=0"] },
    Dim { name: "coerce_types", choices: &["false", "true"] },
    Dim { name: "offset_index_disabled", choices: &["false", "true"] },
    Dim { name: "write_page_header_statistics", choices: &["false", "true"] },
    Dim { name: "write_row_group_number_distinct_values", choices: &["false", "true"] },
    Dim { name: "data_page_v2_compression_ratio_threshold", choices: &["1.0", "0.01", "100"] },
    Dim { name: "bloom_filter_position", choices: &["AfterRowGroup", "End"] },
    Dim { name: "truncate_lengths", choices: &["64", "1", "None"] },
    Dim { name: "layout", choices: &["compact", "sliced", "garbage"] },
    Dim { name: "reader_batch_size", choices: &["1024", "1", "2", "3"] },
];

/// a configuration = sorted list of (dimension, non-default choice)
#[derive(Clone, Debug, Default, PartialEq, Eq)]
pub struct Cfg(pub Vec<(usize, usize)>);

impl Cfg {
    pub fn get(&self, d: usize) -> usize {
        self.0.iter().find(|x| x.0 == d).map(|x| x.1).unwrap_or(0)
    }
    pub fn with(&self, d: usize, c: usize) -> Cfg {
        let mut v: Vec<(usize, usize)> = self.0.iter().copied().filter(|x| x.0 != d).collect();
        if c != 0 {
            v.push((d, c));
        }
        v.sort();
        Cfg(v)
    }
    pub fn to_json(&self) -> Value {
        json!(self.0.iter().map(|(d, c)| json!([d, c])).collect::<Vec<_>>())
    }
    pub fn from_json(v: &Value) -> Cfg {
        Cfg(v.as_array().map(|a| a.iter().map(|p| (p[0].as_u64().unwrap() as usize, p[1].as_u64().unwrap() as usize)).collect()).unwrap_or_default())
    }
    pub fn describe(&self) -> String {
        if self.0.is_empty() {
            return "default".into();
        }
        self.0.iter().map(|(d, c)| format!("{}={}", DIMS[*d].name, DIMS[*d].choices[*c])).collect::<Vec<_>>().join(" ")
    }
    pub fn layout(&self) -> Lay {
        [Lay::Compact, Lay::Sliced, Lay::Garbage][self.get(D_LAYOUT)]
    }
    pub fn reader_bs(&self) -> usize {
        [1024, 1, 2, 3][self.get(D_READER_BS)]
    }
    pub fn coerce(&self) -> bool {
        self.get(D_COERCE) == 1
    }
    pub fn rg_rows(&self) -> Option<usize> {
        [None, Some(1), Some(2), Some(3)][self.get(D_RG_ROWS)]
    }
    pub fn rg_bytes(&self) -> Option<usize> {
        [None, Some(1), Some(64)][self.get(D_RG_BYTES)]
    }
}

/// all configurations with exactly `k` deviations over the dimensions in `dims`, lexicographic
pub fn exactly(k: usize, dims: &[usize]) -> Vec<Cfg> {
    fn rec(k: usize, dims: &[usize], from: usize, cur: &mut Vec<(usize, usize)>, out: &mut Vec<Cfg>) {
        if k == 0 {
            out.push(Cfg(cur.clone()));
            return;
        }
        for i in from..dims.len() {
            let d = dims[i];
            for c in 1..DIMS[d].choices.len() {
                // the default-sized bloom filter (1M distinct values, 1 MiB zeroed per column chunk, up to
                // ~50 ms per file on this box) is not part of the product; C05 has a dedicated block for it
                if d == D_BLOOM && c == 3 {
                    continue;
                }
                cur.push((d, c));
                rec(k - 1, dims, i + 1, cur, out);
                cur.pop();
            }
        }
    }
    let mut out = vec![];
    rec(k, dims, 0, &mut vec![], &mut out);
    out
}

pub fn all_dims() -> Vec<usize> {
    (0..DIMS.len()).collect()
}

/// physical type -> encoding for the encoding-family choice
fn family_encoding(choice: usize, pt: PhysicalType) -> Option<Encoding> {
    match choice {
        0 => None,
        1 => Some(Encoding::PLAIN),
        2 => Some(match pt {
            PhysicalType::INT32 | PhysicalType::INT64 => Encoding::DELTA_BINARY_PACKED,
            PhysicalType::BYTE_ARRAY => Encoding::DELTA_LENGTH_BYTE_ARRAY,
            PhysicalType::FIXED_LEN_BYTE_ARRAY => Encoding::DELTA_BYTE_ARRAY,
            PhysicalType::BOOLEAN => Encoding::RLE,
            PhysicalType::FLOAT | PhysicalType::DOUBLE => Encoding::BYTE_STREAM_SPLIT,
            PhysicalType::INT96 => Encoding::PLAIN,
        }),
        _ => Some(match pt {
            PhysicalType::INT32 | PhysicalType::INT64 => Encoding::BYTE_STREAM_SPLIT,
            PhysicalType::BYTE_ARRAY => Encoding::DELTA_BYTE_ARRAY,
            PhysicalType::FIXED_LEN_BYTE_ARRAY => Encoding::BYTE_STREAM_SPLIT,
            PhysicalType::BOOLEAN => Encoding::RLE,
            PhysicalType::FLOAT | PhysicalType::DOUBLE => Encoding::PLAIN,
            PhysicalType::INT96 => Encoding::PLAIN,
        }),
    }
}

/// Build WriterProperties for `cfg` and the given Arrow schema (the schema is needed to address
/// each leaf column with an encoding that is valid for its physical type).
pub fn writer_props(cfg: &Cfg, schema: &Schema) -> Result<WriterProperties, String> {
    let mut b = WriterProperties::builder();
    if cfg.get(D_VERSION) == 1 {
        b = b.set_writer_version(WriterVersion::PARQUET_2_0);
    }
    if cfg.get(D_DICT) == 1 {
        b = b.set_dictionary_enabled(false);
    }
    match cfg.get(D_DICT_LIMIT) {
        1 => b = b.set_dictionary_page_size_limit(1),
        2 => b = b.set_dictionary_page_size_limit(16),
        _ => {}
    }
    let enc = cfg.get(D_ENC);
    if enc != 0 {
        let descr = ArrowSchemaConverter::new().with_coerce_types(cfg.coerce()).convert(schema).map_err(|e| format!("schema conversion: {e}"))?;
        for c in descr.columns() {
            if let Some(e) = family_encoding(enc, c.physical_type()) {
                // FLBA of Float16 / decimals / intervals: all listed encodings are generic over FLBA
                b = b.set_column_encoding(ColumnPath::new(c.path().parts().to_vec()), e);
            }
        }
    }
    match cfg.get(D_PAGE_SIZE) {
        1 => b = b.set_data_page_size_limit(1),
        2 => b = b.set_data_page_size_limit(16),
        _ => {}
    }
    match cfg.get(D_PAGE_ROWS) {
        0 => {}
        k => b = b.set_data_page_row_count_limit(k),
    }
    match cfg.get(D_WBS) {
        0 => {}
        k => b = b.set_write_batch_size(k),
    }
    if let Some(k) = cfg.rg_rows() {
        b = b.set_max_row_group_row_count(Some(k));
    }
    if let Some(k) = cfg.rg_bytes() {
        b = b.set_max_row_group_bytes(Some(k));
    }
    b = b.set_compression(match cfg.get(D_COMPRESSION) {
        0 => Compression::UNCOMPRESSED,
        1 => Compression::SNAPPY,
        2 => Compression::GZIP(GzipLevel::default()),
        3 => Compression::BROTLI(BrotliLevel::default()),
        4 => Compression::LZ4,
        5 => Compression::LZ4_RAW,
        _ => Compression::ZSTD(ZstdLevel::default()),
    });
    match cfg.get(D_STATS) {
        1 => b = b.set_statistics_enabled(EnabledStatistics::None),
        2 => b = b.set_statistics_enabled(EnabledStatistics::Chunk),
        _ => {}
    }
    match cfg.get(D_BLOOM) {
        1 => b = b.set_bloom_filter_enabled(true).set_bloom_filter_max_ndv(1000),
        2 => b = b.set_bloom_filter_enabled(true).set_bloom_filter_max_ndv(1).set_bloom_filter_fpp(0.5),
        3 => b = b.set_bloom_filter_enabled(true),
        _ => {}
    }
    match cfg.get(D_CDC) {
        1 => b = b.set_content_defined_chunking(Some(CdcOptions { min_chunk_size: 1, max_chunk_size: 2, norm_level: -1 })),
        2 => b = b.set_content_defined_chunking(Some(CdcOptions { min_chunk_size: 1, max_chunk_size: 40, norm_level: 0 })),
        _ => {}
    }
    if cfg.coerce() {
        b = b.set_coerce_types(true);
    }
    if cfg.get(D_OFFIDX) == 1 {
        b = b.set_offset_index_disabled(true);
    }
    if cfg.get(D_PAGE_HDR_STATS) == 1 {
        b = b.set_write_page_header_statistics(true);
    }
    if cfg.get(D_NDV) == 1 {
        b = b.set_write_row_group_number_distinct_values(true);
    }
    match cfg.get(D_V2RATIO) {
        1 => b = b.set_data_page_v2_compression_ratio_threshold(0.01),
        2 => b = b.set_data_page_v2_compression_ratio_threshold(100.0),
        _ => {}
    }
    if cfg.get(D_BLOOM_POS) == 1 {
        b = b.set_bloom_filter_position(BloomFilterPosition::End);
    }
    match cfg.get(D_TRUNC) {
        1 => b = b.set_statistics_truncate_length(Some(1)).set_column_index_truncate_length(Some(1)),
        2 => b = b.set_statistics_truncate_length(None).set_column_index_truncate_length(None),
        _ => {}
    }
    Ok(b.build())
}
