mod c05;
mod c07;
mod c07check;
mod c07model;
mod cfg;
mod types;
mod val;
fn main() {
    let ctx = vcore::Ctx::from_args();
    match ctx.prop.as_str() {
        "C05" => c05::run(&ctx),
        "C07" => c07::run(&ctx),
        other => {
            eprintln!("MACHINERY: vk-pqwrite does not serve property {other:?}");
            std::process::exit(2)
        }
    }
}
