//! Type menu and value alphabets shared by C05 and C07.
use crate::val::Val;
use arrow_array::ArrowNativeTypeOp;
use arrow_schema::{DataType, Field, Fields, IntervalUnit, TimeUnit};
use std::sync::Arc;

#[derive(Clone, Debug)]
pub struct Ty {
    pub name: String,
    /// coarse label used in fingerprints
    pub family: String,
    pub dt: DataType,
    pub nullable: bool,
    /// member of the DESIGN T_core grid (informational)
    #[allow(dead_code)]
    pub core: bool,
}

fn f(name: &str, dt: DataType, nullable: bool) -> Arc<Field> {
    Arc::new(Field::new(name, dt, nullable))
}
pub fn list(item: DataType, item_nullable: bool) -> DataType {
    DataType::List(f("item", item, item_nullable))
}
pub fn large_list(item: DataType, item_nullable: bool) -> DataType {
    DataType::LargeList(f("item", item, item_nullable))
}
pub fn list_view(item: DataType, item_nullable: bool) -> DataType {
    DataType::ListView(f("item", item, item_nullable))
}
pub fn large_list_view(item: DataType, item_nullable: bool) -> DataType {
    DataType::LargeListView(f("item", item, item_nullable))
}
pub fn fsl(item: DataType, item_nullable: bool, n: i32) -> DataType {
    DataType::FixedSizeList(f("item", item, item_nullable), n)
}
pub fn strukt(fields: Vec<(&str, DataType, bool)>) -> DataType {
    DataType::Struct(Fields::from(fields.into_iter().map(|(n, d, nl)| Field::new(n, d, nl)).collect::<Vec<_>>()))
}
pub fn map(value: DataType, value_nullable: bool) -> DataType {
    DataType::Map(f("entries", strukt(vec![("keys", DataType::Utf8, false), ("values", value, value_nullable)]), false), false)
}
pub fn dict(k: DataType, v: DataType) -> DataType {
    DataType::Dictionary(Box::new(k), Box::new(v))
}
pub fn ree(r: DataType, v: DataType) -> DataType {
    DataType::RunEndEncoded(f("run_ends", r, false), f("values", v, true))
}

fn family_of(dt: &DataType) -> String {
    use DataType::*;
    match dt {
        Decimal32(_, _) => "Decimal32".into(),
        Decimal64(_, _) => "Decimal64".into(),
        Decimal128(_, _) => "Decimal128".into(),
        Decimal256(_, _) => "Decimal256".into(),
        Timestamp(_, _) => "Timestamp".into(),
        Time32(_) => "Time32".into(),
        Time64(_) => "Time64".into(),
        Duration(_) => "Duration".into(),
        Interval(_) => "Interval".into(),
        FixedSizeBinary(_) => "FixedSizeBinary".into(),
        // nested types: the outermost constructor only (one levels / reader defect = one class)
        List(_) => "List".into(),
        LargeList(_) => "LargeList".into(),
        ListView(_) => "ListView".into(),
        LargeListView(_) => "LargeListView".into(),
        FixedSizeList(_, _) => "FixedSizeList".into(),
        Struct(_) => "Struct".into(),
        Map(_, _) => "Map".into(),
        Dictionary(_, v) => format!("Dictionary<{}>", family_of(v)),
        RunEndEncoded(_, v) => format!("RunEndEncoded<{}>", family_of(v.data_type())),
        other => format!("{other}"),
    }
}

fn ty(dt: DataType, nullable: bool, core: bool) -> Ty {
    Ty { name: format!("{dt}{}", if nullable { "" } else { " not null" }), family: family_of(&dt), dt, nullable, core }
}

/// Flat (single leaf) column types the Arrow writer documents as supported.
pub fn flat_types() -> Vec<Ty> {
    use DataType::*;
    let tz = |s: &str| Some(Arc::<str>::from(s));
    vec![
        ty(Boolean, true, true),
        ty(Boolean, false, false),
        ty(Int8, true, true),
        ty(Int16, true, false),
        ty(Int32, true, true),
        ty(Int32, false, true),
        ty(Int64, true, true),
        ty(UInt8, true, false),
        ty(UInt16, true, false),
        ty(UInt32, true, true),
        ty(UInt64, true, true),
        ty(Float16, true, true),
        ty(Float32, true, true),
        ty(Float64, true, true),
        ty(Decimal32(1, 0), true, false),
        ty(Decimal32(5, 2), true, true),
        ty(Decimal32(9, 0), true, false),
        ty(Decimal64(12, 3), true, true),
        ty(Decimal64(18, 0), true, false),
        // precisions on both sides of every physical-width switch of the writer (INT32 <= 9 < INT64 <= 18 <
        // FIXED_LEN_BYTE_ARRAY; 16-byte limit at 38/39) for each Arrow decimal width that admits them
        ty(Decimal64(9, 1), true, false),
        ty(Decimal64(10, 1), true, false),
        ty(Decimal128(10, 0), true, false),
        ty(Decimal256(10, 1), true, false),
        ty(Decimal256(19, 2), true, false),
        ty(Decimal256(38, 5), true, false),
        ty(Decimal256(39, 5), true, false),
        ty(Decimal128(1, 0), true, false),
        ty(Decimal128(9, 2), true, false),
        ty(Decimal128(18, 4), true, false),
        ty(Decimal128(19, 4), true, false),
        ty(Decimal128(38, 10), true, true),
        ty(Decimal256(9, 1), true, false),
        ty(Decimal256(18, 1), true, false),
        ty(Decimal256(40, 3), true, true),
        ty(Decimal256(76, 0), true, false),
        ty(Date32, true, true),
        ty(Date64, true, true),
        ty(Time32(TimeUnit::Second), true, true),
        ty(Time32(TimeUnit::Millisecond), true, false),
        ty(Time64(TimeUnit::Microsecond), true, false),
        ty(Time64(TimeUnit::Nanosecond), true, true),
        ty(Timestamp(TimeUnit::Second, None), true, true),
        ty(Timestamp(TimeUnit::Millisecond, tz("UTC")), true, false),
        ty(Timestamp(TimeUnit::Microsecond, None), true, false),
        ty(Timestamp(TimeUnit::Nanosecond, tz("+05:30")), true, true),
        ty(Duration(TimeUnit::Second), true, false),
        ty(Duration(TimeUnit::Millisecond), true, true),
        ty(Duration(TimeUnit::Microsecond), true, false),
        ty(Duration(TimeUnit::Nanosecond), true, false),
        ty(Interval(IntervalUnit::YearMonth), true, true),
        ty(Interval(IntervalUnit::DayTime), true, true),
        ty(Utf8, true, true),
        ty(Utf8, false, false),
        ty(LargeUtf8, true, true),
        ty(Utf8View, true, true),
        ty(Binary, true, true),
        ty(LargeBinary, true, false),
        ty(BinaryView, true, true),
        ty(FixedSizeBinary(3), true, true),
        ty(FixedSizeBinary(1), false, false),
        ty(Null, true, true),
        ty(dict(Int8, Utf8), true, true),
        ty(dict(UInt16, Int32), true, true),
        ty(dict(Int32, Utf8View), true, false),
        ty(dict(Int16, Binary), true, false),
        ty(dict(Int64, LargeUtf8), true, false),
        ty(dict(Int8, FixedSizeBinary(3)), true, true),
        ty(dict(UInt8, Float64), true, true),
        ty(dict(UInt32, Decimal128(38, 10)), true, false),
        ty(dict(Int8, Utf8), false, false),
        ty(ree(Int16, Int32), true, true),
        ty(ree(Int32, Utf8), true, true),
        ty(ree(Int64, Boolean), true, true),
        ty(ree(Int32, Float64), false, false),
    ]
}

/// The nesting family over T in {Int32, Utf8, Boolean}.
pub fn nested_types() -> Vec<Ty> {
    use DataType::*;
    let mut v = vec![];
    for (k, t) in [Int32, Utf8, Boolean].into_iter().enumerate() {
        let first = k == 0;
        // List with all four (list nullable, item nullable) combinations
        for ln in [true, false] {
            for inl in [true, false] {
                v.push(ty(list(t.clone(), inl), ln, first || (ln && inl)));
            }
        }
        v.push(ty(large_list(t.clone(), true), true, first));
        v.push(ty(list_view(t.clone(), true), true, first));
        v.push(ty(large_list_view(t.clone(), true), true, false));
        v.push(ty(fsl(t.clone(), true, 2), true, first));
        v.push(ty(fsl(t.clone(), false, 2), false, false));
        v.push(ty(list(list(t.clone(), true), true), true, true));
        v.push(ty(list(list(t.clone(), false), false), false, false));
        v.push(ty(strukt(vec![("l", list(t.clone(), true), true)]), true, first));
        v.push(ty(strukt(vec![("a", t.clone(), true), ("l", list(t.clone(), true), false)]), true, k == 1));
        v.push(ty(list(strukt(vec![("a", t.clone(), true)]), true), true, true));
        v.push(ty(list(strukt(vec![("a", t.clone(), false), ("b", Int32, true)]), false), true, false));
        v.push(ty(strukt(vec![("s", strukt(vec![("a", t.clone(), true)]), true)]), true, first));
        v.push(ty(strukt(vec![("s", strukt(vec![("a", t.clone(), true)]), false), ("x", Int32, false)]), true, false));
        v.push(ty(map(t.clone(), true), true, true));
        v.push(ty(map(t.clone(), false), false, false));
    }
    // a few extra nestings with non-core leaves
    v.push(ty(list(dict(Int8, Utf8), true), true, true));
    v.push(ty(list(Float64, true), true, false));
    v.push(ty(list(Decimal128(38, 10), true), true, false));
    v.push(ty(list(FixedSizeBinary(3), true), true, false));
    v.push(ty(strukt(vec![("a", Int32, true), ("b", Utf8, true)]), true, true));
    v.push(ty(strukt(vec![("a", Int32, false), ("b", Utf8, false)]), false, false));
    v.push(ty(fsl(list(Int32, true), true, 2), true, false));
    v.push(ty(list(fsl(Int32, true, 2), true), true, false));
    v.push(ty(list(map(Int32, true), true), true, false));
    v.push(ty(map(list(Int32, true), true), true, false));
    v
}

fn pow10(p: u32) -> i128 {
    10i128.pow(p)
}

/// non-null letters of a leaf type, most interesting first (2..5 letters)
pub fn leaf_alpha(dt: &DataType) -> Vec<Val> {
    use DataType::*;
    let i = |v: &[i128]| v.iter().map(|x| Val::I(*x)).collect::<Vec<_>>();
    match dt {
        Null => vec![],
        Boolean => vec![Val::Bool(true), Val::Bool(false)],
        Int8 => i(&[0, -1, i8::MIN as i128, i8::MAX as i128]),
        Int16 => i(&[0, -1, i16::MIN as i128, i16::MAX as i128]),
        Int32 | Date32 | Time32(_) | Interval(IntervalUnit::YearMonth) => i(&[0, -1, i32::MIN as i128, i32::MAX as i128]),
        Int64 | Time64(_) | Timestamp(_, _) | Duration(_) => i(&[0, -1, i64::MIN as i128, i64::MAX as i128]),
        UInt8 => i(&[0, 1, 0x80, u8::MAX as i128]),
        UInt16 => i(&[0, 1, 0x8000, u16::MAX as i128]),
        UInt32 => i(&[0, 1, 0x8000_0000, u32::MAX as i128]),
        UInt64 => i(&[0, 1, 0x8000_0000_0000_0000, u64::MAX as i128]),
        // +0, -0, quiet NaN with payload, negative signalling NaN with payload, 1.5
        Float16 => vec![Val::F16(0), Val::F16(0x8000), Val::F16(0x7e01), Val::F16(0xfc01), Val::F16(0x3e00)],
        Float32 => vec![Val::F32(0), Val::F32(0x8000_0000), Val::F32(0x7fc0_0001), Val::F32(0xff80_0001), Val::F32(1.5f32.to_bits())],
        Float64 => vec![Val::F64(0), Val::F64(1 << 63), Val::F64(0x7ff8_0000_0000_0001), Val::F64(0xfff0_0000_0000_0001), Val::F64(1.5f64.to_bits())],
        Decimal32(p, _) | Decimal64(p, _) | Decimal128(p, _) => {
            let m = pow10(*p as u32) - 1;
            i(&[0, -1, m, -m])
        }
        Decimal256(p, _) => {
            let m = arrow_buffer::i256::from_i128(10).pow_wrapping(*p as u32).wrapping_sub(arrow_buffer::i256::ONE);
            let n = m.wrapping_neg();
            let (ml, mh) = m.to_parts();
            let (nl, nh) = n.to_parts();
            vec![Val::D256(0, 0), Val::D256(-1, u128::MAX), Val::D256(mh, ml), Val::D256(nh, nl)]
        }
        // 2022-01-01 plus one millisecond is not a whole day (lossy under coerce_types, documented)
        Date64 => i(&[0, -86_400_000, 1_640_995_200_000, 1_640_995_200_001]),
        Interval(IntervalUnit::DayTime) => i(&[0, ((1i64 << 32) | 2) as i128, (((-1i64) << 32) | 0xffff_ffff) as i128, (((i32::MAX as i64) << 32) | (i32::MIN as u32 as i64)) as i128]),
        // lengths 12 / 13 / 11 straddle the inline-view limit (12 bytes); the first three letters are the
        // ones nested leaves use
        Utf8 | LargeUtf8 | Utf8View => vec![Val::s("abcdefghijkl"), Val::s("abcdefghijklm"), Val::s(""), Val::s("é€"), Val::s("abcdefghijk"), Val::s("a")],
        Binary | LargeBinary | BinaryView => vec![Val::Bytes((1..=12).collect()), Val::Bytes((1..=13).collect()), Val::Bytes(vec![]), Val::Bytes(vec![0xff, 0xfe]), Val::Bytes((1..=11).collect()), Val::Bytes(vec![0])],
        FixedSizeBinary(n) => {
            let n = *n as usize;
            vec![Val::Bytes(vec![0; n]), Val::Bytes((1..=n as u8).collect()), Val::Bytes(vec![0xff; n])]
        }
        Dictionary(_, v) => leaf_alpha(v),
        RunEndEncoded(_, v) => leaf_alpha(v.data_type()),
        other => panic!("leaf_alpha: {other}"),
    }
}

pub fn is_leaf(dt: &DataType) -> bool {
    !matches!(
        dt,
        DataType::List(_) | DataType::LargeList(_) | DataType::ListView(_) | DataType::LargeListView(_) | DataType::FixedSizeList(_, _) | DataType::Struct(_) | DataType::Map(_, _)
    )
}

fn with_null(mut v: Vec<Val>, nullable: bool) -> Vec<Val> {
    if nullable {
        v.push(Val::Null);
    }
    v
}

/// lists of length 0..=2 over `child`
fn lists_upto2(child: &[Val]) -> Vec<Val> {
    let mut out = vec![Val::List(vec![])];
    for c in child {
        out.push(Val::List(vec![c.clone()]));
    }
    for a in child {
        for b in child {
            out.push(Val::List(vec![a.clone(), b.clone()]));
        }
    }
    out
}

/// a small representative alphabet of value trees (Null last when nullable)
pub fn small(dt: &DataType, nullable: bool, top: bool) -> Vec<Val> {
    use DataType::*;
    match dt {
        d if is_leaf(d) => {
            let mut a = leaf_alpha(d);
            if !top {
                // byte-like leaves keep three letters (12 bytes, 13 bytes, empty), all others two
                let byte_like = matches!(d, Utf8 | LargeUtf8 | Utf8View | Binary | LargeBinary | BinaryView) || matches!(d, Dictionary(_, v) if matches!(v.as_ref(), Utf8 | LargeUtf8 | Utf8View | Binary | LargeBinary | BinaryView));
                a.truncate(if byte_like { 3 } else { 2 });
            }
            with_null(a, nullable)
        }
        List(c) | LargeList(c) | ListView(c) | LargeListView(c) => {
            let ch = small(c.data_type(), c.is_nullable(), false);
            let mut out = vec![Val::List(vec![])];
            for x in &ch {
                out.push(Val::List(vec![x.clone()]));
            }
            if ch.len() >= 2 {
                out.push(Val::List(vec![ch[0].clone(), ch[1].clone()]));
                out.push(Val::List(vec![ch[ch.len() - 1].clone(), ch[0].clone()]));
            }
            with_null(out, nullable)
        }
        FixedSizeList(c, n) => {
            let ch = small(c.data_type(), c.is_nullable(), false);
            let mut out = vec![];
            if *n == 2 {
                out.push(Val::List(vec![ch[0].clone(), ch[1 % ch.len()].clone()]));
                out.push(Val::List(vec![ch[ch.len() - 1].clone(), ch[0].clone()]));
                out.push(Val::List(vec![ch[ch.len() - 1].clone(), ch[ch.len() - 1].clone()]));
            } else {
                for x in &ch {
                    out.push(Val::List(vec![x.clone(); *n as usize]));
                }
            }
            with_null(out, nullable)
        }
        Struct(fs) => {
            // diagonal choices plus the all-last (all-null where nullable) row
            let chs: Vec<Vec<Val>> = fs.iter().map(|c| small(c.data_type(), c.is_nullable(), false)).collect();
            let m = chs.iter().map(|c| c.len()).max().unwrap_or(1);
            let mut out = vec![];
            for k in 0..m {
                out.push(Val::Struct(chs.iter().map(|c| c[k.min(c.len() - 1)].clone()).collect()));
            }
            if chs.len() > 1 {
                // mixed row: first child first letter, others last letter
                out.push(Val::Struct(chs.iter().enumerate().map(|(j, c)| if j == 0 { c[0].clone() } else { c[c.len() - 1].clone() }).collect()));
            }
            out.dedup();
            with_null(out, nullable)
        }
        Map(c, _) => match c.data_type() {
            Struct(fs) => {
                let vs = small(fs[1].data_type(), fs[1].is_nullable(), false);
                let e = |k: &str, v: &Val| Val::Struct(vec![Val::s(k), v.clone()]);
                let mut out = vec![Val::List(vec![])];
                for v in &vs {
                    out.push(Val::List(vec![e("a", v)]));
                }
                out.push(Val::List(vec![e("", &vs[0]), e("b", &vs[vs.len() - 1])]));
                with_null(out, nullable)
            }
            _ => unreachable!(),
        },
        other => panic!("small: {other}"),
    }
}

/// the full one-level tree alphabet: every list of <= 2 elements over the child's small alphabet
/// (only differs from `small` for list-like and map types)
pub fn full(dt: &DataType, nullable: bool) -> Vec<Val> {
    use DataType::*;
    match dt {
        List(c) | LargeList(c) | ListView(c) | LargeListView(c) => {
            let ch = small(c.data_type(), c.is_nullable(), false);
            with_null(lists_upto2(&ch), nullable)
        }
        FixedSizeList(c, 2) => {
            let ch = small(c.data_type(), c.is_nullable(), false);
            let mut out = vec![];
            for a in &ch {
                for b in &ch {
                    out.push(Val::List(vec![a.clone(), b.clone()]));
                }
            }
            with_null(out, nullable)
        }
        Struct(fs) => {
            let chs: Vec<Vec<Val>> = fs.iter().map(|c| small(c.data_type(), c.is_nullable(), false)).collect();
            let mut out: Vec<Vec<Val>> = vec![vec![]];
            for c in &chs {
                let mut nx = vec![];
                for p in &out {
                    for x in c {
                        let mut q = p.clone();
                        q.push(x.clone());
                        nx.push(q);
                    }
                }
                out = nx;
            }
            with_null(out.into_iter().map(Val::Struct).collect(), nullable)
        }
        Map(c, _) => match c.data_type() {
            Struct(fs) => {
                let vs = small(fs[1].data_type(), fs[1].is_nullable(), false);
                let mut entries = vec![];
                for k in ["a", ""] {
                    for v in &vs {
                        entries.push(Val::Struct(vec![Val::s(k), v.clone()]));
                    }
                }
                with_null(lists_upto2(&entries), nullable)
            }
            _ => unreachable!(),
        },
        d => small(d, nullable, true),
    }
}
