//! Logical value model (`Val`), construction of Arrow arrays from value trees in several physical
//! layouts (`realise`), and extraction of value trees from arrays through typed accessors
//! (`extract`). `extract` never uses `==`/`to_data` comparison or any kernel.
use arrow_array::builder::{BinaryViewBuilder, StringViewBuilder};
use arrow_array::cast::AsArray;
use arrow_array::types::*;
use arrow_array::*;
use arrow_buffer::{BooleanBuffer, Buffer, IntervalDayTime, NullBuffer, OffsetBuffer, ScalarBuffer, i256};
use arrow_schema::{DataType, FieldRef, IntervalUnit, TimeUnit};
use std::sync::Arc;
use vcore::serde_json::{Value, json};

#[derive(Clone, Debug, PartialEq, Eq, Hash, PartialOrd, Ord)]
pub enum Val {
    Null,
    Bool(bool),
    /// every integer-like value (ints, dates, times, timestamps, durations, decimals <= 128 bit,
    /// year-month intervals; day-time intervals packed as days<<32 | millis as u32)
    I(i128),
    F16(u16),
    F32(u32),
    F64(u64),
    /// Decimal256 as (high, low)
    D256(i128, u128),
    Bytes(Vec<u8>),
    Str(String),
    List(Vec<Val>),
    Struct(Vec<Val>),
}

impl Val {
    pub fn is_null(&self) -> bool {
        matches!(self, Val::Null)
    }
    pub fn s(x: &str) -> Val {
        Val::Str(x.to_string())
    }
    pub fn to_json(&self) -> Value {
        match self {
            Val::Null => Value::Null,
            Val::Bool(b) => json!(b),
            Val::I(i) => json!({"i": i.to_string()}),
            Val::F16(b) => json!({"f16": b}),
            Val::F32(b) => json!({"f32": b}),
            Val::F64(b) => json!({"f64": b.to_string()}),
            Val::D256(h, l) => json!({"d256": [h.to_string(), l.to_string()]}),
            Val::Bytes(b) => json!({"b": b}),
            Val::Str(s) => json!({"s": s}),
            Val::List(l) => json!({"l": l.iter().map(|v| v.to_json()).collect::<Vec<_>>()}),
            Val::Struct(l) => json!({"st": l.iter().map(|v| v.to_json()).collect::<Vec<_>>()}),
        }
    }
    pub fn from_json(v: &Value) -> Val {
        match v {
            Value::Null => Val::Null,
            Value::Bool(b) => Val::Bool(*b),
            Value::Object(o) => {
                let (k, x) = o.iter().next().expect("val object");
                match k.as_str() {
                    "i" => Val::I(x.as_str().unwrap().parse().unwrap()),
                    "f16" => Val::F16(x.as_u64().unwrap() as u16),
                    "f32" => Val::F32(x.as_u64().unwrap() as u32),
                    "f64" => Val::F64(x.as_str().unwrap().parse().unwrap()),
                    "d256" => Val::D256(x[0].as_str().unwrap().parse().unwrap(), x[1].as_str().unwrap().parse().unwrap()),
                    "b" => Val::Bytes(x.as_array().unwrap().iter().map(|b| b.as_u64().unwrap() as u8).collect()),
                    "s" => Val::Str(x.as_str().unwrap().to_string()),
                    "l" => Val::List(x.as_array().unwrap().iter().map(Val::from_json).collect()),
                    "st" => Val::Struct(x.as_array().unwrap().iter().map(Val::from_json).collect()),
                    other => panic!("bad val key {other}"),
                }
            }
            other => panic!("bad val json {other}"),
        }
    }
}

pub fn vals_json(v: &[Val]) -> Value {
    Value::Array(v.iter().map(|x| x.to_json()).collect())
}
pub fn vals_from_json(v: &Value) -> Vec<Val> {
    v.as_array().map(|a| a.iter().map(Val::from_json).collect()).unwrap_or_default()
}

/// physical layout of a realised column
#[derive(Clone, Copy, Debug, PartialEq, Eq)]
pub enum Lay {
    /// what a standard builder produces
    Compact,
    /// one extra leading and one trailing row (junk values), then `slice(1, n)`: non-zero offset
    Sliced,
    /// junk payload under null slots (non-empty list ranges under null lists, non-null children
    /// under null structs, junk primitive payload), validity buffer present even when all valid,
    /// dictionary with an unused entry and a null entry referenced by keys, run-end arrays with
    /// unmerged runs, list-views with children in reverse order
    Garbage,
}
/// some non-null value of the type (used as junk under nulls and as padding rows)
pub fn junk(dt: &DataType) -> Val {
    match dt {
        DataType::Null => Val::Null,
        DataType::Boolean => Val::Bool(true),
        DataType::Float16 => Val::F16(0x4500),
        DataType::Float32 => Val::F32(7.5f32.to_bits()),
        DataType::Float64 => Val::F64(7.5f64.to_bits()),
        DataType::Decimal256(_, _) => Val::D256(0, 77),
        DataType::Utf8 | DataType::LargeUtf8 | DataType::Utf8View => Val::s("zz"),
        DataType::Binary | DataType::LargeBinary | DataType::BinaryView => Val::Bytes(vec![0x7a, 0x7a]),
        DataType::FixedSizeBinary(n) => Val::Bytes(vec![0x7a; *n as usize]),
        DataType::List(f) | DataType::LargeList(f) | DataType::ListView(f) | DataType::LargeListView(f) => Val::List(vec![junk(f.data_type())]),
        DataType::FixedSizeList(f, n) => Val::List(vec![junk(f.data_type()); *n as usize]),
        DataType::Struct(fs) => Val::Struct(fs.iter().map(|f| junk(f.data_type())).collect()),
        DataType::Map(f, _) => match f.data_type() {
            DataType::Struct(fs) => Val::List(vec![Val::Struct(vec![junk(fs[0].data_type()), junk(fs[1].data_type())])]),
            _ => unreachable!(),
        },
        DataType::Dictionary(_, v) => junk(v),
        DataType::RunEndEncoded(_, v) => junk(v.data_type()),
        _ => Val::I(77),
    }
}

fn nulls_of(vals: &[Val], g: bool) -> Option<NullBuffer> {
    if vals.iter().any(|v| v.is_null()) || g {
        Some(NullBuffer::from(vals.iter().map(|v| !v.is_null()).collect::<Vec<bool>>()))
    } else {
        None
    }
}

fn as_i(v: &Val) -> i128 {
    match v {
        Val::I(i) => *i,
        other => panic!("expected integer val, got {other:?}"),
    }
}

fn prim<T: ArrowPrimitiveType>(dt: &DataType, vals: &[Val], g: bool, conv: impl Fn(&Val) -> T::Native) -> ArrayRef {
    let jv = junk(dt);
    let v: Vec<T::Native> = vals
        .iter()
        .map(|x| match x {
            Val::Null => {
                if g {
                    conv(&jv)
                } else {
                    T::Native::default()
                }
            }
            x => conv(x),
        })
        .collect();
    Arc::new(PrimitiveArray::<T>::new(ScalarBuffer::from(v), nulls_of(vals, g)).with_data_type(dt.clone()))
}

fn bytes_of(v: &Val) -> &[u8] {
    match v {
        Val::Bytes(b) => b,
        Val::Str(s) => s.as_bytes(),
        other => panic!("expected bytes/str val, got {other:?}"),
    }
}

fn byte_array<O: OffsetSizeTrait>(dt: &DataType, vals: &[Val], g: bool, utf8: bool) -> ArrayRef {
    let mut data: Vec<u8> = vec![];
    let mut lens = vec![];
    for v in vals {
        match v {
            Val::Null => {
                if g {
                    data.extend_from_slice(b"zz");
                    lens.push(2)
                } else {
                    lens.push(0)
                }
            }
            v => {
                let b = bytes_of(v);
                data.extend_from_slice(b);
                lens.push(b.len());
            }
        }
    }
    let offsets = OffsetBuffer::<O>::from_lengths(lens);
    let nulls = nulls_of(vals, g);
    let _ = dt;
    if utf8 {
        Arc::new(GenericStringArray::<O>::new(offsets, Buffer::from_vec(data), nulls))
    } else {
        Arc::new(GenericBinaryArray::<O>::new(offsets, Buffer::from_vec(data), nulls))
    }
}

fn child_field(dt: &DataType) -> &FieldRef {
    match dt {
        DataType::List(f) | DataType::LargeList(f) | DataType::ListView(f) | DataType::LargeListView(f) | DataType::FixedSizeList(f, _) | DataType::Map(f, _) => f,
        _ => unreachable!(),
    }
}

fn items(v: &Val) -> &[Val] {
    match v {
        Val::List(l) => l,
        other => panic!("expected list val, got {other:?}"),
    }
}

fn list_like<O: OffsetSizeTrait>(dt: &DataType, vals: &[Val], g: bool, view: bool) -> ArrayRef {
    let f = child_field(dt).clone();
    let jl = vec![junk(f.data_type())];
    let mut child: Vec<Val> = vec![];
    let mut lens = vec![];
    for v in vals {
        let it: &[Val] = match v {
            Val::Null => {
                if g {
                    &jl
                } else {
                    &[]
                }
            }
            v => items(v),
        };
        child.extend_from_slice(it);
        lens.push(it.len());
    }
    let nulls = nulls_of(vals, g);
    if !view {
        let values = build(f.data_type(), &child, g);
        let offsets = OffsetBuffer::<O>::from_lengths(lens);
        Arc::new(GenericListArray::<O>::new(f, offsets, values, nulls))
    } else if !g {
        let values = build(f.data_type(), &child, g);
        let mut off = vec![];
        let mut acc = 0usize;
        for l in &lens {
            off.push(O::usize_as(acc));
            acc += l;
        }
        let sizes: Vec<O> = lens.iter().map(|l| O::usize_as(*l)).collect();
        Arc::new(GenericListViewArray::<O>::new(f, ScalarBuffer::from(off), ScalarBuffer::from(sizes), values, nulls))
    } else {
        // children laid out in reverse row order with one unused gap element in front
        let mut rev_child: Vec<Val> = vec![junk(f.data_type())];
        let mut off = vec![O::usize_as(0); vals.len()];
        let mut start = 0usize;
        let mut starts = vec![];
        for l in &lens {
            starts.push(start);
            start += l;
        }
        for i in (0..vals.len()).rev() {
            off[i] = O::usize_as(rev_child.len());
            rev_child.extend_from_slice(&child[starts[i]..starts[i] + lens[i]]);
        }
        let values = build(f.data_type(), &rev_child, g);
        let sizes: Vec<O> = lens.iter().map(|l| O::usize_as(*l)).collect();
        Arc::new(GenericListViewArray::<O>::new(f, ScalarBuffer::from(off), ScalarBuffer::from(sizes), values, nulls))
    }
}

macro_rules! dict_build {
    ($kt:ty, $vt:expr, $vals:expr, $g:expr) => {{
        let mut dvals: Vec<Val> = vec![];
        if $g {
            dvals.push(junk($vt)); // unused entry
            dvals.push(Val::Null); // null entry, referenced by every second null row
        }
        let mut keys: Vec<Option<<$kt as ArrowPrimitiveType>::Native>> = vec![];
        let mut nth_null = 0;
        for v in $vals.iter() {
            if v.is_null() {
                nth_null += 1;
                if $g && nth_null % 2 == 1 {
                    keys.push(Some(1 as _));
                } else {
                    keys.push(None);
                }
                continue;
            }
            let p = match dvals.iter().position(|d| d == v) {
                Some(p) => p,
                None => {
                    dvals.push(v.clone());
                    dvals.len() - 1
                }
            };
            keys.push(Some(p as _));
        }
        let values = build($vt, &dvals, false);
        let keys = PrimitiveArray::<$kt>::from(keys);
        Arc::new(DictionaryArray::<$kt>::try_new(keys, values).expect("dictionary")) as ArrayRef
    }};
}

macro_rules! ree_build {
    ($rt:ty, $vf:expr, $vals:expr, $g:expr) => {{
        let mut ends: Vec<<$rt as ArrowPrimitiveType>::Native> = vec![];
        let mut rvals: Vec<Val> = vec![];
        for (i, v) in $vals.iter().enumerate() {
            if !$g && rvals.last() == Some(v) {
                *ends.last_mut().unwrap() = (i + 1) as _;
            } else {
                ends.push((i + 1) as _);
                rvals.push(v.clone());
            }
        }
        let values = build($vf.data_type(), &rvals, false);
        let run_ends = PrimitiveArray::<$rt>::from(ends);
        Arc::new(RunArray::<$rt>::try_new(&run_ends, values.as_ref()).expect("run array")) as ArrayRef
    }};
}

/// Build an array of `dt` denoting `vals` (compact when `g` is false, garbage layout otherwise).
pub fn build(dt: &DataType, vals: &[Val], g: bool) -> ArrayRef {
    use DataType::*;
    let i = as_i;
    match dt {
        Null => Arc::new(NullArray::new(vals.len())),
        Boolean => {
            let bits: Vec<bool> = vals.iter().map(|v| matches!(v, Val::Bool(true)) || (g && v.is_null())).collect();
            Arc::new(BooleanArray::new(BooleanBuffer::from(bits), nulls_of(vals, g)))
        }
        Int8 => prim::<Int8Type>(dt, vals, g, |v| i(v) as i8),
        Int16 => prim::<Int16Type>(dt, vals, g, |v| i(v) as i16),
        Int32 => prim::<Int32Type>(dt, vals, g, |v| i(v) as i32),
        Int64 => prim::<Int64Type>(dt, vals, g, |v| i(v) as i64),
        UInt8 => prim::<UInt8Type>(dt, vals, g, |v| i(v) as u8),
        UInt16 => prim::<UInt16Type>(dt, vals, g, |v| i(v) as u16),
        UInt32 => prim::<UInt32Type>(dt, vals, g, |v| i(v) as u32),
        UInt64 => prim::<UInt64Type>(dt, vals, g, |v| i(v) as u64),
        Float16 => prim::<Float16Type>(dt, vals, g, |v| match v {
            Val::F16(b) => half::f16::from_bits(*b),
            o => panic!("f16 {o:?}"),
        }),
        Float32 => prim::<Float32Type>(dt, vals, g, |v| match v {
            Val::F32(b) => f32::from_bits(*b),
            o => panic!("f32 {o:?}"),
        }),
        Float64 => prim::<Float64Type>(dt, vals, g, |v| match v {
            Val::F64(b) => f64::from_bits(*b),
            o => panic!("f64 {o:?}"),
        }),
        Decimal32(_, _) => prim::<Decimal32Type>(dt, vals, g, |v| i(v) as i32),
        Decimal64(_, _) => prim::<Decimal64Type>(dt, vals, g, |v| i(v) as i64),
        Decimal128(_, _) => prim::<Decimal128Type>(dt, vals, g, |v| i(v)),
        Decimal256(_, _) => prim::<Decimal256Type>(dt, vals, g, |v| match v {
            Val::D256(h, l) => i256::from_parts(*l, *h),
            o => panic!("d256 {o:?}"),
        }),
        Date32 => prim::<Date32Type>(dt, vals, g, |v| i(v) as i32),
        Date64 => prim::<Date64Type>(dt, vals, g, |v| i(v) as i64),
        Time32(TimeUnit::Second) => prim::<Time32SecondType>(dt, vals, g, |v| i(v) as i32),
        Time32(TimeUnit::Millisecond) => prim::<Time32MillisecondType>(dt, vals, g, |v| i(v) as i32),
        Time64(TimeUnit::Microsecond) => prim::<Time64MicrosecondType>(dt, vals, g, |v| i(v) as i64),
        Time64(TimeUnit::Nanosecond) => prim::<Time64NanosecondType>(dt, vals, g, |v| i(v) as i64),
        Timestamp(TimeUnit::Second, _) => prim::<TimestampSecondType>(dt, vals, g, |v| i(v) as i64),
        Timestamp(TimeUnit::Millisecond, _) => prim::<TimestampMillisecondType>(dt, vals, g, |v| i(v) as i64),
        Timestamp(TimeUnit::Microsecond, _) => prim::<TimestampMicrosecondType>(dt, vals, g, |v| i(v) as i64),
        Timestamp(TimeUnit::Nanosecond, _) => prim::<TimestampNanosecondType>(dt, vals, g, |v| i(v) as i64),
        Duration(TimeUnit::Second) => prim::<DurationSecondType>(dt, vals, g, |v| i(v) as i64),
        Duration(TimeUnit::Millisecond) => prim::<DurationMillisecondType>(dt, vals, g, |v| i(v) as i64),
        Duration(TimeUnit::Microsecond) => prim::<DurationMicrosecondType>(dt, vals, g, |v| i(v) as i64),
        Duration(TimeUnit::Nanosecond) => prim::<DurationNanosecondType>(dt, vals, g, |v| i(v) as i64),
        Interval(IntervalUnit::YearMonth) => prim::<IntervalYearMonthType>(dt, vals, g, |v| i(v) as i32),
        Interval(IntervalUnit::DayTime) => prim::<IntervalDayTimeType>(dt, vals, g, |v| {
            let x = i(v) as i64;
            IntervalDayTime::new((x >> 32) as i32, x as u32 as i32)
        }),
        Utf8 => byte_array::<i32>(dt, vals, g, true),
        LargeUtf8 => byte_array::<i64>(dt, vals, g, true),
        Binary => byte_array::<i32>(dt, vals, g, false),
        LargeBinary => byte_array::<i64>(dt, vals, g, false),
        Utf8View => {
            let mut b = StringViewBuilder::new();
            if g {
                b = b.with_fixed_block_size(16);
            }
            for v in vals {
                match v {
                    Val::Null => b.append_null(),
                    Val::Str(s) => b.append_value(s),
                    o => panic!("utf8view {o:?}"),
                }
            }
            Arc::new(b.finish())
        }
        BinaryView => {
            let mut b = BinaryViewBuilder::new();
            if g {
                b = b.with_fixed_block_size(16);
            }
            for v in vals {
                match v {
                    Val::Null => b.append_null(),
                    v => b.append_value(bytes_of(v)),
                }
            }
            Arc::new(b.finish())
        }
        FixedSizeBinary(n) => {
            let n = *n as usize;
            let mut data = vec![];
            for v in vals {
                match v {
                    Val::Null => data.extend(std::iter::repeat_n(if g { 0x7au8 } else { 0 }, n)),
                    v => {
                        let b = bytes_of(v);
                        assert_eq!(b.len(), n);
                        data.extend_from_slice(b);
                    }
                }
            }
            Arc::new(FixedSizeBinaryArray::try_new_with_len(n as i32, Buffer::from_vec(data), nulls_of(vals, g), vals.len()).expect("fsb"))
        }
        List(_) => list_like::<i32>(dt, vals, g, false),
        LargeList(_) => list_like::<i64>(dt, vals, g, false),
        ListView(_) => list_like::<i32>(dt, vals, g, true),
        LargeListView(_) => list_like::<i64>(dt, vals, g, true),
        FixedSizeList(f, n) => {
            let n = *n as usize;
            let jv = junk(f.data_type());
            let mut child = vec![];
            for v in vals {
                match v {
                    Val::Null => {
                        for _ in 0..n {
                            child.push(if g || !f.is_nullable() { jv.clone() } else { Val::Null })
                        }
                    }
                    v => {
                        let it = items(v);
                        assert_eq!(it.len(), n);
                        child.extend_from_slice(it);
                    }
                }
            }
            let values = build(f.data_type(), &child, g);
            Arc::new(FixedSizeListArray::try_new_with_length(f.clone(), n as i32, values, nulls_of(vals, g), vals.len()).expect("fsl"))
        }
        Struct(fs) => {
            let mut cols = vec![];
            for (k, f) in fs.iter().enumerate() {
                let jv = junk(f.data_type());
                let cv: Vec<Val> = vals
                    .iter()
                    .map(|v| match v {
                        Val::Null => {
                            if g || !f.is_nullable() {
                                jv.clone()
                            } else {
                                Val::Null
                            }
                        }
                        Val::Struct(s) => s[k].clone(),
                        o => panic!("struct {o:?}"),
                    })
                    .collect();
                cols.push(build(f.data_type(), &cv, g));
            }
            Arc::new(StructArray::try_new_with_length(fs.clone(), cols, nulls_of(vals, g), vals.len()).expect("struct"))
        }
        Map(f, ordered) => {
            let jl = match junk(dt) {
                Val::List(l) => l,
                _ => unreachable!(),
            };
            let mut child: Vec<Val> = vec![];
            let mut lens = vec![];
            for v in vals {
                let it: &[Val] = match v {
                    Val::Null => {
                        if g {
                            &jl
                        } else {
                            &[]
                        }
                    }
                    v => items(v),
                };
                child.extend_from_slice(it);
                lens.push(it.len());
            }
            let entries = build(f.data_type(), &child, false);
            let entries = entries.as_struct().clone();
            Arc::new(MapArray::try_new(f.clone(), OffsetBuffer::<i32>::from_lengths(lens), entries, nulls_of(vals, g), *ordered).expect("map"))
        }
        Dictionary(k, v) => match k.as_ref() {
            Int8 => dict_build!(Int8Type, v.as_ref(), vals, g),
            Int16 => dict_build!(Int16Type, v.as_ref(), vals, g),
            Int32 => dict_build!(Int32Type, v.as_ref(), vals, g),
            Int64 => dict_build!(Int64Type, v.as_ref(), vals, g),
            UInt8 => dict_build!(UInt8Type, v.as_ref(), vals, g),
            UInt16 => dict_build!(UInt16Type, v.as_ref(), vals, g),
            UInt32 => dict_build!(UInt32Type, v.as_ref(), vals, g),
            UInt64 => dict_build!(UInt64Type, v.as_ref(), vals, g),
            o => panic!("dict key {o}"),
        },
        RunEndEncoded(r, v) => {
            if vals.is_empty() {
                // a zero-length run array: zero runs
                return match r.data_type() {
                    Int16 => ree_build!(Int16Type, v, vals, g),
                    Int32 => ree_build!(Int32Type, v, vals, g),
                    _ => ree_build!(Int64Type, v, vals, g),
                };
            }
            match r.data_type() {
                Int16 => ree_build!(Int16Type, v, vals, g),
                Int32 => ree_build!(Int32Type, v, vals, g),
                Int64 => ree_build!(Int64Type, v, vals, g),
                o => panic!("ree run end {o}"),
            }
        }
        other => panic!("build: unsupported type {other}"),
    }
}

/// Realise a logical column in a physical layout.
pub fn realise(dt: &DataType, vals: &[Val], lay: Lay) -> ArrayRef {
    match lay {
        Lay::Compact => build(dt, vals, false),
        Lay::Garbage => build(dt, vals, true),
        Lay::Sliced => {
            let mut v = Vec::with_capacity(vals.len() + 2);
            v.push(junk(dt));
            v.extend_from_slice(vals);
            v.push(junk(dt));
            build(dt, &v, false).slice(1, vals.len())
        }
    }
}

// ------------------------------------------------------------------------------------------------

fn ex_prim<T: ArrowPrimitiveType>(a: &dyn Array, f: impl Fn(T::Native) -> Val) -> Vec<Val> {
    let a = a.as_primitive::<T>();
    (0..a.len()).map(|i| if a.is_null(i) { Val::Null } else { f(a.value(i)) }).collect()
}

fn ex_list<O: OffsetSizeTrait>(a: &dyn Array) -> Vec<Val> {
    let a = a.as_list::<O>();
    let child = extract(a.values().as_ref());
    let off = a.value_offsets();
    (0..a.len())
        .map(|i| if a.is_null(i) { Val::Null } else { Val::List(child[off[i].as_usize()..off[i + 1].as_usize()].to_vec()) })
        .collect()
}
fn ex_list_view<O: OffsetSizeTrait>(a: &dyn Array) -> Vec<Val> {
    let a = a.as_list_view::<O>();
    let child = extract(a.values().as_ref());
    (0..a.len())
        .map(|i| {
            if a.is_null(i) {
                Val::Null
            } else {
                let o = a.value_offsets()[i].as_usize();
                let s = a.value_sizes()[i].as_usize();
                Val::List(child[o..o + s].to_vec())
            }
        })
        .collect()
}

macro_rules! ex_dict {
    ($kt:ty, $a:expr) => {{
        let d = $a.as_dictionary::<$kt>();
        let vals = extract(d.values().as_ref());
        let keys = d.keys();
        (0..d.len()).map(|i| if keys.is_null(i) { Val::Null } else { vals[keys.value(i) as usize].clone() }).collect()
    }};
}
macro_rules! ex_ree {
    ($rt:ty, $a:expr) => {{
        let r = $a.as_run::<$rt>();
        let vals = extract(r.values().as_ref());
        (0..r.len()).map(|i| vals[r.get_physical_index(i)].clone()).collect()
    }};
}

/// Read a column back through typed accessors.
pub fn extract(a: &dyn Array) -> Vec<Val> {
    use DataType::*;
    let iv = |x: i128| Val::I(x);
    match a.data_type() {
        Null => vec![Val::Null; a.len()],
        Boolean => {
            let b = a.as_boolean();
            (0..b.len()).map(|i| if b.is_null(i) { Val::Null } else { Val::Bool(b.value(i)) }).collect()
        }
        Int8 => ex_prim::<Int8Type>(a, |x| iv(x as i128)),
        Int16 => ex_prim::<Int16Type>(a, |x| iv(x as i128)),
        Int32 => ex_prim::<Int32Type>(a, |x| iv(x as i128)),
        Int64 => ex_prim::<Int64Type>(a, |x| iv(x as i128)),
        UInt8 => ex_prim::<UInt8Type>(a, |x| iv(x as i128)),
        UInt16 => ex_prim::<UInt16Type>(a, |x| iv(x as i128)),
        UInt32 => ex_prim::<UInt32Type>(a, |x| iv(x as i128)),
        UInt64 => ex_prim::<UInt64Type>(a, |x| iv(x as i128)),
        Float16 => ex_prim::<Float16Type>(a, |x| Val::F16(x.to_bits())),
        Float32 => ex_prim::<Float32Type>(a, |x| Val::F32(x.to_bits())),
        Float64 => ex_prim::<Float64Type>(a, |x| Val::F64(x.to_bits())),
        Decimal32(_, _) => ex_prim::<Decimal32Type>(a, |x| iv(x as i128)),
        Decimal64(_, _) => ex_prim::<Decimal64Type>(a, |x| iv(x as i128)),
        Decimal128(_, _) => ex_prim::<Decimal128Type>(a, iv),
        Decimal256(_, _) => ex_prim::<Decimal256Type>(a, |x| {
            let (l, h) = x.to_parts();
            Val::D256(h, l)
        }),
        Date32 => ex_prim::<Date32Type>(a, |x| iv(x as i128)),
        Date64 => ex_prim::<Date64Type>(a, |x| iv(x as i128)),
        Time32(TimeUnit::Second) => ex_prim::<Time32SecondType>(a, |x| iv(x as i128)),
        Time32(TimeUnit::Millisecond) => ex_prim::<Time32MillisecondType>(a, |x| iv(x as i128)),
        Time64(TimeUnit::Microsecond) => ex_prim::<Time64MicrosecondType>(a, |x| iv(x as i128)),
        Time64(TimeUnit::Nanosecond) => ex_prim::<Time64NanosecondType>(a, |x| iv(x as i128)),
        Timestamp(TimeUnit::Second, _) => ex_prim::<TimestampSecondType>(a, |x| iv(x as i128)),
        Timestamp(TimeUnit::Millisecond, _) => ex_prim::<TimestampMillisecondType>(a, |x| iv(x as i128)),
        Timestamp(TimeUnit::Microsecond, _) => ex_prim::<TimestampMicrosecondType>(a, |x| iv(x as i128)),
        Timestamp(TimeUnit::Nanosecond, _) => ex_prim::<TimestampNanosecondType>(a, |x| iv(x as i128)),
        Duration(TimeUnit::Second) => ex_prim::<DurationSecondType>(a, |x| iv(x as i128)),
        Duration(TimeUnit::Millisecond) => ex_prim::<DurationMillisecondType>(a, |x| iv(x as i128)),
        Duration(TimeUnit::Microsecond) => ex_prim::<DurationMicrosecondType>(a, |x| iv(x as i128)),
        Duration(TimeUnit::Nanosecond) => ex_prim::<DurationNanosecondType>(a, |x| iv(x as i128)),
        Interval(IntervalUnit::YearMonth) => ex_prim::<IntervalYearMonthType>(a, |x| iv(x as i128)),
        Interval(IntervalUnit::DayTime) => ex_prim::<IntervalDayTimeType>(a, |x| iv((((x.days as i64) << 32) | (x.milliseconds as u32 as i64)) as i128)),
        Utf8 => {
            let s = a.as_string::<i32>();
            (0..s.len()).map(|i| if s.is_null(i) { Val::Null } else { Val::Str(s.value(i).to_string()) }).collect()
        }
        LargeUtf8 => {
            let s = a.as_string::<i64>();
            (0..s.len()).map(|i| if s.is_null(i) { Val::Null } else { Val::Str(s.value(i).to_string()) }).collect()
        }
        Utf8View => {
            let s = a.as_string_view();
            (0..s.len()).map(|i| if s.is_null(i) { Val::Null } else { Val::Str(s.value(i).to_string()) }).collect()
        }
        Binary => {
            let s = a.as_binary::<i32>();
            (0..s.len()).map(|i| if s.is_null(i) { Val::Null } else { Val::Bytes(s.value(i).to_vec()) }).collect()
        }
        LargeBinary => {
            let s = a.as_binary::<i64>();
            (0..s.len()).map(|i| if s.is_null(i) { Val::Null } else { Val::Bytes(s.value(i).to_vec()) }).collect()
        }
        BinaryView => {
            let s = a.as_binary_view();
            (0..s.len()).map(|i| if s.is_null(i) { Val::Null } else { Val::Bytes(s.value(i).to_vec()) }).collect()
        }
        FixedSizeBinary(_) => {
            let s = a.as_fixed_size_binary();
            (0..s.len()).map(|i| if s.is_null(i) { Val::Null } else { Val::Bytes(s.value(i).to_vec()) }).collect()
        }
        List(_) => ex_list::<i32>(a),
        LargeList(_) => ex_list::<i64>(a),
        ListView(_) => ex_list_view::<i32>(a),
        LargeListView(_) => ex_list_view::<i64>(a),
        FixedSizeList(_, n) => {
            let n = *n as usize;
            let l = a.as_fixed_size_list();
            let child = extract(l.values().as_ref());
            (0..l.len()).map(|i| if l.is_null(i) { Val::Null } else { Val::List(child[i * n..(i + 1) * n].to_vec()) }).collect()
        }
        Struct(_) => {
            let s = a.as_struct();
            let cols: Vec<Vec<Val>> = s.columns().iter().map(|c| extract(c.as_ref())).collect();
            (0..s.len()).map(|i| if s.is_null(i) { Val::Null } else { Val::Struct(cols.iter().map(|c| c[i].clone()).collect()) }).collect()
        }
        Map(_, _) => {
            let m = a.as_map();
            let entries: &StructArray = m.entries();
            let child = extract(entries);
            let off = m.value_offsets();
            (0..m.len()).map(|i| if m.is_null(i) { Val::Null } else { Val::List(child[off[i] as usize..off[i + 1] as usize].to_vec()) }).collect()
        }
        Dictionary(k, _) => match k.as_ref() {
            Int8 => ex_dict!(Int8Type, a),
            Int16 => ex_dict!(Int16Type, a),
            Int32 => ex_dict!(Int32Type, a),
            Int64 => ex_dict!(Int64Type, a),
            UInt8 => ex_dict!(UInt8Type, a),
            UInt16 => ex_dict!(UInt16Type, a),
            UInt32 => ex_dict!(UInt32Type, a),
            UInt64 => ex_dict!(UInt64Type, a),
            o => panic!("dict key {o}"),
        },
        RunEndEncoded(r, _) => match r.data_type() {
            Int16 => ex_ree!(Int16Type, a),
            Int32 => ex_ree!(Int32Type, a),
            Int64 => ex_ree!(Int64Type, a),
            o => panic!("ree {o}"),
        },
        other => panic!("extract: unsupported type {other}"),
    }
}

