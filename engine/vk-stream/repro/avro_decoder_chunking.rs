//! DESIGN F1 (C14): `arrow_avro::reader::Decoder` is not independent of how the input is chunked.
//!
//! Protocol used (as documented on `Decoder::decode`): decode returns the number of bytes consumed; the
//! unconsumed tail is presented again together with the next chunk; `flush` at the end.
//!
//! (a) a chunk that ends exactly before (or inside) a varint of a record body -> `ParseError("bad varint")`
//!     instead of "need more data";
//! (b) a chunk that ends inside a record body after a completed field -> the fields decoded so far stay
//!     appended, the record is decoded again from its start -> `flush` fails with "all columns in a record
//!     batch must have the specified row count";
//! (c) the same inside a map value -> `flush` returns Ok with WRONG ROWS ({k: 1, k: 1} instead of {k: 1, j: -2}).
//!
//! Run: cargo run --release --offline -p vk-stream --example avro_decoder_chunking
use arrow_array::builder::{Int64Builder, MapBuilder, StringBuilder};
use arrow_array::{ArrayRef, Int64Array, RecordBatch, StringArray};
use arrow_avro::reader::ReaderBuilder;
use arrow_avro::schema::{AvroSchema, SCHEMA_METADATA_KEY, SchemaStore};
use arrow_avro::writer::WriterBuilder;
use arrow_avro::writer::format::AvroSoeFormat;
use arrow_schema::{DataType, Field, Schema};
use std::collections::HashMap;
use std::sync::Arc;

fn frames(batch: &RecordBatch) -> (Vec<u8>, SchemaStore) {
    let avro = AvroSchema::try_from(batch.schema().as_ref()).unwrap();
    let mut md = HashMap::new();
    md.insert(SCHEMA_METADATA_KEY.to_string(), avro.json_string.clone());
    let schema = Schema::new_with_metadata(batch.schema().fields().clone(), md);
    let batch = batch.clone().with_schema(Arc::new(schema.clone())).unwrap();
    let mut w = WriterBuilder::new(schema).build::<_, AvroSoeFormat>(Vec::new()).unwrap();
    w.write(&batch).unwrap();
    w.finish().unwrap();
    let mut store = SchemaStore::new();
    store.register(avro).unwrap();
    (w.into_inner(), store)
}

/// feeds `data` cut at `cut` (None = one chunk) following the documented protocol
fn decode(data: &[u8], store: &SchemaStore, cut: Option<usize>) -> String {
    let mut dec = ReaderBuilder::new().with_writer_schema_store(store.clone()).with_batch_size(1024).build_decoder().unwrap();
    let mut ends = vec![];
    if let Some(c) = cut {
        ends.push(c);
    }
    ends.push(data.len());
    let mut pos = 0;
    for end in ends {
        loop {
            let buf = &data[pos..end];
            match dec.decode(buf) {
                Ok(n) => {
                    pos += n;
                    if n == buf.len() || !dec.batch_is_full() {
                        break; // everything consumed, or the decoder wants more data: present tail + next chunk
                    }
                }
                Err(e) => return format!("decode error: {e}"),
            }
        }
    }
    match dec.flush() {
        Ok(Some(b)) => {
            let cols: Vec<String> = b.columns().iter().map(|c| format!("{:?}", arrow_cast_display(c))).collect();
            format!("Ok rows={} {}", b.num_rows(), cols.join(" | "))
        }
        Ok(None) => "Ok no rows".into(),
        Err(e) => format!("flush error: {e}"),
    }
}

fn arrow_cast_display(a: &ArrayRef) -> Vec<String> {
    let f = arrow_cast::display::ArrayFormatter::try_new(a.as_ref(), &Default::default()).unwrap();
    (0..a.len()).map(|i| f.value(i).to_string()).collect()
}

fn main() {
    let mut bad = 0;
    // (a), (b): records (id: long, name: string), rows (1,"a"), (2,"bc"); 10-byte prefix per record
    let s = Arc::new(Schema::new(vec![Field::new("id", DataType::Int64, false), Field::new("name", DataType::Utf8, false)]));
    let b = RecordBatch::try_new(s, vec![Arc::new(Int64Array::from(vec![1, 2])), Arc::new(StringArray::from(vec!["a", "bc"]))]).unwrap();
    let (data, store) = frames(&b);
    let whole = decode(&data, &store, None);
    println!("(long,string) {} bytes, one chunk : {whole}", data.len());
    for cut in 1..data.len() {
        let r = decode(&data, &store, Some(cut));
        if r != whole {
            bad += 1;
            println!("(long,string) cut at {cut:2}       : {r}");
        }
    }
    // (c): record (m: map<string,long>), row {k:1, j:-2}
    let mut mb = MapBuilder::new(None, StringBuilder::new(), Int64Builder::new());
    mb.keys().append_value("k");
    mb.values().append_value(1);
    mb.keys().append_value("j");
    mb.values().append_value(-2);
    mb.append(true).unwrap();
    let map: ArrayRef = Arc::new(mb.finish());
    let s = Arc::new(Schema::new(vec![Field::new("m", map.data_type().clone(), false)]));
    let b = RecordBatch::try_new(s, vec![map]).unwrap();
    let (data, store) = frames(&b);
    let whole = decode(&data, &store, None);
    println!("(map) {} bytes, one chunk         : {whole}", data.len());
    for cut in 1..data.len() {
        let r = decode(&data, &store, Some(cut));
        if r != whole {
            bad += 1;
            println!("(map) cut at {cut:2}               : {r}");
        }
    }
    println!("{bad} single cuts change the result");
    std::process::exit(if bad > 0 { 1 } else { 0 })
}
