//! Incidental finding (not a C14/C18 violation, belongs to "untrusted bytes", C08): the Avro OCF `Reader`
//! spins forever when a block declares fewer records than its data holds (e.g. a corrupted count varint):
//! `Reader::read` keeps calling `decode_block(.., block_count = 0)` which returns (0, 0) while
//! `block_cursor < block_data.len()`.
//!
//! Run: cargo run --release --offline -p vk-stream --example avro_ocf_reader_hang
use arrow_array::{Int64Array, RecordBatch};
use arrow_avro::reader::ReaderBuilder;
use arrow_avro::writer::AvroWriter;
use arrow_schema::{DataType, Field, Schema};
use std::sync::Arc;

fn main() {
    let schema = Schema::new(vec![Field::new("x", DataType::Int64, false)]);
    let batch = RecordBatch::try_new(Arc::new(schema.clone()), vec![Arc::new(Int64Array::from(vec![7, 8, 9]))]).unwrap();
    let mut w = AvroWriter::new(Vec::new(), schema).unwrap();
    let sync = *w.sync_marker().unwrap();
    w.write(&batch).unwrap();
    w.finish().unwrap();
    let mut bytes = w.into_inner();
    // the block starts right after the first occurrence of the sync marker: <count varint><size varint><data><sync>
    let p = bytes.windows(16).position(|w| w == sync).unwrap() + 16;
    assert_eq!(bytes[p], 6, "zig-zag(3 records)");
    bytes[p] = 2; // declare 1 record; the data still holds 3
    println!("reading a block that declares 1 record but holds 3 ...");
    let (tx, rx) = std::sync::mpsc::channel();
    std::thread::spawn(move || {
        let r = ReaderBuilder::new().build(std::io::Cursor::new(bytes)).unwrap();
        let out: Vec<_> = r.collect();
        let _ = tx.send(format!("{out:?}"));
    });
    match rx.recv_timeout(std::time::Duration::from_secs(5)) {
        Ok(s) => println!("reader returned: {s}"),
        Err(_) => {
            println!("HANG: Reader::next() did not return within 5 s");
            std::process::exit(1)
        }
    }
}
