//! DESIGN F7 (C18): `arrow_csv::Writer::into_inner` unwraps `csv::Writer::into_inner()` ("safe since write
//! always flushes"), but that call flushes again, so it panics whenever the sink fails at that moment:
//! (a) a sink that keeps failing: `write` returns Err (reported correctly), the following `into_inner` panics;
//! (b) a sink whose `flush` fails once (even with ErrorKind::Interrupted) after every `write` returned Ok.
//!
//! Run: cargo run --release --offline -p vk-stream --example csv_writer_into_inner_panic
use arrow_array::{Int32Array, RecordBatch};
use arrow_schema::{DataType, Field, Schema};
use std::io::{self, Write};
use std::sync::Arc;

struct Sink {
    calls: usize,
    fail_from: usize,
    fail_only_once: bool,
    kind: io::ErrorKind,
}
impl Sink {
    fn check(&mut self) -> io::Result<()> {
        let c = self.calls;
        self.calls += 1;
        if (self.fail_only_once && c == self.fail_from) || (!self.fail_only_once && c >= self.fail_from) {
            return Err(io::Error::new(self.kind, "injected"));
        }
        Ok(())
    }
}
impl Write for Sink {
    fn write(&mut self, b: &[u8]) -> io::Result<usize> {
        self.check()?;
        Ok(b.len())
    }
    fn flush(&mut self) -> io::Result<()> {
        self.check()
    }
}

fn main() {
    let schema = Arc::new(Schema::new(vec![Field::new("i", DataType::Int32, false)]));
    let batch = RecordBatch::try_new(schema, vec![Arc::new(Int32Array::from(vec![1, 2, 3]))]).unwrap();
    let mut panics = 0;
    // (a) persistently failing sink
    let r = std::panic::catch_unwind(std::panic::AssertUnwindSafe(|| {
        let mut w = arrow_csv::Writer::new(Sink { calls: 0, fail_from: 0, fail_only_once: false, kind: io::ErrorKind::Other });
        let r = w.write(&batch);
        println!("(a) write -> {r:?}");
        let _sink = w.into_inner();
        println!("(a) into_inner returned");
    }));
    if r.is_err() {
        panics += 1;
        println!("(a) into_inner PANICKED after write had reported the error");
    }
    // (b) all writes Ok; the flush performed inside into_inner is interrupted once
    let r = std::panic::catch_unwind(std::panic::AssertUnwindSafe(|| {
        // sink calls of write(): one write, one flush -> the next call (index 2) is the flush made by into_inner
        let mut w = arrow_csv::Writer::new(Sink { calls: 0, fail_from: 2, fail_only_once: true, kind: io::ErrorKind::Interrupted });
        let r = w.write(&batch);
        println!("(b) write -> {r:?}");
        let _sink = w.into_inner();
        println!("(b) into_inner returned");
    }));
    if r.is_err() {
        panics += 1;
        println!("(b) into_inner PANICKED although every write returned Ok");
    }
    std::process::exit(if panics > 0 { 1 } else { 0 })
}
