//! Avro: the push `Decoder` (single-object / Confluent / Apicurio framings) and the OCF `Reader` over a
//! chunk-controlled `BufRead`.
use super::csv::ChunkedRead;
use super::{Family, InputSpec};
use crate::common::*;
use arrow_array::builder::{Int32Builder, Int64Builder, ListBuilder, MapBuilder, StringBuilder};
use arrow_array::{ArrayRef, BinaryArray, BooleanArray, Float64Array, Int64Array, RecordBatch, StringArray, StructArray};
use arrow_avro::compression::CompressionCodec;
use arrow_avro::reader::ReaderBuilder;
use arrow_avro::schema::{AvroSchema, Fingerprint, FingerprintAlgorithm, FingerprintStrategy, SCHEMA_METADATA_KEY, SchemaStore};
use arrow_avro::writer::format::{AvroOcfFormat, AvroSoeFormat};
use arrow_avro::writer::WriterBuilder;
use arrow_schema::{DataType, Field, Schema};
use std::collections::HashMap;
use std::sync::Arc;

// ------------------------------------------------------------------------------------------------
// corpus batches

fn b_long_string() -> RecordBatch {
    let s = Arc::new(Schema::new(vec![Field::new("id", DataType::Int64, false), Field::new("name", DataType::Utf8, false)]));
    RecordBatch::try_new(s, vec![Arc::new(Int64Array::from(vec![1, 2])), Arc::new(StringArray::from(vec!["a", "bc"]))]).unwrap()
}
fn b_long_only() -> RecordBatch {
    let s = Arc::new(Schema::new(vec![Field::new("x", DataType::Int64, false)]));
    RecordBatch::try_new(s, vec![Arc::new(Int64Array::from(vec![7, 300, -70000, 0]))]).unwrap()
}
fn b_string_only() -> RecordBatch {
    let s = Arc::new(Schema::new(vec![Field::new("s", DataType::Utf8, false)]));
    RecordBatch::try_new(s, vec![Arc::new(StringArray::from(vec!["h\u{e9}llo", "", "\u{1F600}"]))]).unwrap()
}
fn b_mixed() -> RecordBatch {
    let mut lb = ListBuilder::new(Int32Builder::new());
    for row in [vec![1, 2], vec![], vec![300]] {
        for it in row {
            lb.values().append_value(it);
        }
        lb.append(true);
    }
    let list: ArrayRef = Arc::new(lb.finish());
    let s = Arc::new(Schema::new(vec![
        Field::new("flag", DataType::Boolean, false),
        Field::new("d", DataType::Float64, false),
        Field::new("s", DataType::Utf8, true),
        Field::new("l", list.data_type().clone(), false),
        Field::new("b", DataType::Binary, false),
    ]));
    RecordBatch::try_new(
        s,
        vec![
            Arc::new(BooleanArray::from(vec![true, false, true])),
            Arc::new(Float64Array::from(vec![1.5, -0.0, 1e300])),
            Arc::new(StringArray::from(vec![Some("x"), None, Some("yz")])),
            list,
            Arc::new(BinaryArray::from(vec![&b"\x00\xff"[..], &b""[..], &b"abc"[..]])),
        ],
    )
    .unwrap()
}
fn b_map_struct() -> RecordBatch {
    let mut mb = MapBuilder::new(None, StringBuilder::new(), Int64Builder::new());
    mb.keys().append_value("k");
    mb.values().append_value(1);
    mb.keys().append_value("j");
    mb.values().append_value(-2);
    mb.append(true).unwrap();
    mb.append(true).unwrap();
    let map: ArrayRef = Arc::new(mb.finish());
    let st: ArrayRef = Arc::new(StructArray::from(vec![
        (Arc::new(Field::new("p", DataType::Int64, false)), Arc::new(Int64Array::from(vec![5, 6])) as ArrayRef),
        (Arc::new(Field::new("q", DataType::Utf8, true)), Arc::new(StringArray::from(vec![None, Some("w")])) as ArrayRef),
    ]));
    let s = Arc::new(Schema::new(vec![Field::new("m", map.data_type().clone(), false), Field::new("st", st.data_type().clone(), false)]));
    RecordBatch::try_new(s, vec![map, st]).unwrap()
}

/// The Arrow schema with the derived Avro schema JSON attached, so that writer and schema store agree.
fn with_avro_schema(b: &RecordBatch) -> (RecordBatch, AvroSchema) {
    let avro = AvroSchema::try_from(b.schema().as_ref()).expect("arrow->avro schema");
    let mut md = HashMap::new();
    md.insert(SCHEMA_METADATA_KEY.to_string(), avro.json_string.clone());
    let schema = Arc::new(Schema::new_with_metadata(b.schema().fields().clone(), md));
    (b.clone().with_schema(schema).expect("with_schema"), avro)
}

#[derive(Clone, Copy, Debug, PartialEq)]
pub enum Framing {
    Rabin,
    Confluent(u32),
    Apicurio(u64),
}

fn encode_frames(b: &RecordBatch, fr: Framing) -> (Vec<u8>, Vec<usize>) {
    let strat = match fr {
        Framing::Rabin => FingerprintStrategy::Rabin,
        Framing::Confluent(id) => FingerprintStrategy::Id(id),
        Framing::Apicurio(id) => FingerprintStrategy::Id64(id),
    };
    let mut enc = WriterBuilder::new(b.schema().as_ref().clone()).with_fingerprint_strategy(strat).build_encoder::<AvroSoeFormat>().expect("encoder");
    enc.encode(b).expect("encode");
    let rows = enc.flush();
    (rows.bytes().to_vec(), rows.offsets().to_vec())
}

// ------------------------------------------------------------------------------------------------
// token map of a record body (our own walk over the Avro binary encoding, driven by the schema JSON)

#[derive(Clone, Debug)]
enum AvT {
    Null,
    Bool,
    Varint,
    F32,
    F64,
    Bytes,
    Fixed(usize),
    Array(Box<AvT>),
    Map(Box<AvT>),
    Union(Vec<AvT>),
    Record(Vec<AvT>),
}

fn avt_of(v: &serde_json::Value) -> AvT {
    match v {
        serde_json::Value::String(s) => match s.as_str() {
            "null" => AvT::Null,
            "boolean" => AvT::Bool,
            "int" | "long" => AvT::Varint,
            "float" => AvT::F32,
            "double" => AvT::F64,
            "string" | "bytes" => AvT::Bytes,
            other => panic!("corpus schema uses unsupported named type {other}"),
        },
        serde_json::Value::Array(a) => AvT::Union(a.iter().map(avt_of).collect()),
        serde_json::Value::Object(o) => match o.get("type") {
            Some(serde_json::Value::String(t)) => match t.as_str() {
                "record" => AvT::Record(o["fields"].as_array().unwrap().iter().map(|f| avt_of(&f["type"])).collect()),
                "array" => AvT::Array(Box::new(avt_of(&o["items"]))),
                "map" => AvT::Map(Box::new(avt_of(&o["values"]))),
                "fixed" => AvT::Fixed(o["size"].as_u64().unwrap() as usize),
                "enum" => AvT::Varint,
                _ => avt_of(&o["type"]),
            },
            Some(t) => avt_of(t),
            None => panic!("schema object without type"),
        },
        _ => panic!("bad schema json"),
    }
}

#[derive(Clone, Copy, Debug, PartialEq)]
pub enum TokKind {
    Varint,
    Payload,
    Fixed,
}
#[derive(Clone, Copy, Debug)]
pub struct Tok {
    pub start: usize,
    pub end: usize,
    pub kind: TokKind,
}

fn read_varint(d: &[u8], p: &mut usize, toks: &mut Vec<Tok>) -> i64 {
    let s = *p;
    let mut v = 0u64;
    let mut sh = 0;
    loop {
        let b = d[*p];
        *p += 1;
        v |= ((b & 0x7f) as u64) << sh;
        sh += 7;
        if b & 0x80 == 0 {
            break;
        }
    }
    toks.push(Tok { start: s, end: *p, kind: TokKind::Varint });
    ((v >> 1) as i64) ^ -((v & 1) as i64)
}

fn walk(t: &AvT, d: &[u8], p: &mut usize, toks: &mut Vec<Tok>) {
    match t {
        AvT::Null => {}
        AvT::Bool => {
            toks.push(Tok { start: *p, end: *p + 1, kind: TokKind::Fixed });
            *p += 1;
        }
        AvT::Varint => {
            read_varint(d, p, toks);
        }
        AvT::F32 => {
            toks.push(Tok { start: *p, end: *p + 4, kind: TokKind::Fixed });
            *p += 4;
        }
        AvT::F64 => {
            toks.push(Tok { start: *p, end: *p + 8, kind: TokKind::Fixed });
            *p += 8;
        }
        AvT::Fixed(n) => {
            toks.push(Tok { start: *p, end: *p + n, kind: TokKind::Fixed });
            *p += n;
        }
        AvT::Bytes => {
            let n = read_varint(d, p, toks) as usize;
            if n > 0 {
                toks.push(Tok { start: *p, end: *p + n, kind: TokKind::Payload });
            }
            *p += n;
        }
        AvT::Array(item) => loop {
            let mut n = read_varint(d, p, toks);
            if n == 0 {
                break;
            }
            if n < 0 {
                n = -n;
                read_varint(d, p, toks); // block byte size
            }
            for _ in 0..n {
                walk(item, d, p, toks);
            }
        },
        AvT::Map(val) => loop {
            let mut n = read_varint(d, p, toks);
            if n == 0 {
                break;
            }
            if n < 0 {
                n = -n;
                read_varint(d, p, toks);
            }
            for _ in 0..n {
                walk(&AvT::Bytes, d, p, toks);
                walk(val, d, p, toks);
            }
        },
        AvT::Union(bs) => {
            let i = read_varint(d, p, toks) as usize;
            walk(&bs[i], d, p, toks);
        }
        AvT::Record(fs) => {
            for f in fs {
                walk(f, d, p, toks);
            }
        }
    }
}

/// One framed record of a stream: [start, body) is the prefix, [body, end) the Avro body with its tokens.
#[derive(Clone, Debug)]
pub struct Frame {
    pub start: usize,
    pub body: usize,
    pub end: usize,
    pub toks: Vec<Tok>,
}

/// Structural class of a cut position (between byte c-1 and byte c) of a framed stream.
pub fn cut_class(frames: &[Frame], c: usize) -> &'static str {
    for f in frames {
        if c == f.start {
            return "record-boundary";
        }
        if c > f.start && c < f.end {
            if c < f.body {
                return "inside-prefix";
            }
            if c == f.body {
                return "body-start";
            }
            let first = f.toks.first().map(|t| t.end).unwrap_or(f.body);
            let after = c >= first;
            for t in &f.toks {
                if c == t.start {
                    return match (t.kind, after) {
                        (TokKind::Varint, _) => "before-varint-after-first-token",
                        (TokKind::Payload, true) => "before-payload-after-first-token",
                        (TokKind::Payload, false) => "before-payload-of-first-value",
                        (TokKind::Fixed, _) => "before-fixed-width-value-after-first-token",
                    };
                }
                if c > t.start && c < t.end {
                    return match (t.kind, after) {
                        (TokKind::Varint, false) => "inside-first-varint",
                        (TokKind::Varint, true) => "inside-varint-after-first-token",
                        (TokKind::Payload, false) => "inside-payload-of-first-value",
                        (TokKind::Payload, true) => "inside-payload-after-first-token",
                        (TokKind::Fixed, false) => "inside-first-fixed-width-value",
                        (TokKind::Fixed, true) => "inside-fixed-width-value-after-first-token",
                    };
                }
            }
            return "body-unclassified";
        }
    }
    "outside-any-record"
}

// ------------------------------------------------------------------------------------------------
// the push decoder

pub struct SoeInput {
    pub name: &'static str,
    pub framing: Framing,
    /// schemas to register: (id used for Confluent/Apicurio, schema)
    pub schemas: Vec<(u64, AvroSchema)>,
    pub bytes: Vec<u8>,
    pub frames: Vec<Frame>,
}

fn build_soe(name: &'static str, framing: Framing, parts: &[(u64, RecordBatch)]) -> SoeInput {
    let mut bytes = vec![];
    let mut frames = vec![];
    let mut schemas: Vec<(u64, AvroSchema)> = vec![];
    for (id, b) in parts {
        let (b, avro) = with_avro_schema(b);
        let fr = match framing {
            Framing::Rabin => Framing::Rabin,
            Framing::Confluent(_) => Framing::Confluent(*id as u32),
            Framing::Apicurio(_) => Framing::Apicurio(*id),
        };
        let (data, offs) = encode_frames(&b, fr);
        let prefix = match framing {
            Framing::Rabin => 10,
            Framing::Confluent(_) => 5,
            Framing::Apicurio(_) => 9,
        };
        let t = avt_of(&serde_json::from_str(&avro.json_string).expect("schema json"));
        for w in offs.windows(2) {
            let (s, e) = (w[0], w[1]);
            let mut toks = vec![];
            let mut p = s + prefix;
            walk(&t, &data, &mut p, &mut toks);
            assert_eq!(p, e, "token walk of corpus record {name} must end at the record end");
            let base = bytes.len();
            frames.push(Frame { start: base + s, body: base + s + prefix, end: base + e, toks: toks.iter().map(|t| Tok { start: t.start + base, end: t.end + base, kind: t.kind }).collect() });
        }
        bytes.extend_from_slice(&data);
        if !schemas.iter().any(|(i, s)| *i == *id && s.json_string == avro.json_string) {
            schemas.push((*id, avro));
        }
    }
    SoeInput { name, framing, schemas, bytes, frames }
}

fn store_of(inp: &SoeInput) -> SchemaStore {
    match inp.framing {
        Framing::Rabin => {
            let mut st = SchemaStore::new();
            for (_, s) in &inp.schemas {
                st.register(s.clone()).expect("register");
            }
            st
        }
        Framing::Confluent(_) => {
            let mut st = SchemaStore::new_with_type(FingerprintAlgorithm::Id);
            for (id, s) in &inp.schemas {
                st.set(Fingerprint::Id(*id as u32), s.clone()).expect("set");
            }
            st
        }
        Framing::Apicurio(_) => {
            let mut st = SchemaStore::new_with_type(FingerprintAlgorithm::Id64);
            for (id, s) in &inp.schemas {
                st.set(Fingerprint::Id64(*id), s.clone()).expect("set");
            }
            st
        }
    }
}

const MAX_STEPS: u64 = 100_000;

fn schema_tag(b: &RecordBatch) -> String {
    b.schema().fields().iter().map(|f| format!("{}:{}", f.name(), f.data_type())).collect::<Vec<_>>().join(",")
}

/// Pushes a batch whose schema may differ from earlier ones (schema switches); rows carry a schema tag.
fn push_tagged(o: &mut Outcome, b: &RecordBatch) {
    o.max_batch = o.max_batch.max(b.num_rows());
    o.batches += 1;
    let before = o.rows.len();
    if let Some(w) = render_batch(b, &mut o.rows) {
        if o.wf.is_none() {
            o.wf = Some(w);
        }
    }
    let tag = schema_tag(b);
    for r in &mut o.rows[before..] {
        *r = format!("[{tag}] {r}");
    }
}

pub fn run_decoder(inp: &SoeInput, data: &[u8], bs: usize, ch: &Chunking) -> Outcome {
    let mut o = Outcome { class: "ok".into(), ..Default::default() };
    let n = data.len();
    let chunks = ch.chunks(n);
    let mut dec = match ReaderBuilder::new().with_writer_schema_store(store_of(inp)).with_batch_size(bs).build_decoder() {
        Ok(d) => d,
        Err(e) => {
            o.fail(&e);
            return o;
        }
    };
    let (mut pos, mut avail, mut ci) = (0usize, 0usize, 0usize);
    let mut need_more = false;
    let mut last_obs = usize::MAX;
    macro_rules! flush {
        () => {{
            o.calls += 1;
            match dec.flush() {
                Ok(Some(b)) => {
                    push_tagged(&mut o, &b);
                    true
                }
                Ok(None) => false,
                Err(e) => {
                    o.fail(&e);
                    return o;
                }
            }
        }};
    }
    loop {
        let mut new_chunk = false;
        if (pos == avail || need_more) && ci < chunks.len() {
            avail = chunks[ci].1;
            ci += 1;
            new_chunk = true;
        }
        let buf = &data[pos..avail];
        if !new_chunk && (buf.is_empty() || need_more) {
            break; // producer has nothing more
        }
        o.calls += 1;
        if o.calls > MAX_STEPS {
            o.class = "hang".into();
            return o;
        }
        let k = match dec.decode(buf) {
            Ok(k) => k,
            Err(e) => {
                o.fail(&e);
                return o;
            }
        };
        if k > buf.len() {
            o.class = "err:consumed-more-than-given".into();
            return o;
        }
        pos += k;
        let obs = dec.capacity();
        o.state(&[pos as u64, obs as u64, dec.batch_is_empty() as u64]);
        if obs != last_obs {
            o.marks.push(avail as u32);
            last_obs = obs;
        }
        need_more = false;
        if k < buf.len() {
            if dec.batch_is_full() {
                // documented: flush, then present the rest again
                let got = flush!();
                if !got && k == 0 {
                    o.class = "err:no-progress".into();
                    o.msg = format!("batch_is_full, decode consumed 0 and flush returned None at byte {pos}");
                    return o;
                }
                continue;
            }
            need_more = true; // a prefix or body straddles the chunk boundary: tail is re-presented with the next chunk
        }
        let chunk_index = ci - 1;
        let want = match ch.flush {
            Flush::End => false,
            Flush::Every => true,
            Flush::After(i) => i as usize == chunk_index,
        };
        if want && (pos == avail || need_more) {
            flush!();
            o.state(&[pos as u64, dec.capacity() as u64, 2]);
        }
    }
    while flush!() {
        if o.calls > MAX_STEPS {
            o.class = "hang".into();
            break;
        }
    }
    if pos < n {
        o.class = "incomplete-input-at-end".into();
        o.msg = format!("{} trailing bytes never consumed", n - pos);
    }
    o
}

pub struct AvroDecoderFamily {
    pub inputs: Vec<SoeInput>,
}

impl AvroDecoderFamily {
    pub fn new() -> Self {
        let two_schemas = vec![(1u64, b_long_only()), (2u64, b_long_string()), (1u64, b_long_only())];
        AvroDecoderFamily {
            inputs: vec![
                build_soe("soe-long-only", Framing::Rabin, &[(0, b_long_only())]),
                build_soe("soe-string-only", Framing::Rabin, &[(0, b_string_only())]),
                build_soe("soe-long-string", Framing::Rabin, &[(0, b_long_string())]),
                build_soe("confluent-long-string", Framing::Confluent(7), &[(7, b_long_string())]),
                build_soe("apicurio-long-string", Framing::Apicurio(9), &[(9, b_long_string())]),
                build_soe("soe-mixed-5-fields", Framing::Rabin, &[(0, b_mixed())]),
                build_soe("soe-map-struct", Framing::Rabin, &[(0, b_map_struct())]),
                build_soe("confluent-schema-switch", Framing::Confluent(1), &two_schemas),
                build_soe("soe-schema-switch", Framing::Rabin, &two_schemas),
            ],
        }
    }
    fn soe(&self, inp: &InputSpec) -> &SoeInput {
        &self.inputs[inp.base]
    }
}

impl Family for AvroDecoderFamily {
    fn name(&self) -> &'static str {
        "avro-decoder"
    }
    fn inputs(&self, quick: bool) -> Vec<InputSpec> {
        let mut v: Vec<InputSpec> = self.inputs.iter().enumerate().map(|(i, s)| InputSpec { base: i, base_name: s.name.to_string(), bytes: s.bytes.clone(), corrupt: None }).collect();
        let mut order: Vec<usize> = (0..self.inputs.len()).collect();
        order.sort_by_key(|&i| (self.inputs[i].bytes.len(), i));
        let xors: &[u8] = if quick { &[0x01, 0x80] } else { &[0x01, 0x80, 0xff, 0x10] };
        for &i in order.iter().take(2) {
            let s = &self.inputs[i];
            for (p, r) in corruptions(&s.bytes, &[], xors) {
                let mut c = s.bytes.clone();
                c[p] = r;
                v.push(InputSpec { base: i, base_name: s.name.to_string(), bytes: c, corrupt: Some((p, r)) });
            }
        }
        v
    }
    fn variants(&self) -> Vec<&'static str> {
        vec!["rolling-tail-plus-next"]
    }
    fn batch_sizes(&self) -> Vec<usize> {
        vec![1, 2, 3, 1024]
    }
    fn uses_batch_size(&self) -> bool {
        true
    }
    fn bounds(&self, quick: bool) -> ChunkBounds {
        ChunkBounds { full_n: if quick { 14 } else { 16 }, pair_n: if quick { 150 } else { 400 }, triple_n: if quick { 0 } else { 80 }, interesting_max: if quick { 10 } else { 13 }, max_groups: if quick { 3 } else { 8 }, uniform_max: usize::MAX, flush_policies: true, empty_chunks: true }
    }
    fn corrupt_bounds(&self, quick: bool) -> ChunkBounds {
        ChunkBounds { full_n: 0, pair_n: if quick { 0 } else { 60 }, triple_n: 0, interesting_max: 8, max_groups: 1, uniform_max: usize::MAX, flush_policies: true, empty_chunks: false }
    }
    fn run(&self, inp: &InputSpec, bs: usize, _variant: usize, ch: &Chunking) -> Outcome {
        run_decoder(self.soe(inp), &inp.bytes, bs, ch)
    }
    fn oneshot(&self, _inp: &InputSpec, _bs: usize) -> Option<Outcome> {
        None // there is no pull reader for framed single-object streams
    }
    fn interesting(&self, inp: &InputSpec, _bytewise: &Outcome) -> Vec<u32> {
        let mut v = vec![];
        for f in &self.soe(inp).frames {
            v.extend([f.start as u32, f.start as u32 + 1, f.body as u32 - 1, f.body as u32]);
            for t in &f.toks {
                v.push(t.start as u32);
                if t.end - t.start > 1 {
                    v.push(t.start as u32 + 1);
                }
            }
        }
        v
    }
    /// Class-level identity of a disagreement = symptom + whether the cut list contains a cut of the kind the
    /// known mechanism (DESIGN F1) needs. A disagreement without such a cut gets an `unexplained` fingerprint.
    fn classify(&self, inp: &InputSpec, _bs: usize, _variant: usize, ch: &Chunking, reference: &Outcome, got: &Outcome, diff: &Diff) -> String {
        let frames = &self.soe(inp).frames;
        let n = inp.bytes.len();
        let cuts: Vec<usize> = ch.cuts.iter().map(|&c| c as usize).filter(|&c| c > 0 && c < n).collect();
        // (A) a presented buffer ends exactly before, or inside, a varint of a record body
        let at_varint = |c: usize| {
            frames.iter().any(|f| c > f.body && c < f.end && f.toks.iter().any(|t| t.kind == TokKind::Varint && ((c == t.start) || (c > t.start && c < t.end))))
        };
        // (B) a presented buffer ends inside a record body after at least one complete token
        let in_body_after_token = |c: usize| frames.iter().any(|f| c > f.body && c < f.end && f.toks.first().is_some_and(|t| c >= t.end));
        let bad_varint = got.class.starts_with("err:") && got.msg.contains("bad varint");
        let silent = got.class == "ok" && reference.class == "ok";
        let symptom = if diff.kind == "wf" || diff.kind == "batch-exceeds-batch-size" || got.class.starts_with("panic") || got.class == "hang" {
            return format!("{}:{}", diff.kind, got.class); // never folded into the known classes
        } else if bad_varint {
            "bad-varint-error-instead-of-waiting-for-more-data"
        } else if silent {
            "partially-decoded-record-retained:ok-with-wrong-rows"
        } else {
            "partially-decoded-record-retained:error-or-other-outcome"
        };
        if inp.corrupt.is_some() {
            return format!("{symptom}:on-corrupted-input");
        }
        let explained = if bad_varint { cuts.iter().any(|&c| at_varint(c)) } else { cuts.iter().any(|&c| in_body_after_token(c)) };
        if explained {
            if bad_varint { format!("{symptom}:chunk-ends-before-or-inside-a-varint-of-a-record-body") } else { format!("{symptom}:chunk-ends-inside-record-body-after-a-complete-token") }
        } else {
            let kinds: std::collections::BTreeSet<&str> = cuts.iter().map(|&c| cut_class(frames, c)).collect();
            format!("{symptom}:unexplained:{}:{}", diff.kind, kinds.into_iter().collect::<Vec<_>>().join("+"))
        }
    }
}

// ------------------------------------------------------------------------------------------------
// OCF reader over a chunk-controlled BufRead

pub struct AvroOcfFamily {
    pub corpus: Vec<(String, Vec<u8>)>,
}

pub const FIXED_SYNC: [u8; 16] = *b"VERIF-SYNC-MARK!";

pub fn write_ocf(batches: &[RecordBatch], codec: Option<CompressionCodec>) -> Vec<u8> {
    let mut w = WriterBuilder::new(batches[0].schema().as_ref().clone()).with_compression(codec).build::<_, AvroOcfFormat>(Vec::new()).expect("ocf writer");
    let sync = *w.sync_marker().expect("ocf has a sync marker");
    for b in batches {
        w.write(b).expect("write");
    }
    w.finish().expect("finish");
    let mut out = w.into_inner();
    // the sync marker is random per writer: pin it so that the corpus is identical in every run
    let mut i = 0;
    while i + 16 <= out.len() {
        if out[i..i + 16] == sync {
            out[i..i + 16].copy_from_slice(&FIXED_SYNC);
            i += 16;
        } else {
            i += 1;
        }
    }
    out
}

impl AvroOcfFamily {
    pub fn new() -> Self {
        let ls = b_long_string();
        let ls2 = ls.slice(1, 1);
        AvroOcfFamily {
            corpus: vec![
                ("ocf-long-string-two-blocks".into(), write_ocf(&[ls.clone(), ls2.clone()], None)),
                ("ocf-long-only".into(), write_ocf(&[b_long_only()], None)),
                ("ocf-mixed".into(), write_ocf(&[b_mixed(), b_mixed().slice(1, 2)], None)),
                ("ocf-map-struct".into(), write_ocf(&[b_map_struct()], None)),
                ("ocf-deflate".into(), write_ocf(&[b_mixed(), ls_as_mixed()], Some(CompressionCodec::Deflate))),
                ("ocf-snappy".into(), write_ocf(&[b_long_string()], Some(CompressionCodec::Snappy))),
                ("ocf-header-only".into(), write_ocf(&[b_long_only().slice(0, 0)], None)),
            ],
        }
    }
}
fn ls_as_mixed() -> RecordBatch {
    b_mixed().slice(0, 1)
}

pub fn run_ocf(data: &[u8], bs: usize, ch: &Chunking) -> Outcome {
    let mut o = Outcome { class: "ok".into(), ..Default::default() };
    let src = ChunkedRead::new(data, ch);
    match ReaderBuilder::new().with_batch_size(bs).build(src) {
        Ok(mut r) => {
            o.schema = Some(r.schema());
            loop {
                o.calls += 1;
                if o.calls > MAX_STEPS {
                    o.class = "hang".into();
                    break;
                }
                match r.next() {
                    None => break,
                    Some(Ok(b)) => {
                        o.push_batch(&b);
                        o.state(&[o.rows.len() as u64]);
                    }
                    Some(Err(e)) => {
                        o.fail(&e);
                        break;
                    }
                }
            }
        }
        Err(e) => o.fail(&e),
    }
    o
}

impl Family for AvroOcfFamily {
    fn name(&self) -> &'static str {
        "avro-ocf-reader"
    }
    fn screen_for_hangs(&self) -> bool {
        true
    }
    fn inputs(&self, quick: bool) -> Vec<InputSpec> {
        let mut v: Vec<InputSpec> = self.corpus.iter().enumerate().map(|(i, (n, b))| InputSpec { base: i, base_name: n.clone(), bytes: b.clone(), corrupt: None }).collect();
        let mut order: Vec<usize> = (0..self.corpus.len()).collect();
        order.sort_by_key(|&i| (self.corpus[i].1.len(), i));
        let xors: &[u8] = if quick { &[0x01, 0x80] } else { &[0x01, 0x80, 0xff, 0x10] };
        for &i in order.iter().take(2) {
            let (n, b) = &self.corpus[i];
            for (p, r) in corruptions(b, &[], xors) {
                let mut c = b.clone();
                c[p] = r;
                v.push(InputSpec { base: i, base_name: n.clone(), bytes: c, corrupt: Some((p, r)) });
            }
        }
        v
    }
    fn variants(&self) -> Vec<&'static str> {
        vec!["bufread"]
    }
    fn batch_sizes(&self) -> Vec<usize> {
        vec![1, 2, 3, 1024]
    }
    fn uses_batch_size(&self) -> bool {
        true
    }
    fn bounds(&self, quick: bool) -> ChunkBounds {
        ChunkBounds { full_n: 0, pair_n: if quick { 330 } else { 700 }, triple_n: 0, interesting_max: if quick { 10 } else { 13 }, max_groups: if quick { 2 } else { 6 }, uniform_max: usize::MAX, flush_policies: false, empty_chunks: false }
    }
    fn corrupt_bounds(&self, quick: bool) -> ChunkBounds {
        ChunkBounds { full_n: 0, pair_n: 0, triple_n: 0, interesting_max: 8, max_groups: if quick { 0 } else { 1 }, uniform_max: if quick { 16 } else { usize::MAX }, flush_policies: false, empty_chunks: false }
    }
    fn run(&self, inp: &InputSpec, bs: usize, _variant: usize, ch: &Chunking) -> Outcome {
        run_ocf(&inp.bytes, bs, ch)
    }
    fn oneshot(&self, inp: &InputSpec, bs: usize) -> Option<Outcome> {
        // the one-shot reader is the same Reader over an in-memory cursor
        let mut o = Outcome { class: "ok".into(), ..Default::default() };
        match ReaderBuilder::new().with_batch_size(bs).build(std::io::Cursor::new(&inp.bytes[..])) {
            Ok(mut r) => {
                o.schema = Some(r.schema());
                for b in &mut r {
                    match b {
                        Ok(b) => o.push_batch(&b),
                        Err(e) => {
                            o.fail(&e);
                            break;
                        }
                    }
                }
            }
            Err(e) => o.fail(&e),
        }
        Some(o)
    }
    fn interesting(&self, inp: &InputSpec, _bytewise: &Outcome) -> Vec<u32> {
        // around every occurrence of the sync marker (header end, block ends) and the start of the file
        let d = &inp.bytes;
        let mut v = vec![1, 2, 3, 4, 5];
        let mut i = 0;
        while i + 16 <= d.len() {
            if d[i..i + 16] == FIXED_SYNC {
                for p in [i.saturating_sub(1), i, i + 1, i + 15, i + 16, i + 17, i + 18] {
                    v.push(p as u32);
                }
                i += 16;
            } else {
                i += 1;
            }
        }
        v
    }
}
