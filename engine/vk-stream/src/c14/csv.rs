//! CSV: `arrow_csv::reader::Decoder` driven by the documented BufRead-style loop, and `BufReader`/`Reader`
//! over a chunk-controlled `BufRead`/`Read`.
use super::{Family, InputSpec};
use crate::common::*;
use arrow_csv::ReaderBuilder;
use arrow_schema::{DataType, Field, Schema, SchemaRef};
use arrow_array::RecordBatchReader;
use std::io::{BufRead, Read};
use std::sync::Arc;

#[derive(Clone)]
pub struct CsvCfg {
    pub name: &'static str,
    pub text: &'static [u8],
    pub cols: &'static [(&'static str, char)], // type code: i=Int64 f=Float64 s=Utf8 b=Boolean d=Date32
    pub header: bool,
    pub quote: Option<u8>,
    pub escape: Option<u8>,
    pub terminator: Option<u8>,
    pub comment: Option<u8>,
    pub delimiter: Option<u8>,
    pub truncated: bool,
    pub bounds: Option<(usize, usize)>,
}

const D: CsvCfg = CsvCfg { name: "", text: b"", cols: &[], header: false, quote: None, escape: None, terminator: None, comment: None, delimiter: None, truncated: false, bounds: None };

pub fn corpus() -> Vec<CsvCfg> {
    vec![
        CsvCfg { name: "header-quoted", text: b"a,b\n1,x\n2,\"y\"\n", cols: &[("a", 'i'), ("b", 's')], header: true, ..D },
        CsvCfg { name: "crlf-dquote-utf8", text: "1,\"a\"\"b\"\r\n2,\u{e9}\r\n".as_bytes(), cols: &[("a", 'i'), ("b", 's')], ..D },
        CsvCfg { name: "escape-char", text: b"1,\"a\\\"b\"\n2,c\\d\n", cols: &[("a", 'i'), ("b", 's')], escape: Some(b'\\'), ..D },
        CsvCfg { name: "empty-fields", text: b",\n3,\n,z\n\n4,w\n", cols: &[("a", 'i'), ("b", 's')], ..D },
        CsvCfg { name: "exponents", text: b"1e3,-2.5E-1\n.5,1\n", cols: &[("a", 'f'), ("b", 'f')], ..D },
        CsvCfg { name: "comments", text: b"#c\n1,a\n#d,\"\n2,b\n", cols: &[("a", 'i'), ("b", 's')], comment: Some(b'#'), ..D },
        CsvCfg { name: "no-final-newline", text: b"1,a\n2,b", cols: &[("a", 'i'), ("b", 's')], ..D },
        CsvCfg { name: "no-final-newline-quoted", text: b"1,\"a\"", cols: &[("a", 'i'), ("b", 's')], ..D },
        CsvCfg { name: "terminator-semicolon", text: b"1,a;2,b\n;3,c;", cols: &[("a", 'i'), ("b", 's')], terminator: Some(b';'), ..D },
        CsvCfg { name: "truncated-rows", text: b"1,a\n2\n3,c\n", cols: &[("a", 'i'), ("b", 's')], truncated: true, ..D },
        CsvCfg { name: "bounds-1-3", text: b"0,a\n1,b\n2,c\n3,d\n", cols: &[("a", 'i'), ("b", 's')], bounds: Some((1, 3)), ..D },
        CsvCfg { name: "header-bounds", text: b"a,b\n0,a\n1,b\n2,c\n", cols: &[("a", 'i'), ("b", 's')], header: true, bounds: Some((1, 2)), ..D },
        CsvCfg {
            name: "three-cols-quoted-newline",
            text: "id,text,flag\r\n1,\"line1\nline2\",true\r\n2,\"\u{1F600},\"\"q\"\"\",false\r\n3,,\r\n4,\"\u{4e2d}\u{6587}\",true\r\n".as_bytes(),
            cols: &[("id", 'i'), ("text", 's'), ("flag", 'b')],
            header: true,
            ..D
        },
        CsvCfg { name: "tab-delimited-single-quote", text: b"1\t'a\tb'\n2\t''''\n", cols: &[("a", 'i'), ("b", 's')], delimiter: Some(b'\t'), quote: Some(b'\''), ..D },
        CsvCfg { name: "cr-only-and-mixed-terminators", text: b"1,a\r2,b\n3,c\r\n\r\n4,d", cols: &[("a", 'i'), ("b", 's')], ..D },
        CsvCfg { name: "dates-bools", text: b"2020-01-02,true\n1999-12-31,FALSE\n", cols: &[("d", 'd'), ("b", 'b')], ..D },
        CsvCfg { name: "parse-error-late", text: b"1,a\n2,b\nx,c\n4,d\n", cols: &[("a", 'i'), ("b", 's')], ..D },
        CsvCfg { name: "too-many-fields", text: b"1,a\n2,b,c\n3,d\n", cols: &[("a", 'i'), ("b", 's')], ..D },
        CsvCfg { name: "unterminated-quote", text: b"1,a\n2,\"b\n3,c\n", cols: &[("a", 'i'), ("b", 's')], ..D },
    ]
}

fn schema_of(c: &CsvCfg) -> SchemaRef {
    Arc::new(Schema::new(
        c.cols
            .iter()
            .map(|(n, t)| {
                Field::new(
                    *n,
                    match t {
                        'i' => DataType::Int64,
                        'f' => DataType::Float64,
                        'b' => DataType::Boolean,
                        'd' => DataType::Date32,
                        _ => DataType::Utf8,
                    },
                    true,
                )
            })
            .collect::<Vec<_>>(),
    ))
}

fn builder(c: &CsvCfg, bs: usize) -> ReaderBuilder {
    let mut b = ReaderBuilder::new(schema_of(c)).with_batch_size(bs).with_header(c.header);
    if let Some(q) = c.quote {
        b = b.with_quote(q);
    }
    if let Some(q) = c.escape {
        b = b.with_escape(q);
    }
    if let Some(q) = c.terminator {
        b = b.with_terminator(q);
    }
    if let Some(q) = c.comment {
        b = b.with_comment(q);
    }
    if let Some(q) = c.delimiter {
        b = b.with_delimiter(q);
    }
    if c.truncated {
        b = b.with_truncated_rows(true);
    }
    if let Some((s, e)) = c.bounds {
        b = b.with_bounds(s, e);
    }
    b
}

const MAX_STEPS: u64 = 100_000;

/// variant 0 "bufread": the remainder of a chunk is presented alone (std BufRead behaviour);
/// variant 1 "rolling": an unconsumed tail is presented together with the next chunk.
pub fn run_decoder(c: &CsvCfg, data: &[u8], bs: usize, variant: usize, ch: &Chunking) -> Outcome {
    let mut o = Outcome::default();
    let n = data.len();
    let mut ends: Vec<usize> = ch.cuts.iter().map(|&x| (x as usize).min(n)).filter(|&x| x > 0 && x < n).collect();
    ends.dedup();
    ends.push(n);
    let mut dec = builder(c, bs).build_decoder();
    let mut pos = 0usize; // consumed
    let mut avail = 0usize; // delivered by the producer
    let mut next_end = 0usize; // index into ends
    let mut last_obs = u64::MAX;
    o.class = "ok".into();
    // documented loop: `next()` = { loop { buf = fill_buf(); n = decode(buf); if n == 0 break; consume(n) } flush() }
    'outer: loop {
        loop {
            // producer: a new chunk arrives when everything delivered was consumed (variant 0) or at
            // every fill (variant 1); with nothing left the slice is empty = end of input
            if (pos == avail || variant == 1) && next_end < ends.len() {
                avail = ends[next_end];
                next_end += 1;
            }
            let buf = &data[pos..avail];
            o.calls += 1;
            if o.calls > MAX_STEPS {
                o.class = "hang".into();
                break 'outer;
            }
            let r = dec.decode(buf);
            match r {
                Ok(0) => break,
                Ok(k) => {
                    if k > buf.len() {
                        o.class = "err:consumed-more-than-given".into();
                        break 'outer;
                    }
                    pos += k;
                    let obs = dec.capacity() as u64;
                    o.state(&[pos as u64, obs]);
                    if obs != last_obs {
                        o.marks.push(pos as u32);
                        last_obs = obs;
                    }
                }
                Err(e) => {
                    o.fail(&e);
                    break 'outer;
                }
            }
        }
        o.calls += 1;
        match dec.flush() {
            Ok(Some(b)) => {
                o.push_batch(&b);
                o.state(&[pos as u64, dec.capacity() as u64, 1]);
            }
            Ok(None) => break,
            Err(e) => {
                o.fail(&e);
                break;
            }
        }
    }
    if o.schema.is_none() {
        o.schema = Some(schema_of(c));
    }
    o
}

/// A `BufRead`/`Read` whose `fill_buf`/`read` never crosses a chunk boundary.
pub struct ChunkedRead<'a> {
    pub data: &'a [u8],
    pub ends: Vec<usize>,
    pub pos: usize,
    pub calls: u64,
}
impl<'a> ChunkedRead<'a> {
    pub fn new(data: &'a [u8], ch: &Chunking) -> Self {
        let n = data.len();
        let mut ends: Vec<usize> = ch.cuts.iter().map(|&x| (x as usize).min(n)).filter(|&x| x > 0 && x < n).collect();
        ends.dedup();
        ends.push(n);
        ChunkedRead { data, ends, pos: 0, calls: 0 }
    }
    fn end(&self) -> usize {
        self.ends.iter().copied().find(|&e| e > self.pos).unwrap_or(self.data.len())
    }
}
impl Read for ChunkedRead<'_> {
    fn read(&mut self, buf: &mut [u8]) -> std::io::Result<usize> {
        self.calls += 1;
        let e = self.end();
        let k = (e - self.pos).min(buf.len());
        buf[..k].copy_from_slice(&self.data[self.pos..self.pos + k]);
        self.pos += k;
        Ok(k)
    }
}
impl BufRead for ChunkedRead<'_> {
    fn fill_buf(&mut self) -> std::io::Result<&[u8]> {
        self.calls += 1;
        let e = self.end();
        Ok(&self.data[self.pos..e])
    }
    fn consume(&mut self, amt: usize) {
        self.pos += amt;
    }
}

/// variant 0: `build_buffered` over the chunked `BufRead`; variant 1: `build` over the chunked `Read`
/// (std BufReader inside, short reads at chunk boundaries).
pub fn run_reader(c: &CsvCfg, data: &[u8], bs: usize, variant: usize, ch: &Chunking) -> Outcome {
    let mut o = Outcome { class: "ok".into(), ..Default::default() };
    let src = ChunkedRead::new(data, ch);
    macro_rules! drain {
        ($rdr:expr) => {{
            match $rdr {
                Ok(mut r) => {
                    o.schema = Some(r.schema());
                    let mut steps = 0;
                    loop {
                        steps += 1;
                        if steps > MAX_STEPS {
                            o.class = "hang".into();
                            break;
                        }
                        o.calls += 1;
                        match r.next() {
                            None => break,
                            Some(Ok(b)) => {
                                o.push_batch(&b);
                                o.state(&[o.rows.len() as u64]);
                            }
                            Some(Err(e)) => {
                                o.fail(&e);
                                break;
                            }
                        }
                    }
                }
                Err(e) => o.fail(&e),
            }
        }};
    }
    if variant == 0 {
        drain!(builder(c, bs).build_buffered(src));
    } else {
        drain!(builder(c, bs).build(src));
    }
    o
}

pub struct CsvFamily {
    pub reader: bool,
    pub cfgs: Vec<CsvCfg>,
}

impl Family for CsvFamily {
    fn name(&self) -> &'static str {
        if self.reader { "csv-reader" } else { "csv-decoder" }
    }
    fn inputs(&self, quick: bool) -> Vec<InputSpec> {
        let mut v: Vec<InputSpec> = self.cfgs.iter().enumerate().map(|(i, c)| InputSpec { base: i, base_name: c.name.to_string(), bytes: c.text.to_vec(), corrupt: None }).collect();
        // every single-byte corruption (menu) of the two shortest entries
        let mut order: Vec<usize> = (0..self.cfgs.len()).collect();
        order.sort_by_key(|&i| (self.cfgs[i].text.len(), i));
        let menu: &[u8] = if quick && self.reader { b"\",\n" } else { b"\",\n\rx9\xC3\xFF\0" };
        for &i in order.iter().take(2) {
            let c = &self.cfgs[i];
            for (p, r) in corruptions(c.text, menu, &[]) {
                let mut b = c.text.to_vec();
                b[p] = r;
                v.push(InputSpec { base: i, base_name: c.name.to_string(), bytes: b, corrupt: Some((p, r)) });
            }
        }
        v
    }
    fn variants(&self) -> Vec<&'static str> {
        if self.reader { vec!["build_buffered", "build"] } else { vec!["bufread-tail-alone", "rolling-tail-plus-next"] }
    }
    fn batch_sizes(&self) -> Vec<usize> {
        vec![1, 2, 3, 1024]
    }
    fn bounds(&self, quick: bool) -> ChunkBounds {
        ChunkBounds {
            full_n: if self.reader { if quick { 12 } else { 18 } } else if quick { 14 } else { 20 },
            pair_n: if quick { 120 } else { 400 },
            triple_n: if quick { 0 } else { 120 },
            interesting_max: if quick { 10 } else { 14 },
            max_groups: if quick { 2 } else { 6 },
            uniform_max: usize::MAX,
            flush_policies: false, // documented: flush only after decode returned 0
            empty_chunks: false,   // an empty slice is the end-of-input signal
        }
    }
    fn corrupt_bounds(&self, quick: bool) -> ChunkBounds {
        ChunkBounds { full_n: if quick { 8 } else { 16 }, ..self.bounds(quick) }
    }
    fn run(&self, inp: &InputSpec, bs: usize, variant: usize, ch: &Chunking) -> Outcome {
        let c = &self.cfgs[inp.base];
        if self.reader { run_reader(c, &inp.bytes, bs, variant, ch) } else { run_decoder(c, &inp.bytes, bs, variant, ch) }
    }
    fn oneshot(&self, inp: &InputSpec, bs: usize) -> Option<Outcome> {
        let c = &self.cfgs[inp.base];
        Some(run_reader(c, &inp.bytes, bs, 1, &Chunking::whole()))
    }
    fn uses_batch_size(&self) -> bool {
        true
    }
}
