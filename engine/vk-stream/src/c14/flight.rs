//! `FlightDataDecoder` / `FlightRecordBatchStream` over an inner stream controlled by the environment: it answers
//! `Pending` before any subset of the messages, and hands out message bodies at chosen alignments.
use super::ipc::{batches_dict, batches_int32, batches_nested_sliced};
use crate::common::{StateSet, render_batch, variant_of};
use arrow_array::RecordBatch;
use arrow_buffer::Buffer;
use arrow_flight::FlightData;
use arrow_flight::decode::{DecodedPayload, FlightDataDecoder, FlightRecordBatchStream};
use arrow_flight::encode::{DictionaryHandling, FlightDataEncoderBuilder};
use arrow_flight::error::FlightError;
use bytes::Bytes;
use futures::{Stream, StreamExt};
use std::pin::Pin;
use std::task::{Context, Poll};
use vcore::serde_json::{Value, json};
use vcore::{Ctx, Stats, catch, par_for};

struct EnvStream {
    msgs: Vec<FlightData>,
    idx: usize,
    /// bit i set: answer Pending once before item i (item msgs.len() is the end of the stream)
    pending_mask: u64,
    pended: bool,
}
impl Stream for EnvStream {
    type Item = Result<FlightData, FlightError>;
    fn poll_next(mut self: Pin<&mut Self>, cx: &mut Context<'_>) -> Poll<Option<Self::Item>> {
        let i = self.idx;
        if i < 64 && (self.pending_mask >> i) & 1 == 1 && !self.pended {
            self.pended = true;
            cx.waker().wake_by_ref();
            return Poll::Pending;
        }
        self.pended = false;
        if i >= self.msgs.len() {
            return Poll::Ready(None);
        }
        self.idx += 1;
        Poll::Ready(Some(Ok(self.msgs[i].clone())))
    }
}

fn realign(b: &Bytes, mode: u8) -> Bytes {
    match mode {
        0 => b.clone(),
        1 => Bytes::from_owner(Buffer::from(b.as_ref())), // 64-byte aligned allocation
        _ => {
            let mut v = Vec::with_capacity(b.len() + 1);
            v.push(0u8);
            v.extend_from_slice(b);
            Bytes::from(v).slice(1..) // odd address
        }
    }
}

#[derive(Clone, Debug, Default)]
pub struct FlightOutcome {
    pub items: Vec<String>,
    pub rows: Vec<String>,
    pub class: String,
    pub msg: String,
    pub polls: u64,
    pub pendings: u64,
    pub wf: Option<String>,
}

/// api 0: FlightDataDecoder (all payloads); api 1: FlightRecordBatchStream (batches only)
pub fn run(msgs: &[FlightData], mask: u64, align: u8, api: u8) -> FlightOutcome {
    let mut o = FlightOutcome { class: "ok".into(), ..Default::default() };
    let msgs: Vec<FlightData> = msgs.iter().map(|m| FlightData { data_body: realign(&m.data_body, align), ..m.clone() }).collect();
    let env = EnvStream { msgs, idx: 0, pending_mask: mask, pended: false };
    let waker = futures::task::noop_waker();
    let mut cx = Context::from_waker(&waker);
    let push_batch = |o: &mut FlightOutcome, b: &RecordBatch| {
        let before = o.rows.len();
        if let Some(w) = render_batch(b, &mut o.rows) {
            o.wf.get_or_insert(w);
        }
        o.items.push(format!("batch:{}", o.rows.len() - before));
    };
    if api == 0 {
        let mut d = FlightDataDecoder::new(env);
        loop {
            o.polls += 1;
            if o.polls > 10_000 {
                o.class = "hang".into();
                break;
            }
            match d.poll_next_unpin(&mut cx) {
                Poll::Pending => o.pendings += 1,
                Poll::Ready(None) => break,
                Poll::Ready(Some(Ok(x))) => match &x.payload {
                    DecodedPayload::None => o.items.push("none".into()),
                    DecodedPayload::Schema(s) => o.items.push(format!("schema:{}", s.fields().iter().map(|f| format!("{}:{}", f.name(), f.data_type())).collect::<Vec<_>>().join(","))),
                    DecodedPayload::RecordBatch(b) => push_batch(&mut o, b),
                },
                Poll::Ready(Some(Err(e))) => {
                    o.class = format!("err:{}", variant_of(&e));
                    o.msg = e.to_string();
                    break;
                }
            }
        }
    } else {
        let mut d = FlightRecordBatchStream::new_from_flight_data(env);
        loop {
            o.polls += 1;
            if o.polls > 10_000 {
                o.class = "hang".into();
                break;
            }
            match d.poll_next_unpin(&mut cx) {
                Poll::Pending => o.pendings += 1,
                Poll::Ready(None) => break,
                Poll::Ready(Some(Ok(b))) => push_batch(&mut o, &b),
                Poll::Ready(Some(Err(e))) => {
                    o.class = format!("err:{}", variant_of(&e));
                    o.msg = e.to_string();
                    break;
                }
            }
        }
    }
    o
}

fn caught(f: impl FnOnce() -> FlightOutcome) -> FlightOutcome {
    match catch(f) {
        Ok(o) => o,
        Err(p) => FlightOutcome { class: format!("panic:{}", p.fingerprint()), msg: format!("{} at {}:{}", p.msg, p.file, p.line), ..Default::default() },
    }
}

pub struct FlightInput {
    pub name: String,
    pub msgs: Vec<FlightData>,
    pub expected_rows: Option<Vec<String>>,
    pub corrupt: Option<(usize, bool, usize, u8)>, // (message, in_body, position, byte)
}

fn encode(batches: &[RecordBatch], max: Option<usize>, dh: DictionaryHandling) -> Vec<FlightData> {
    let mut b = FlightDataEncoderBuilder::new().with_dictionary_handling(dh);
    if let Some(m) = max {
        b = b.with_max_flight_data_size(m);
    }
    let input = futures::stream::iter(batches.to_vec().into_iter().map(Ok));
    let enc = b.build(input);
    futures::executor::block_on(enc.collect::<Vec<_>>()).into_iter().map(|r| r.expect("flight encode")).collect()
}

pub fn inputs(quick: bool) -> Vec<FlightInput> {
    let mut v = vec![];
    let rows_of = |bs: &[RecordBatch]| {
        let mut r = vec![];
        for b in bs {
            render_batch(b, &mut r);
        }
        r
    };
    let sets: Vec<(&str, Vec<RecordBatch>)> = vec![("int32", batches_int32()), ("dict", batches_dict()), ("nested-sliced", batches_nested_sliced())];
    for (n, bs) in &sets {
        for (mn, max) in [("default", None), ("max200", Some(200usize)), ("max1", Some(1usize))] {
            for (dn, dh) in [("hydrate", DictionaryHandling::Hydrate), ("resend", DictionaryHandling::Resend)] {
                if *n != "dict" && dn == "resend" {
                    continue;
                }
                v.push(FlightInput { name: format!("{n}-{mn}-{dn}"), msgs: encode(bs, max, dh), expected_rows: Some(rows_of(bs)), corrupt: None });
            }
        }
    }
    // message-order faults: batch before schema, dictionary before schema
    let base = encode(&batches_dict(), None, DictionaryHandling::Resend);
    let mut swapped = base.clone();
    swapped.swap(0, 1);
    v.push(FlightInput { name: "dict-first-two-messages-swapped".into(), msgs: swapped, expected_rows: None, corrupt: None });
    let mut dup_schema = base.clone();
    dup_schema.insert(3.min(base.len()), base[0].clone());
    v.push(FlightInput { name: "dict-schema-resent-midstream".into(), msgs: dup_schema, expected_rows: None, corrupt: None });
    // single-byte corruptions of the shortest sequence (header and body of every message)
    let short = encode(&batches_int32(), None, DictionaryHandling::Hydrate);
    let xors: &[u8] = if quick { &[0x01, 0x80] } else { &[0x01, 0x80, 0xff, 0x10] };
    for (mi, m) in short.iter().enumerate() {
        for (in_body, data) in [(false, &m.data_header), (true, &m.data_body)] {
            for (p, r) in crate::common::corruptions(data, &[], xors) {
                let mut d = data.to_vec();
                d[p] = r;
                let mut msgs = short.clone();
                if in_body {
                    msgs[mi].data_body = Bytes::from(d);
                } else {
                    msgs[mi].data_header = Bytes::from(d);
                }
                v.push(FlightInput { name: "int32-default-hydrate".into(), msgs, expected_rows: None, corrupt: Some((mi, in_body, p, r)) });
            }
        }
    }
    v
}

fn masks(m: usize, corrupted: bool, quick: bool) -> Vec<u64> {
    let positions = m + 1; // before each message and before the end of the stream
    let full = if quick { 11 } else { 14 };
    if !corrupted && positions <= full {
        return (0..(1u64 << positions)).collect();
    }
    let positions = positions.min(63);
    let all = (1u64 << positions) - 1;
    let mut v = vec![0, all, 0x5555_5555_5555_5555 & all, 0xAAAA_AAAA_AAAA_AAAA & all];
    for i in 0..positions {
        v.push(1 << i);
    }
    if !corrupted {
        for i in 0..positions {
            for j in i + 1..positions {
                v.push((1 << i) | (1 << j));
            }
        }
    }
    v.sort();
    v.dedup();
    v
}

fn diff(a: &FlightOutcome, b: &FlightOutcome) -> Option<String> {
    if let Some(w) = &b.wf {
        return Some(format!("wf:{w}"));
    }
    if a.class != b.class {
        return Some(format!("outcome:{}->{}", a.class, b.class));
    }
    if a.items != b.items {
        return Some("payload-sequence-differs".into());
    }
    if a.rows != b.rows {
        return Some("rows-differ".into());
    }
    None
}

fn case_json(inp: &FlightInput, mask: u64, align: u8, api: u8) -> Value {
    json!({"family": "flight-data-decoder", "input": inp.name, "corrupt": inp.corrupt.map(|(m, b, p, r)| json!([m, b, p, r])), "messages": inp.msgs.len(), "pending_mask": mask, "align": align, "api": api})
}

pub fn replay(case: &Value) -> ! {
    let ins = inputs(false);
    let corrupt = case["corrupt"].as_array().map(|a| (a[0].as_u64().unwrap() as usize, a[1].as_bool().unwrap(), a[2].as_u64().unwrap() as usize, a[3].as_u64().unwrap() as u8));
    let name = case["input"].as_str().unwrap_or("");
    let Some(inp) = ins.iter().find(|i| i.name == name && i.corrupt == corrupt) else {
        eprintln!("MACHINERY: input not found");
        std::process::exit(2)
    };
    let (mask, align, api) = (case["pending_mask"].as_u64().unwrap_or(0), case["align"].as_u64().unwrap_or(0) as u8, case["api"].as_u64().unwrap_or(0) as u8);
    let reference = caught(|| run(&inp.msgs, 0, 0, api));
    let got = caught(|| run(&inp.msgs, mask, align, api));
    println!("replay case: {case}");
    println!("expectation (no Pending, bodies as encoded): class={} items={:?} rows={:?}", reference.class, reference.items, reference.rows);
    println!("observation: class={} items={:?} rows={:?} msg={:?}", got.class, got.items, got.rows, got.msg);
    let d = diff(&reference, &got);
    println!("replay outcome: {}", d.clone().unwrap_or_else(|| "agrees".into()));
    std::process::exit(if d.is_some() { 1 } else { 0 })
}

pub fn explore(ctx: &Ctx, st: &mut Stats, states: &StateSet, order_base: u64) {
    let quick = ctx.quick();
    let ins = inputs(quick);
    let sub = "flight-data-decoder";
    struct Job {
        input: usize,
        api: u8,
        masks: Vec<u64>,
        reference: FlightOutcome,
        first: u64,
    }
    let mut jobs = vec![];
    let mut first = 0u64;
    for (ii, inp) in ins.iter().enumerate() {
        for api in 0..2u8 {
            let reference = caught(|| run(&inp.msgs, 0, 0, api));
            // the one-shot reference: the rows that were encoded
            if let Some(exp) = &inp.expected_rows {
                st.add("vs-one-shot-reader", 1, 1);
                if reference.class != "ok" || &reference.rows != exp {
                    st.violate(order_base + first, format!("c14:{sub}:decoded-rows-differ-from-encoded-batches"), format!("input {} api {api}: class={} msg={:?} rows={:?} expected={:?}", inp.name, reference.class, reference.msg, reference.rows, exp), || {
                        case_json(inp, 0, 0, api)
                    });
                }
            }
            let ms = masks(inp.msgs.len(), inp.corrupt.is_some(), quick);
            let n = ms.len() as u64 * 3;
            jobs.push(Job { input: ii, api, masks: ms, reference, first });
            first += n;
        }
    }
    let firsts: Vec<u64> = jobs.iter().map(|j| j.first).collect();
    let res = par_for(ctx, sub, first, 64, |idx, st| {
        let j = &jobs[firsts.partition_point(|&f| f <= idx) - 1];
        let inp = &ins[j.input];
        let k = idx - j.first;
        let mask = j.masks[(k / 3) as usize];
        let align = (k % 3) as u8;
        let got = caught(|| run(&inp.msgs, mask, align, j.api));
        st.add(sub, 1, (mask != 0 || align != 0) as u64);
        st.outcome(&format!("{sub}:{}", got.class));
        st.transitions += got.polls;
        st.traces += 1;
        let hs: Vec<u64> = (0..got.items.len() as u64 + 1).collect();
        states.insert_all(vcore::fnv64(format!("{sub}/{}/{}", j.input, j.api).as_bytes()), &hs);
        let mut d = diff(&j.reference, &got);
        if d.is_none() && got.class == "ok" && got.pendings != mask.count_ones() as u64 {
            d = Some(format!("pending-count:{}!={}", got.pendings, mask.count_ones()));
        }
        if let Some(k) = d {
            st.violate(order_base + idx, format!("c14:{sub}:{}", k.split(':').take(2).collect::<Vec<_>>().join(":")), format!("input {} corrupt={:?} api={} pending_mask={mask:#b} align={align}: {k}; got class={} msg={:?}", inp.name, inp.corrupt, j.api, got.class, got.msg), || {
                case_json(inp, mask, align, j.api)
            });
        }
        if k == 5 && inp.corrupt.is_none() && j.api == 0 {
            st.sample(sub, || case_json(inp, mask, align, j.api));
        }
    });
    st.merge(res);
    st.extra.insert(
        "flight_data_decoder".into(),
        json!({"message_sequences": ins.iter().filter(|i| i.corrupt.is_none()).map(|i| json!({"name": i.name, "messages": i.msgs.len()})).collect::<Vec<_>>(),
               "corrupted_sequences": ins.iter().filter(|i| i.corrupt.is_some()).count(),
               "environment": "Pending before every subset of {messages, end of stream} (all subsets when <= 11 (quick) / 14 (thorough) positions, else none/all/alternating/singles/pairs) x body alignment {as encoded, 64-byte aligned, odd address} x {FlightDataDecoder, FlightRecordBatchStream}",
               "runs": first}),
    );
}
