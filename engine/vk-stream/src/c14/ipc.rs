//! IPC: `StreamDecoder::decode(&mut Buffer)` / `finish`, one-shot reference `StreamReader`.
use super::{Family, InputSpec};
use crate::common::*;
use arrow_array::builder::{ListBuilder, StringDictionaryBuilder};
use arrow_array::types::Int32Type;
use arrow_array::{Array, ArrayRef, BooleanArray, Int32Array, Int64Array, NullArray, RecordBatch, StringArray, StructArray};
use arrow_buffer::Buffer;
use arrow_ipc::reader::{StreamDecoder, StreamReader};
use arrow_ipc::writer::{DictionaryHandling, IpcWriteOptions, StreamWriter};
use arrow_ipc::{CompressionType, MetadataVersion};
use arrow_schema::{DataType, Field, Schema};
use std::sync::Arc;

pub struct IpcFamily {
    pub corpus: Vec<(String, Vec<u8>)>,
}

fn write_stream(batches: &[RecordBatch], opts: IpcWriteOptions) -> Vec<u8> {
    let mut w = StreamWriter::try_new_with_options(Vec::new(), &batches[0].schema(), opts).expect("stream writer");
    for b in batches {
        if b.num_columns() > 0 {
            w.write(b).expect("write");
        }
    }
    w.finish().expect("finish");
    w.into_inner().expect("into_inner")
}

pub fn batches_int32() -> Vec<RecordBatch> {
    let s = Arc::new(Schema::new(vec![Field::new("x", DataType::Int32, true)]));
    vec![
        RecordBatch::try_new(s.clone(), vec![Arc::new(Int32Array::from(vec![Some(1), None, Some(-3)]))]).unwrap(),
        RecordBatch::try_new(s, vec![Arc::new(Int32Array::from(vec![Some(7), Some(8)]))]).unwrap(),
    ]
}

pub fn batches_dict() -> Vec<RecordBatch> {
    let s = Arc::new(Schema::new(vec![
        Field::new("s", DataType::Utf8, true),
        Field::new("d", DataType::Dictionary(Box::new(DataType::Int32), Box::new(DataType::Utf8)), true),
    ]));
    let mk = |ss: Vec<Option<&str>>, dd: Vec<Option<&str>>| {
        let mut b = StringDictionaryBuilder::<Int32Type>::new();
        for v in dd {
            match v {
                Some(x) => b.append_value(x),
                None => b.append_null(),
            }
        }
        RecordBatch::try_new(s.clone(), vec![Arc::new(StringArray::from(ss)), Arc::new(b.finish())]).unwrap()
    };
    vec![
        mk(vec![Some("a"), None, Some("\u{e9}\u{1F600}")], vec![Some("k1"), Some("k2"), Some("k1")]),
        mk(vec![Some("")], vec![None]),
        mk(vec![Some("zz"), Some("y")], vec![Some("k3"), Some("k1")]),
    ]
}

pub fn batches_zero_and_null() -> Vec<RecordBatch> {
    let s = Arc::new(Schema::new(vec![Field::new("n", DataType::Null, true), Field::new("x", DataType::Int32, true)]));
    vec![
        RecordBatch::try_new(s.clone(), vec![Arc::new(NullArray::new(0)), Arc::new(Int32Array::from(Vec::<i32>::new()))]).unwrap(),
        RecordBatch::try_new(s.clone(), vec![Arc::new(NullArray::new(2)), Arc::new(Int32Array::from(vec![5, 6]))]).unwrap(),
        RecordBatch::try_new(s, vec![Arc::new(NullArray::new(0)), Arc::new(Int32Array::from(Vec::<i32>::new()))]).unwrap(),
    ]
}

pub fn batches_nested_sliced() -> Vec<RecordBatch> {
    let mut lb = ListBuilder::new(arrow_array::builder::Int32Builder::new());
    for row in [Some(vec![Some(1), None]), None, Some(vec![]), Some(vec![Some(4), Some(5), Some(6)]), Some(vec![Some(9)])] {
        match row {
            Some(items) => {
                for it in items {
                    lb.values().append_option(it);
                }
                lb.append(true);
            }
            None => lb.append(false),
        }
    }
    let list: ArrayRef = Arc::new(lb.finish());
    let st: ArrayRef = Arc::new(StructArray::from(vec![
        (Arc::new(Field::new("t", DataType::Utf8, true)), Arc::new(StringArray::from(vec![Some("a"), Some("bb"), None, Some("dddd"), Some("e")])) as ArrayRef),
        (Arc::new(Field::new("b", DataType::Boolean, true)), Arc::new(BooleanArray::from(vec![Some(true), None, Some(false), Some(true), Some(false)])) as ArrayRef),
    ]));
    let big: ArrayRef = Arc::new(Int64Array::from(vec![1i64 << 40, -1, 0, 3, i64::MIN]));
    let s = Arc::new(Schema::new(vec![
        Field::new("l", list.data_type().clone(), true),
        Field::new("st", st.data_type().clone(), true),
        Field::new("i", DataType::Int64, false),
    ]));
    let full = RecordBatch::try_new(s, vec![list, st, big]).unwrap();
    vec![full.slice(1, 3), full.slice(0, 2), full.slice(4, 1)]
}

impl IpcFamily {
    pub fn new() -> IpcFamily {
        let d = IpcWriteOptions::default;
        let mut corpus: Vec<(String, Vec<u8>)> = vec![];
        let int32 = write_stream(&batches_int32(), d());
        corpus.push(("int32-two-batches".into(), int32.clone()));
        // compact streams (8-byte alignment) - the two shortest entries, whose single-byte corruptions are enumerated
        let a8 = || IpcWriteOptions::try_new(8, false, MetadataVersion::V5).unwrap();
        corpus.push(("int32-one-batch-align8".into(), write_stream(&batches_int32()[..1], a8())));
        corpus.push(("dict-resend".into(), write_stream(&batches_dict(), d())));
        corpus.push(("dict-delta".into(), write_stream(&batches_dict(), d().with_dictionary_handling(DictionaryHandling::Delta))));
        corpus.push(("zero-rows-and-null-type".into(), write_stream(&batches_zero_and_null(), d())));
        corpus.push(("nested-sliced".into(), write_stream(&batches_nested_sliced(), d())));
        corpus.push(("no-eos-marker".into(), int32[..int32.len() - 8].to_vec()));
        corpus.push(("legacy-v4-no-continuation".into(), write_stream(&batches_int32(), IpcWriteOptions::try_new(8, true, MetadataVersion::V4).unwrap())));
        corpus.push(("lz4-frame".into(), write_stream(&batches_nested_sliced(), d().try_with_compression(Some(CompressionType::LZ4_FRAME)).unwrap())));
        corpus.push(("alignment-64".into(), write_stream(&batches_dict(), IpcWriteOptions::try_new(64, false, MetadataVersion::V5).unwrap())));
        let s = Arc::new(Schema::new(vec![Field::new("x", DataType::Int32, true)]));
        let schema_only = {
            let mut w = StreamWriter::try_new(Vec::new(), &s).unwrap();
            w.finish().unwrap();
            w.into_inner().unwrap()
        };
        corpus.push(("schema-only".into(), schema_only));
        let mut garbage = int32.clone();
        garbage.extend_from_slice(&[1, 2, 3]);
        corpus.push(("trailing-bytes-after-eos".into(), garbage));
        let mut cut = int32.clone();
        cut.truncate(int32.len() - 8 - 5);
        corpus.push(("truncated-inside-last-body".into(), cut));
        IpcFamily { corpus }
    }
}

const MAX_STEPS: u64 = 1_000_000;

/// variant 0: every chunk is copied into its own (64-byte aligned) allocation; variant 1: chunks are zero-copy
/// slices of one allocation (arbitrary alignment); variant 2: as 1 with `with_require_alignment(true)`.
pub fn run_decoder(data: &[u8], variant: usize, ch: &Chunking) -> Outcome {
    let mut o = Outcome { class: "ok".into(), ..Default::default() };
    let whole = Buffer::from(data);
    let mut dec = StreamDecoder::new().with_require_alignment(variant == 2);
    let mut last_obs = (false, 0usize);
    let mut consumed = 0usize;
    for (s, e) in ch.chunks(data.len()) {
        let mut buf = if variant == 0 { Buffer::from(&data[s..e]) } else { whole.slice_with_length(s, e - s) };
        loop {
            o.calls += 1;
            if o.calls > MAX_STEPS {
                o.class = "hang".into();
                return o;
            }
            let before = buf.len();
            match dec.decode(&mut buf) {
                Ok(Some(b)) => o.push_batch(&b),
                Ok(None) => {
                    if !buf.is_empty() && buf.len() == before {
                        o.class = "err:no-progress".into();
                        return o;
                    }
                }
                Err(e) => {
                    o.fail(&e);
                    if o.schema.is_none() {
                        o.schema = dec.schema();
                    }
                    return o;
                }
            }
            consumed += before - buf.len();
            let obs = (dec.schema().is_some(), o.batches);
            o.state(&[consumed as u64, obs.0 as u64, obs.1 as u64]);
            if obs != last_obs {
                o.marks.push(consumed as u32);
                last_obs = obs;
            }
            if buf.is_empty() {
                break;
            }
        }
    }
    o.calls += 1;
    if let Err(e) = dec.finish() {
        o.fail(&e);
        o.class = format!("finish-{}", o.class);
    }
    if o.schema.is_none() {
        o.schema = dec.schema();
    }
    o
}

pub fn run_stream_reader(data: &[u8], buffered: bool) -> Outcome {
    let mut o = Outcome { class: "ok".into(), ..Default::default() };
    macro_rules! drain {
        ($r:expr) => {
            match $r {
                Ok(mut r) => {
                    o.schema = Some(r.schema());
                    loop {
                        o.calls += 1;
                        match r.next() {
                            None => break,
                            Some(Ok(b)) => o.push_batch(&b),
                            Some(Err(e)) => {
                                o.fail(&e);
                                break;
                            }
                        }
                    }
                }
                Err(e) => o.fail(&e),
            }
        };
    }
    if buffered {
        drain!(StreamReader::try_new_buffered(std::io::Cursor::new(data), None));
    } else {
        drain!(StreamReader::try_new(std::io::Cursor::new(data), None));
    }
    o
}

/// message framing walk: positions inside/around the 8-byte prefix, the flatbuffer end and the body end
pub fn framing_positions(data: &[u8]) -> Vec<u32> {
    let mut v = vec![];
    let mut s = 0usize;
    while s + 4 <= data.len() {
        let (size, hdr) = if data[s..s + 4] == [0xff; 4] {
            if s + 8 > data.len() {
                break;
            }
            (u32::from_le_bytes(data[s + 4..s + 8].try_into().unwrap()) as usize, 8)
        } else {
            (u32::from_le_bytes(data[s..s + 4].try_into().unwrap()) as usize, 4)
        };
        for d in [1usize, 3, 4, 5, 7, 8, 9] {
            if d <= hdr + 1 {
                v.push((s + d) as u32);
            }
        }
        if size == 0 || s + hdr + size > data.len() {
            break;
        }
        let meta_end = s + hdr + size;
        let Ok(msg) = arrow_ipc::root_as_message(&data[s + hdr..meta_end]) else { break };
        let body = msg.bodyLength();
        if body < 0 || meta_end + body as usize > data.len() {
            break;
        }
        let body_end = meta_end + body as usize;
        for p in [meta_end - 1, meta_end, meta_end + 1, body_end.saturating_sub(1), body_end] {
            v.push(p as u32);
        }
        s = body_end;
    }
    v
}

impl Family for IpcFamily {
    fn name(&self) -> &'static str {
        "ipc-stream-decoder"
    }
    fn inputs(&self, quick: bool) -> Vec<InputSpec> {
        let mut v: Vec<InputSpec> = self.corpus.iter().enumerate().map(|(i, (n, b))| InputSpec { base: i, base_name: n.clone(), bytes: b.clone(), corrupt: None }).collect();
        let mut order: Vec<usize> = (0..self.corpus.len()).collect();
        order.sort_by_key(|&i| (self.corpus[i].1.len(), i));
        let xors: &[u8] = if quick { &[0x01, 0x80] } else { &[0x01, 0x80, 0xff, 0x10] };
        for &i in order.iter().take(2) {
            let (n, b) = &self.corpus[i];
            for (p, r) in corruptions(b, &[], xors) {
                let mut c = b.clone();
                c[p] = r;
                v.push(InputSpec { base: i, base_name: n.clone(), bytes: c, corrupt: Some((p, r)) });
            }
        }
        v
    }
    fn variants(&self) -> Vec<&'static str> {
        vec!["aligned-copy-per-chunk", "zero-copy-slices", "zero-copy-slices-require-alignment"]
    }
    fn batch_sizes(&self) -> Vec<usize> {
        vec![0]
    }
    fn uses_batch_size(&self) -> bool {
        false
    }
    fn bounds(&self, quick: bool) -> ChunkBounds {
        ChunkBounds { full_n: 0, pair_n: if quick { 420 } else { 1200 }, triple_n: if quick { 0 } else { 200 }, interesting_max: if quick { 11 } else { 13 }, max_groups: if quick { 4 } else { 12 }, uniform_max: usize::MAX, flush_policies: false, empty_chunks: true }
    }
    fn corrupt_bounds(&self, quick: bool) -> ChunkBounds {
        ChunkBounds { full_n: 0, pair_n: 0, triple_n: 0, interesting_max: if quick { 6 } else { 11 }, max_groups: if quick { 1 } else { 3 }, uniform_max: if quick { 8 } else { 64 }, flush_policies: false, empty_chunks: false }
    }
    fn variants_for_corrupted(&self, quick: bool) -> usize {
        if quick { 1 } else { 3 }
    }
    fn run(&self, inp: &InputSpec, _bs: usize, variant: usize, ch: &Chunking) -> Outcome {
        run_decoder(&inp.bytes, variant, ch)
    }
    fn oneshot(&self, inp: &InputSpec, _bs: usize) -> Option<Outcome> {
        // a corrupted length prefix makes the pull reader allocate that many bytes up front (a C08 matter);
        // trailing bytes after the EOS marker are ignored by the pull reader by design
        if inp.corrupt.is_some() || inp.base_name == "trailing-bytes-after-eos" || inp.base_name == "truncated-inside-last-body" {
            return None;
        }
        Some(run_stream_reader(&inp.bytes, false))
    }
    fn interesting(&self, inp: &InputSpec, bytewise: &Outcome) -> Vec<u32> {
        let mut v = framing_positions(&inp.bytes);
        v.extend(bytewise.marks.iter().copied());
        v
    }
    fn acceptable(&self, _inp: &InputSpec, variant: usize, _reference: &Outcome, got: &Outcome) -> bool {
        // alignment of caller memory is not a function of the byte sequence: with require_alignment the claim is
        // "same rows or an alignment error"
        let al = |o: &Outcome| o.class.starts_with("err:") && o.msg.to_lowercase().contains("align");
        variant == 2 && (al(got) || al(_reference))
    }
}
