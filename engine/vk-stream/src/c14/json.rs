//! JSON: `arrow_json::reader::Decoder` (decode / flush) and `Reader` over a chunk-controlled `BufRead`.
use super::csv::ChunkedRead;
use super::{Family, InputSpec};
use crate::common::*;
use arrow_json::ReaderBuilder;
use arrow_schema::{DataType, Field, Fields, Schema, SchemaRef};
use std::sync::Arc;

#[derive(Clone)]
pub struct JsonCfg {
    pub name: &'static str,
    pub text: &'static [u8],
    pub schema: fn() -> SchemaRef,
    /// decode top-level values with `new_with_field` (non-object rows)
    pub field: bool,
    pub strict: bool,
    pub coerce: bool,
}

fn s_a_int() -> SchemaRef {
    Arc::new(Schema::new(vec![Field::new("a", DataType::Int64, true)]))
}
fn s_s_str() -> SchemaRef {
    Arc::new(Schema::new(vec![Field::new("s", DataType::Utf8, true)]))
}
fn s_f_float() -> SchemaRef {
    Arc::new(Schema::new(vec![Field::new("f", DataType::Float64, true)]))
}
fn s_nested() -> SchemaRef {
    Arc::new(Schema::new(vec![
        Field::new("l", DataType::List(Arc::new(Field::new_list_field(DataType::Int64, true))), true),
        Field::new("o", DataType::Struct(Fields::from(vec![Field::new("x", DataType::Utf8, true), Field::new("y", DataType::Boolean, true)])), true),
    ]))
}
fn s_mixed() -> SchemaRef {
    Arc::new(Schema::new(vec![
        Field::new("a", DataType::Int64, true),
        Field::new("b", DataType::Boolean, true),
        Field::new("s", DataType::Utf8, true),
        Field::new("f", DataType::Float64, true),
    ]))
}
fn s_top_int() -> SchemaRef {
    Arc::new(Schema::new(vec![Field::new("v", DataType::Int64, true)]))
}
fn s_top_str() -> SchemaRef {
    Arc::new(Schema::new(vec![Field::new("v", DataType::Utf8, true)]))
}
fn s_map() -> SchemaRef {
    let entries = Field::new("entries", DataType::Struct(Fields::from(vec![Field::new("keys", DataType::Utf8, false), Field::new("values", DataType::Int64, true)])), false);
    Arc::new(Schema::new(vec![Field::new("m", DataType::Map(Arc::new(entries), false), true)]))
}

const D: JsonCfg = JsonCfg { name: "", text: b"", schema: s_a_int, field: false, strict: false, coerce: false };

pub fn corpus() -> Vec<JsonCfg> {
    vec![
        JsonCfg { name: "two-ints", text: b"{\"a\":1}\n{\"a\":2}\n", ..D },
        JsonCfg { name: "escapes-bmp", text: "{\"s\":\"\u{e9}\\u00e9\\n\"}".as_bytes(), schema: s_s_str, ..D },
        JsonCfg { name: "surrogate-pair", text: b"{\"s\":\"\\ud83d\\ude00\"}", schema: s_s_str, ..D },
        JsonCfg { name: "raw-4-byte-utf8", text: "{\"s\":\"\u{1F600}\u{4e2d}\"}".as_bytes(), schema: s_s_str, ..D },
        JsonCfg { name: "escaped-quote-backslash", text: b"{\"s\":\"a\\\"b\\\\\"}{\"s\":\"\\/\\b\\f\\r\\t\"}", schema: s_s_str, ..D },
        JsonCfg { name: "exponents-no-separator", text: b"{\"f\":1e3}{\"f\":-2.5E-1}{\"f\":0.5e+2}", schema: s_f_float, ..D },
        JsonCfg { name: "nested", text: b"{\"l\":[1,2],\"o\":{\"x\":null,\"y\":true}}\n{\"l\":[],\"o\":{\"x\":\"q\"}}\n{\"o\":null,\"l\":[null,-3]}", schema: s_nested, ..D },
        JsonCfg { name: "mixed-whitespace", text: b"  {\"a\" : 1 , \"b\":true,\"s\":\"x\",\"f\":1.5}\r\n\t{\"b\":false,\"a\":-22}\n{}\n{\"f\":null,\"s\":\"\"} ", schema: s_mixed, ..D },
        JsonCfg { name: "unknown-fields-skipped", text: b"{\"z\":{\"q\":[1,{\"w\":\"}\"}]},\"a\":7}{\"a\":8,\"zz\":\"\\\"{\"}", ..D },
        JsonCfg { name: "top-level-ints", text: b"12 345\n-6 7", schema: s_top_int, field: true, ..D },
        JsonCfg { name: "top-level-strings", text: b"\"ab\"\"c\\u0041\"null", schema: s_top_str, field: true, ..D },
        JsonCfg { name: "map", text: b"{\"m\":{\"k\":1,\"j\":null}}{\"m\":{}}", schema: s_map, ..D },
        JsonCfg { name: "coerce-primitive", text: b"{\"s\":12}{\"s\":true}{\"s\":1.5e2}", schema: s_s_str, coerce: true, ..D },
        JsonCfg { name: "strict-unknown-field-error", text: b"{\"a\":1}{\"a\":2,\"b\":3}{\"a\":4}", strict: true, ..D },
        JsonCfg { name: "type-error-late", text: b"{\"a\":1}\n{\"a\":2}\n{\"a\":\"x\"}\n{\"a\":4}", ..D },
        JsonCfg { name: "truncated-object", text: b"{\"a\":1}\n{\"a\":", ..D },
        JsonCfg { name: "lone-low-surrogate", text: b"{\"s\":\"\\ude00\"}", schema: s_s_str, ..D },
        JsonCfg { name: "big-and-small-numbers", text: b"{\"a\":9223372036854775807}{\"a\":-9223372036854775808}{\"a\":1.0}{\"a\":1e2}", ..D },
    ]
}

fn builder(c: &JsonCfg, bs: usize) -> ReaderBuilder {
    let sch = (c.schema)();
    let b = if c.field { ReaderBuilder::new_with_field(sch.field(0).clone()) } else { ReaderBuilder::new(sch) };
    b.with_batch_size(bs).with_strict_mode(c.strict).with_coerce_primitive(c.coerce)
}

const MAX_STEPS: u64 = 100_000;

pub fn run_decoder(c: &JsonCfg, data: &[u8], bs: usize, variant: usize, ch: &Chunking) -> Outcome {
    let mut o = Outcome { class: "ok".into(), ..Default::default() };
    let n = data.len();
    let chunks = ch.chunks(n);
    let mut dec = match builder(c, bs).build_decoder() {
        Ok(d) => d,
        Err(e) => {
            o.fail(&e);
            return o;
        }
    };
    let mut pos = 0usize;
    let mut avail = 0usize;
    let mut ci = 0usize;
    let mut last_obs = (usize::MAX, false);
    macro_rules! flush {
        () => {{
            o.calls += 1;
            match dec.flush() {
                Ok(Some(b)) => {
                    o.push_batch(&b);
                    true
                }
                Ok(None) => false,
                Err(e) => {
                    o.fail(&e);
                    return o;
                }
            }
        }};
    }
    loop {
        // producer
        let mut new_chunk = false;
        if (pos == avail || variant == 1) && ci < chunks.len() {
            avail = chunks[ci].1;
            ci += 1;
            new_chunk = true;
        }
        let buf = &data[pos..avail];
        if buf.is_empty() && !new_chunk {
            break; // input exhausted
        }
        o.calls += 1;
        if o.calls > MAX_STEPS {
            o.class = "hang".into();
            return o;
        }
        let k = match dec.decode(buf) {
            Ok(k) => k,
            Err(e) => {
                o.fail(&e);
                return o;
            }
        };
        if k > buf.len() {
            o.class = "err:consumed-more-than-given".into();
            return o;
        }
        pos += k;
        let obs = (dec.len(), dec.has_partial_record());
        o.state(&[pos as u64, obs.0 as u64, obs.1 as u64]);
        if obs != last_obs {
            o.marks.push(pos as u32);
            last_obs = obs;
        }
        if k != buf.len() {
            // documented: the batch is full
            let got = flush!();
            if !got && k == 0 {
                o.class = "err:no-progress".into();
                o.msg = format!("decode consumed 0 of {} bytes and flush returned None at byte {pos}", buf.len());
                return o;
            }
            continue;
        }
        // chunk fully consumed: optional flush, permitted whenever no record is partially decoded
        let chunk_index = ci - 1;
        let want = match ch.flush {
            Flush::End => false,
            Flush::Every => true,
            Flush::After(i) => i as usize == chunk_index,
        };
        if want && !dec.has_partial_record() {
            flush!();
            o.state(&[pos as u64, dec.len() as u64, 2]);
        }
    }
    // end of input: drain
    while flush!() {
        if o.calls > MAX_STEPS {
            o.class = "hang".into();
            break;
        }
    }
    if o.schema.is_none() {
        o.schema = Some(if c.field { Arc::new(Schema::new(vec![(c.schema)().field(0).clone()])) } else { (c.schema)() });
    }
    o
}

pub fn run_reader(c: &JsonCfg, data: &[u8], bs: usize, ch: &Chunking) -> Outcome {
    let mut o = Outcome { class: "ok".into(), ..Default::default() };
    let src = ChunkedRead::new(data, ch);
    match builder(c, bs).build(src) {
        Ok(mut r) => {
            use arrow_array::RecordBatchReader;
            o.schema = Some(r.schema());
            loop {
                o.calls += 1;
                if o.calls > MAX_STEPS {
                    o.class = "hang".into();
                    break;
                }
                match r.next() {
                    None => break,
                    Some(Ok(b)) => {
                        o.push_batch(&b);
                        o.state(&[o.rows.len() as u64]);
                    }
                    Some(Err(e)) => {
                        o.fail(&e);
                        break;
                    }
                }
            }
        }
        Err(e) => o.fail(&e),
    }
    o
}

pub struct JsonFamily {
    pub reader: bool,
    pub cfgs: Vec<JsonCfg>,
}

impl Family for JsonFamily {
    fn name(&self) -> &'static str {
        if self.reader { "json-reader" } else { "json-decoder" }
    }
    fn inputs(&self, quick: bool) -> Vec<InputSpec> {
        let mut v: Vec<InputSpec> = self.cfgs.iter().enumerate().map(|(i, c)| InputSpec { base: i, base_name: c.name.to_string(), bytes: c.text.to_vec(), corrupt: None }).collect();
        let mut order: Vec<usize> = (0..self.cfgs.len()).collect();
        order.sort_by_key(|&i| (self.cfgs[i].text.len(), i));
        let menu: &[u8] = if quick && self.reader { b"\"\\{}" } else { b"\"\\{}[],:x9 u\xC3\xFF\0\n" };
        for &i in order.iter().take(2) {
            let c = &self.cfgs[i];
            for (p, r) in corruptions(c.text, menu, &[]) {
                let mut b = c.text.to_vec();
                b[p] = r;
                v.push(InputSpec { base: i, base_name: c.name.to_string(), bytes: b, corrupt: Some((p, r)) });
            }
        }
        v
    }
    fn variants(&self) -> Vec<&'static str> {
        if self.reader { vec!["build"] } else { vec!["tail-alone", "rolling-tail-plus-next"] }
    }
    fn batch_sizes(&self) -> Vec<usize> {
        vec![1, 2, 3, 1024]
    }
    fn uses_batch_size(&self) -> bool {
        true
    }
    fn bounds(&self, quick: bool) -> ChunkBounds {
        ChunkBounds {
            full_n: if self.reader { if quick { 12 } else { 17 } } else if quick { 15 } else { 19 },
            pair_n: if quick { 130 } else { 400 },
            triple_n: if quick { 0 } else { 100 },
            interesting_max: if quick { 10 } else { 13 },
            max_groups: if quick { 2 } else { 6 },
            uniform_max: usize::MAX,
            flush_policies: !self.reader,
            empty_chunks: !self.reader,
        }
    }
    fn corrupt_bounds(&self, quick: bool) -> ChunkBounds {
        ChunkBounds { full_n: if quick { 10 } else { 16 }, ..self.bounds(quick) }
    }
    fn run(&self, inp: &InputSpec, bs: usize, variant: usize, ch: &Chunking) -> Outcome {
        let c = &self.cfgs[inp.base];
        if self.reader { run_reader(c, &inp.bytes, bs, ch) } else { run_decoder(c, &inp.bytes, bs, variant, ch) }
    }
    fn oneshot(&self, inp: &InputSpec, bs: usize) -> Option<Outcome> {
        Some(run_reader(&self.cfgs[inp.base], &inp.bytes, bs, &Chunking::whole()))
    }
}
