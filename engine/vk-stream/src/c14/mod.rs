//! C14 — incremental decoders are independent of how the input is chunked.
//!
//! The environment (an external producer) chooses where the byte sequence is cut and when a flush is asked for.
//! Every enumerated environment trace is executed on the real decoder and compared with the single-chunk run
//! of the same decoder (and that one with the one-shot pull reader).
pub mod avro;
pub mod csv;
pub mod flight;
pub mod ipc;
pub mod json;
pub mod pqmeta;

use crate::common::*;
use vcore::serde_json::{Value, json};
use vcore::{Ctx, Level, Stats, catch, par_for};

#[derive(Clone, Debug)]
pub struct InputSpec {
    /// index of the family's base configuration (schema, options) this input belongs to
    pub base: usize,
    pub base_name: String,
    pub bytes: Vec<u8>,
    /// Some((position, replacement byte)) for a single-byte corruption of the base input
    pub corrupt: Option<(usize, u8)>,
}

pub trait Family: Sync {
    fn name(&self) -> &'static str;
    fn inputs(&self, quick: bool) -> Vec<InputSpec>;
    fn variants(&self) -> Vec<&'static str>;
    fn batch_sizes(&self) -> Vec<usize>;
    fn uses_batch_size(&self) -> bool;
    fn bounds(&self, quick: bool) -> ChunkBounds;
    /// cheaper bounds for the corrupted inputs (default: same)
    fn corrupt_bounds(&self, quick: bool) -> ChunkBounds {
        self.bounds(quick)
    }
    fn run(&self, inp: &InputSpec, bs: usize, variant: usize, ch: &Chunking) -> Outcome;
    /// the corresponding one-shot pull reader, where one exists and is safe to run on this input
    fn oneshot(&self, inp: &InputSpec, bs: usize) -> Option<Outcome>;
    /// candidate cut positions of interest; default: positions where the byte-wise run's observable state changed, +-1
    fn interesting(&self, _inp: &InputSpec, bytewise: &Outcome) -> Vec<u32> {
        let mut v = vec![];
        for &p in &bytewise.marks {
            v.push(p);
            v.push(p + 1);
            if p > 0 {
                v.push(p - 1);
            }
        }
        v
    }
    /// class-level identity of a disagreement (goes into the fingerprint)
    #[allow(clippy::too_many_arguments)]
    fn classify(&self, _inp: &InputSpec, _bs: usize, _variant: usize, _ch: &Chunking, _reference: &Outcome, _got: &Outcome, diff: &Diff) -> String {
        diff.kind.clone()
    }
    /// how many of the presentation variants are run on corrupted inputs (default: all)
    fn variants_for_corrupted(&self, _quick: bool) -> usize {
        usize::MAX
    }
    /// run the single-chunk references of the corrupted inputs in a watchdog subprocess first and exclude
    /// inputs on which the library never returns (a hang is the same for every chunking: not a C14 matter)
    fn screen_for_hangs(&self) -> bool {
        false
    }
    /// a disagreement the documentation explicitly allows (default: none)
    fn acceptable(&self, _inp: &InputSpec, _variant: usize, _reference: &Outcome, _got: &Outcome) -> bool {
        false
    }
}

pub fn run_caught(f: &dyn Family, inp: &InputSpec, bs: usize, variant: usize, ch: &Chunking) -> Outcome {
    match catch(|| f.run(inp, bs, variant, ch)) {
        Ok(o) => o,
        Err(p) => Outcome { class: format!("panic:{}", p.fingerprint()), msg: format!("{} at {}:{}", p.msg, p.file, p.line), ..Default::default() },
    }
}

struct Job {
    fam: usize,
    input: usize,
    bs: usize,
    variant: usize,
    reference: Outcome,
    space: ChunkSpace,
    first: u64,
}

fn hex(b: &[u8]) -> String {
    b.iter().map(|x| format!("{x:02x}")).collect()
}

fn case_json(f: &dyn Family, inp: &InputSpec, bs: usize, variant: usize, ch: &Chunking) -> Value {
    json!({
        "family": f.name(), "input": inp.base_name, "corrupt": inp.corrupt.map(|(p, b)| json!([p, b])),
        "batch_size": bs, "variant": f.variants()[variant], "chunking": ch.json(),
        "chunk_lengths": ch.chunks(inp.bytes.len()).iter().map(|(s, e)| e - s).collect::<Vec<_>>(),
        "input_hex": if inp.bytes.len() <= 4096 { hex(&inp.bytes) } else { format!("{} bytes", inp.bytes.len()) },
        "input_text": String::from_utf8_lossy(&inp.bytes[..inp.bytes.len().min(200)]),
    })
}

pub fn families(ctx: &Ctx) -> Vec<Box<dyn Family>> {
    let mut v: Vec<Box<dyn Family>> = vec![
        Box::new(csv::CsvFamily { reader: false, cfgs: csv::corpus() }),
        Box::new(csv::CsvFamily { reader: true, cfgs: csv::corpus() }),
        Box::new(json::JsonFamily { reader: false, cfgs: json::corpus() }),
        Box::new(json::JsonFamily { reader: true, cfgs: json::corpus() }),
        Box::new(ipc::IpcFamily::new()),
        Box::new(avro::AvroDecoderFamily::new()),
        Box::new(avro::AvroOcfFamily::new()),
    ];
    if let Some(only) = ctx.extra_args.iter().find_map(|a| a.strip_prefix("--family=")) {
        v.retain(|f| f.name() == only);
    }
    if let Some(only) = ctx.extra_args.iter().find_map(|a| a.strip_prefix("--screen=")) {
        v.retain(|f| f.name() == only);
    }
    v
}

fn replay(ctx: &Ctx, case: &Value) -> ! {
    let fam = case["family"].as_str().unwrap_or("");
    if fam == "parquet-metadata-push-decoder" {
        pqmeta::replay(case);
    }
    if fam == "flight-data-decoder" {
        flight::replay(case);
    }
    let fams = families(ctx);
    let Some(f) = fams.iter().find(|f| f.name() == fam) else {
        eprintln!("MACHINERY: unknown family {fam:?} in replay");
        std::process::exit(2)
    };
    let corrupt = case["corrupt"].as_array().map(|a| (a[0].as_u64().unwrap() as usize, a[1].as_u64().unwrap() as u8));
    let name = case["input"].as_str().unwrap_or("");
    // inputs are looked up in the thorough list (a superset of the quick one)
    let inputs = f.inputs(false);
    let Some(inp) = inputs.iter().find(|i| i.base_name == name && i.corrupt == corrupt) else {
        eprintln!("MACHINERY: input {name:?} corrupt={corrupt:?} not found in family {fam}");
        std::process::exit(2)
    };
    let bs = case["batch_size"].as_u64().unwrap_or(1024) as usize;
    let variant = f.variants().iter().position(|v| Some(*v) == case["variant"].as_str()).unwrap_or(0);
    let ch = Chunking::from_json(&case["chunking"]);
    let reference = run_caught(f.as_ref(), inp, bs, variant, &Chunking::whole());
    let got = run_caught(f.as_ref(), inp, bs, variant, &ch);
    println!("replay case: family={fam} input={name} corrupt={corrupt:?} batch_size={bs} variant={} chunks={:?}", f.variants()[variant], ch.chunks(inp.bytes.len()));
    println!("expectation (single-chunk run): {}", reference.brief());
    println!("  rows: {:?}", reference.rows);
    println!("observation (chunked run):      {}", got.brief());
    println!("  rows: {:?}", got.rows);
    let d = compare(&reference, &got, if f.uses_batch_size() { Some(bs) } else { None });
    match &d {
        None => println!("replay outcome: chunked run agrees with the single-chunk run"),
        Some(d) => println!("replay outcome: MISMATCH {} — {}", f.classify(inp, bs, variant, &ch, &reference, &got, d), d.detail),
    }
    std::process::exit(if d.is_some() { 1 } else { 0 })
}

/// worker mode: `--screen=<family> --from=<i> --to=<j>`: runs the references of inputs i..j, announcing each
fn screen_worker(ctx: &Ctx, fam: &str) -> ! {
    let arg = |k: &str| ctx.extra_args.iter().find_map(|a| a.strip_prefix(k)).and_then(|v| v.parse::<usize>().ok()).unwrap_or(0);
    let (from, to, step) = (arg("--from="), arg("--to="), arg("--step=").max(1));
    let fams = families(ctx);
    let f = fams.iter().find(|f| f.name() == fam).expect("family");
    let inputs = f.inputs(ctx.quick());
    use std::io::Write;
    for i in (from..to.min(inputs.len())).step_by(step) {
        println!("@ {i}");
        std::io::stdout().flush().ok();
        for &bs in &f.batch_sizes() {
            let _ = run_caught(f.as_ref(), &inputs[i], bs, 0, &Chunking::whole());
        }
    }
    println!("DONE");
    std::process::exit(0)
}

/// returns for every input whether the library hangs on it (watchdog expired in the worker)
fn screen_hangs(ctx: &Ctx, f: &dyn Family, inputs: &[InputSpec]) -> Vec<bool> {
    let exe = std::env::current_exe().expect("current_exe");
    let idx: Vec<usize> = (0..inputs.len()).filter(|&i| inputs[i].corrupt.is_some()).collect();
    let mut hang = vec![false; inputs.len()];
    if idx.is_empty() {
        return hang;
    }
    let (lo, hi) = (idx[0], idx[idx.len() - 1] + 1);
    let workers = ctx.threads.clamp(1, 16);
    let found = std::sync::Mutex::new(vec![]);
    std::thread::scope(|s| {
        for w in 0..workers {
            let (exe, found) = (&exe, &found);
            let tier = if ctx.quick() { "quick" } else { "thorough" };
            let name = f.name();
            s.spawn(move || {
                // worker w takes indices lo+w, lo+w+workers, ... (neighbouring corruptions tend to hang together)
                let mut from = lo + w;
                let to = hi;
                let mut slow_starts = 0;
                while from < to {
                    let args: Vec<String> = vec!["C14".into(), "--tier".into(), tier.into(), format!("--screen={name}"), format!("--from={from}"), format!("--to={to}"), format!("--step={workers}")];
                    match vcore::sub::run_worker(exe, &args, None, std::time::Duration::from_secs(3), |_| {}) {
                        vcore::sub::WorkerEnd::Completed => break,
                        vcore::sub::WorkerEnd::Hung { in_flight: Some(i) } => {
                            found.lock().unwrap().push(i as usize);
                            from = i as usize + workers;
                        }
                        vcore::sub::WorkerEnd::Hung { in_flight: None } if slow_starts < 5 => slow_starts += 1, // machine overloaded: worker did not even start in time
                        other => {
                            let d = match other {
                                vcore::sub::WorkerEnd::Died { desc, in_flight } => format!("died {desc} in flight {in_flight:?}"),
                                _ => "hung before the first case".into(),
                            };
                            eprintln!("MACHINERY: hang-screen worker for {name}: {d}");
                            std::process::exit(2);
                        }
                    }
                }
            });
        }
    });
    for i in found.into_inner().unwrap() {
        hang[i] = true;
    }
    hang
}

pub fn run(ctx: &Ctx) -> ! {
    if let Some(fam) = ctx.extra_args.iter().find_map(|a| a.strip_prefix("--screen=")) {
        screen_worker(ctx, &fam.to_string());
    }
    if let Some(case) = vcore::load_replay(ctx) {
        replay(ctx, &case);
    }
    let quick = ctx.quick();
    let mut st = Stats::new();
    let fams = families(ctx);
    let mut all_inputs: Vec<Vec<InputSpec>> = fams.iter().map(|f| f.inputs(quick)).collect();
    let states = StateSet::new();
    // inputs on which the library does not return at all are excluded (and listed in the evidence)
    let mut excluded = vec![];
    for (fi, f) in fams.iter().enumerate() {
        if f.screen_for_hangs() {
            let hang = screen_hangs(ctx, f.as_ref(), &all_inputs[fi]);
            let mut k = 0;
            all_inputs[fi].retain(|inp| {
                let h = hang[k];
                k += 1;
                if h {
                    excluded.push(json!({"family": f.name(), "input": inp.base_name, "corrupt": inp.corrupt.map(|(p, b)| json!([p, b])), "reason": "library call never returns on this input (same for every chunking)"}));
                }
                !h
            });
        }
    }
    st.extra.insert("excluded_inputs_library_hangs".into(), json!(excluded));

    // ---- jobs: (family, input, batch size, variant) with the single-chunk reference and the chunking space
    let mut bounds_doc = serde_json::Map::new();
    let mut pairs: Vec<(usize, usize)> = vec![];
    for (fi, f) in fams.iter().enumerate() {
        let b_valid = f.bounds(quick);
        let b_corrupt = f.corrupt_bounds(quick);
        bounds_doc.insert(
            f.name().to_string(),
            json!({"inputs": all_inputs[fi].iter().filter(|i| i.corrupt.is_none()).count(), "corrupted_inputs": all_inputs[fi].iter().filter(|i| i.corrupt.is_some()).count(),
                   "input_lengths": all_inputs[fi].iter().filter(|i| i.corrupt.is_none()).map(|i| i.bytes.len()).collect::<Vec<_>>(),
                   "batch_sizes": f.batch_sizes(), "variants": f.variants(),
                   "bounds": format!("{b_valid:?}"), "bounds_for_corrupted": format!("{b_corrupt:?}")}),
        );
        for ii in 0..all_inputs[fi].len() {
            pairs.push((fi, ii));
        }
    }
    // references are computed in parallel (pure functions of the pair), then laid out in pair order
    let protos: Vec<std::sync::Mutex<Option<(Vec<Job>, Stats)>>> = pairs.iter().map(|_| std::sync::Mutex::new(None)).collect();
    let next = std::sync::atomic::AtomicUsize::new(0);
    std::thread::scope(|s| {
        for _ in 0..ctx.threads.max(1) {
            s.spawn(|| loop {
                let k = next.fetch_add(1, std::sync::atomic::Ordering::Relaxed);
                if k >= pairs.len() {
                    break;
                }
                let (fi, ii) = pairs[k];
                let f = fams[fi].as_ref();
                let inp = &all_inputs[fi][ii];
                let bounds = if inp.corrupt.is_some() { f.corrupt_bounds(quick) } else { f.bounds(quick) };
                let mut st = Stats::new();
                let mut js = vec![];
                for &bs in &f.batch_sizes() {
                    // one-shot pull reader vs single-chunk decoder run
                    let reference0 = run_caught(f, inp, bs, 0, &Chunking::whole());
                    if let Some(one) = catch(|| f.oneshot(inp, bs)).unwrap_or_else(|p| Some(Outcome { class: format!("panic:{}", p.fingerprint()), ..Default::default() })) {
                        st.add("vs-one-shot-reader", 1, 1);
                        if let Some(d) = compare(&one, &reference0, None) {
                            st.violate(k as u64, format!("c14:{}:vs-one-shot-reader:{}", f.name(), d.kind), format!("single-chunk decoder run differs from the one-shot reader on input {:?}: {}", inp.base_name, d.detail), || {
                                case_json(f, inp, bs, 0, &Chunking::whole())
                            });
                        }
                    }
                    // byte-wise run gives the interesting positions
                    let n = inp.bytes.len();
                    let bytewise = run_caught(f, inp, bs, 0, &Chunking { cuts: (1..n as u32).collect(), flush: Flush::End });
                    let interesting = f.interesting(inp, &bytewise);
                    let nv = if inp.corrupt.is_some() { f.variants().len().min(f.variants_for_corrupted(quick)) } else { f.variants().len() };
                    for variant in 0..nv {
                        let reference = if variant == 0 { reference0.clone() } else { run_caught(f, inp, bs, variant, &Chunking::whole()) };
                        let space = ChunkSpace::new(n, &interesting, &bounds);
                        js.push(Job { fam: fi, input: ii, bs, variant, reference, space, first: 0 });
                    }
                }
                *protos[k].lock().unwrap() = Some((js, st));
            });
        }
    });
    let mut jobs: Vec<Job> = vec![];
    let mut first = 0u64;
    for p in protos {
        let (js, pst) = p.into_inner().unwrap().expect("job prepared");
        st.merge(pst);
        for mut j in js {
            j.first = first;
            first += j.space.total;
            jobs.push(j);
        }
    }
    let total = first;
    let firsts: Vec<u64> = jobs.iter().map(|j| j.first).collect();
    if ctx.has_flag("--timing") {
        eprintln!("timing: {} jobs, {} chunkings prepared after {:.1}s", jobs.len(), total, ctx.start.elapsed().as_secs_f64());
    }
    st.extra.insert("chunking_jobs".into(), json!(jobs.len()));
    st.extra.insert("families".into(), Value::Object(bounds_doc));

    let res = par_for(ctx, "chunkings", total, 64, |idx, st| {
        let j = &jobs[firsts.partition_point(|&f| f <= idx) - 1];
        let f = fams[j.fam].as_ref();
        let inp = &all_inputs[j.fam][j.input];
        let (ch, seg) = j.space.at(idx - j.first);
        let got = run_caught(f, inp, j.bs, j.variant, &ch);
        let nontrivial = !ch.cuts.is_empty() && !j.space.is_dup(seg, &ch);
        st.add(f.name(), 1, nontrivial as u64);
        st.count(&format!("segment:{seg}"), 1);
        st.outcome(&format!("{}:{}", f.name(), got.class));
        st.transitions += got.calls;
        st.traces += 1;
        st.max_depth = st.max_depth.max(got.calls);
        states.insert_all(vcore::fnv64(format!("{}/{}/{}", f.name(), j.input, j.bs).as_bytes()), &got.states);
        let bsz = if f.uses_batch_size() { Some(j.bs) } else { None };
        if let Some(d) = compare(&j.reference, &got, bsz).filter(|_| !f.acceptable(inp, j.variant, &j.reference, &got)) {
            // M-det: re-execute before reporting
            let again = run_caught(f, inp, j.bs, j.variant, &ch);
            if compare(&j.reference, &again, bsz).map(|x| x.kind) != Some(d.kind.clone()) {
                eprintln!("MACHINERY: violating case did not reproduce on re-execution: {}", case_json(f, inp, j.bs, j.variant, &ch));
                std::process::exit(2);
            }
            let cls = f.classify(inp, j.bs, j.variant, &ch, &j.reference, &got, &d);
            st.violate((1u64 << 32) + idx, format!("c14:{}:{}", f.name(), cls), format!("input {:?} corrupt={:?} bs={} variant={} chunks={:?}: {}", inp.base_name, inp.corrupt, j.bs, f.variants()[j.variant], ch.chunks(inp.bytes.len()), d.detail), || {
                case_json(f, inp, j.bs, j.variant, &ch)
            });
        }
        if idx == j.first + j.space.total / 2 && j.variant == 0 && j.bs == f.batch_sizes()[0] && inp.corrupt.is_none() {
            st.sample(f.name(), || case_json(f, inp, j.bs, j.variant, &ch));
        }
    });
    st.merge(res);

    // ---- range / message level environments
    if !ctx.extra_args.iter().any(|a| a.starts_with("--family=")) || ctx.has_flag("--family=parquet-metadata-push-decoder") {
        pqmeta::explore(ctx, &mut st, &states, (1u64 << 40) + total);
    }
    if !ctx.extra_args.iter().any(|a| a.starts_with("--family=")) || ctx.has_flag("--family=flight-data-decoder") {
        flight::explore(ctx, &mut st, &states, (1u64 << 41) + total);
    }

    st.states = states.len();
    vcore::finish(
        ctx,
        Level {
            category: "model_checking",
            rule: "environment traces are enumerated, never sampled: per (decoder, input, batch size, presentation variant) all 2^(n-1) partitions for n<=full_n, else every single cut, every pair (n<=pair_n), every triple (n<=triple_n), every uniform chunk size 1..=n and all subsets of each group of interesting cut positions; flush policies and empty chunks where the documented protocol allows them; a trace is non-trivial when it has at least one cut and is not also produced by an earlier segment (so each distinct trace is counted once); states = distinct (decoder, input, batch size, bytes consumed, decoder-observable fields) tuples, transitions = decode/flush/finish calls".into(),
            assumptions: vec![
                "each decoder is driven by its documented protocol only (CSV: flush only after decode returned 0, empty slice = end of input; JSON: flush only when has_partial_record() is false; Avro: unconsumed tail is re-presented with the next chunk; IPC: decode until the buffer is empty, finish at the end)".into(),
                "error outcomes are compared by error variant; the number of rows delivered before an error may depend on the chunking, the delivered rows must agree on the common prefix".into(),
                "one-shot pull readers are compared on the uncorrupted corpus only where a corrupted length field could make the pull reader allocate unboundedly (IPC)".into(),
            ],
            exhaustive_space: "property quantifier: all partitions of the input into consecutive chunks x batch sizes {1,2,3,1024}, for the stated corpus and all single-byte corruptions (stated menu) of its two shortest entries".into(),
        },
        st,
    )
}
