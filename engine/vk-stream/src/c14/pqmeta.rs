//! `ParquetMetaDataPushDecoder`: its "chunks" are byte ranges. The environment answers `NeedsData` requests
//! (or pushes speculatively) according to a delivery policy; every policy must lead to the same metadata as
//! the pull-based `ParquetMetaDataReader` over the whole file.
use crate::common::StateSet;
use arrow_array::{ArrayRef, Int32Array, RecordBatch, StringArray};
use arrow_schema::{DataType, Field, Schema};
use bytes::Bytes;
use parquet::DecodeResult;
use parquet::arrow::ArrowWriter;
use parquet::file::metadata::{PageIndexPolicy, ParquetMetaData, ParquetMetaDataPushDecoder, ParquetMetaDataReader};
use parquet::file::properties::{EnabledStatistics, WriterProperties};
use std::ops::Range;
use std::sync::Arc;
use vcore::serde_json::{Value, json};
use vcore::{Ctx, Stats, catch, par_for};

fn batch(n: usize) -> RecordBatch {
    let s = Arc::new(Schema::new(vec![Field::new("i", DataType::Int32, true), Field::new("s", DataType::Utf8, true)]));
    let i: ArrayRef = Arc::new(Int32Array::from((0..n).map(|k| if k % 3 == 2 { None } else { Some(k as i32 * 7 - 3) }).collect::<Vec<_>>()));
    let st: ArrayRef = Arc::new(StringArray::from((0..n).map(|k| if k % 4 == 1 { None } else { Some(format!("v{k}")) }).collect::<Vec<_>>()));
    RecordBatch::try_new(s, vec![i, st]).unwrap()
}

pub fn corpus() -> Vec<(String, Vec<u8>)> {
    let mk = |rows: usize, props: WriterProperties| -> Vec<u8> {
        let b = batch(rows);
        let mut buf = Vec::new();
        {
            let mut w = ArrowWriter::try_new(&mut buf, b.schema(), Some(props)).expect("arrow writer");
            if rows > 0 {
                w.write(&b).expect("write");
            }
            w.close().expect("close");
        }
        buf
    };
    let base = || WriterProperties::builder().set_created_by("verif".to_string());
    vec![
        ("page-index-two-row-groups".to_string(), mk(5, base().set_max_row_group_row_count(Some(3)).set_data_page_row_count_limit(2).set_write_batch_size(1).build())),
        ("no-page-index".to_string(), mk(5, base().set_statistics_enabled(EnabledStatistics::None).set_offset_index_disabled(true).build())),
        ("chunk-stats-only-offset-index".to_string(), mk(4, base().set_statistics_enabled(EnabledStatistics::Chunk).build())),
        ("zero-rows".to_string(), mk(0, base().build())),
    ]
}

/// How the environment delivers data.
#[derive(Clone, Debug, PartialEq)]
pub enum Policy {
    /// exactly the requested range
    Exact,
    /// an enclosing range: start - a, end + b (clipped to the file)
    Enclose(u64, u64),
    /// the whole file for every request
    WholeOnRequest,
    /// suffix of length L pushed before the first try_decode, exact answers afterwards
    Prefetch(u64),
    /// as Prefetch, but the suffix is pushed as two adjacent ranges split at `at` bytes from its start
    PrefetchSplit(u64, u64),
    /// every requested range is pushed twice
    Duplicate,
    /// the two halves of the requested range first (not individually sufficient), then the exact range
    HalvesThenExact,
    /// an unrelated range (file start) before every answer
    UnrelatedFirst,
    /// try_decode is called twice before every answer (NeedsData must be stable)
    AskTwice,
    /// clear_all_ranges before answering every request, then exact
    ClearThenExact,
}

#[derive(Debug, Clone)]
pub struct MetaOutcome {
    pub class: String,
    pub meta: Option<Box<ParquetMetaData>>,
    pub msg: String,
    pub calls: u64,
    pub requests: Vec<Range<u64>>,
}

fn pol(p: u8) -> PageIndexPolicy {
    match p {
        0 => PageIndexPolicy::Skip,
        1 => PageIndexPolicy::Optional,
        _ => PageIndexPolicy::Required,
    }
}

pub fn run_push(file: &Bytes, pip: u8, policy: &Policy) -> MetaOutcome {
    let len = file.len() as u64;
    let mut o = MetaOutcome { class: String::new(), meta: None, msg: String::new(), calls: 0, requests: vec![] };
    let mut dec = match ParquetMetaDataPushDecoder::try_new(len) {
        Ok(d) => d.with_page_index_policy(pol(pip)),
        Err(e) => {
            o.class = format!("err:{}", crate::common::variant_of(&e));
            o.msg = e.to_string();
            return o;
        }
    };
    let slice = |r: &Range<u64>| file.slice(r.start as usize..r.end as usize);
    macro_rules! push {
        ($r:expr) => {{
            let r: Range<u64> = $r;
            o.calls += 1;
            if let Err(e) = dec.push_range(r.clone(), slice(&r)) {
                o.class = format!("push-err:{}", crate::common::variant_of(&e));
                o.msg = e.to_string();
                return o;
            }
        }};
    }
    match policy {
        Policy::Prefetch(l) => push!(len - (*l).min(len)..len),
        Policy::PrefetchSplit(l, at) => {
            let s = len - (*l).min(len);
            let m = (s + at).min(len);
            push!(s..m);
            push!(m..len);
        }
        _ => {}
    }
    let mut answered_halves: Vec<Range<u64>> = vec![];
    for _step in 0..64 {
        o.calls += 1;
        let r = dec.try_decode();
        if *policy == Policy::AskTwice {
            if let Ok(DecodeResult::NeedsData(a)) = &r {
                o.calls += 1;
                match dec.try_decode() {
                    Ok(DecodeResult::NeedsData(b)) if *a == b => {}
                    other => {
                        o.class = "needs-data-not-stable".into();
                        o.msg = format!("first {a:?} then {other:?}");
                        return o;
                    }
                }
            }
        }
        match r {
            Ok(DecodeResult::Data(m)) => {
                o.class = "ok".into();
                o.meta = Some(Box::new(m));
                // documented: afterwards Finished, and pushing is an error
                o.calls += 1;
                match dec.try_decode() {
                    Ok(DecodeResult::Finished) => {}
                    other => {
                        o.class = "not-finished-after-data".into();
                        o.msg = format!("{other:?}");
                    }
                }
                return o;
            }
            Ok(DecodeResult::Finished) => {
                o.class = "finished-without-data".into();
                return o;
            }
            Err(e) => {
                o.class = format!("err:{}", crate::common::variant_of(&e));
                o.msg = e.to_string();
                return o;
            }
            Ok(DecodeResult::NeedsData(ranges)) => {
                if ranges.is_empty() {
                    o.class = "needs-no-ranges".into();
                    return o;
                }
                for r in &ranges {
                    o.requests.push(r.clone());
                    if r.end > len || r.start > r.end {
                        // the environment cannot answer: a file does not have these bytes
                        o.class = "needs-range-outside-file".into();
                        o.msg = format!("{r:?} of {len}");
                        return o;
                    }
                    match policy {
                        Policy::Exact | Policy::Prefetch(_) | Policy::PrefetchSplit(..) | Policy::AskTwice => push!(r.clone()),
                        Policy::Enclose(a, b) => push!(r.start.saturating_sub(*a)..(r.end + b).min(len)),
                        Policy::WholeOnRequest => push!(0..len),
                        Policy::Duplicate => {
                            push!(r.clone());
                            push!(r.clone());
                        }
                        Policy::HalvesThenExact => {
                            if answered_halves.contains(r) || r.end - r.start < 2 {
                                push!(r.clone());
                            } else {
                                let m = r.start + (r.end - r.start) / 2;
                                push!(r.start..m);
                                push!(m..r.end);
                                answered_halves.push(r.clone());
                            }
                        }
                        Policy::UnrelatedFirst => {
                            push!(0..len.min(4));
                            push!(r.clone());
                        }
                        Policy::ClearThenExact => {
                            dec.clear_all_ranges();
                            push!(r.clone());
                        }
                    }
                }
            }
        }
    }
    o.class = "hang".into();
    o
}

pub fn run_pull(file: &Bytes, pip: u8) -> MetaOutcome {
    let mut o = MetaOutcome { class: String::new(), meta: None, msg: String::new(), calls: 1, requests: vec![] };
    match ParquetMetaDataReader::new().with_page_index_policy(pol(pip)).parse_and_finish(file) {
        Ok(m) => {
            o.class = "ok".into();
            o.meta = Some(Box::new(m));
        }
        Err(e) => {
            o.class = format!("err:{}", crate::common::variant_of(&e));
            o.msg = e.to_string();
        }
    }
    o
}

fn caught(f: impl FnOnce() -> MetaOutcome) -> MetaOutcome {
    match catch(f) {
        Ok(o) => o,
        Err(p) => MetaOutcome { class: format!("panic:{}", p.fingerprint()), meta: None, msg: format!("{} at {}:{}", p.msg, p.file, p.line), calls: 0, requests: vec![] },
    }
}

fn policies(len: u64, quick: bool, corrupted: bool) -> Vec<Policy> {
    let mut v = vec![
        Policy::Exact,
        Policy::Enclose(1, 0),
        Policy::Enclose(0, 1),
        Policy::Enclose(7, 13),
        Policy::WholeOnRequest,
        Policy::Duplicate,
        Policy::HalvesThenExact,
        Policy::UnrelatedFirst,
        Policy::AskTwice,
        Policy::ClearThenExact,
    ];
    if corrupted {
        for l in [8u64, 64, len / 2, len] {
            v.push(Policy::Prefetch(l));
        }
        return v;
    }
    for l in 0..=len {
        v.push(Policy::Prefetch(l));
    }
    let step = if quick { 7 } else { 1 };
    for l in (2..=len).step_by(step) {
        for at in [1u64, l / 2, l - 1] {
            if at > 0 && at < l {
                v.push(Policy::PrefetchSplit(l, at));
            }
        }
    }
    v
}

struct Inp {
    name: String,
    bytes: Bytes,
    corrupt: Option<(usize, u8)>,
}

fn inputs(quick: bool) -> Vec<Inp> {
    let c = corpus();
    let mut v: Vec<Inp> = c.iter().map(|(n, b)| Inp { name: n.clone(), bytes: Bytes::from(b.clone()), corrupt: None }).collect();
    // every single-byte corruption (xor menu) of the two shortest files
    let mut order: Vec<usize> = (0..c.len()).collect();
    order.sort_by_key(|&i| (c[i].1.len(), i));
    let xors: &[u8] = if quick { &[0x01, 0x80] } else { &[0x01, 0x80, 0xff, 0x10] };
    for &i in order.iter().take(2) {
        for (p, r) in crate::common::corruptions(&c[i].1, &[], xors) {
            let mut b = c[i].1.clone();
            b[p] = r;
            v.push(Inp { name: c[i].0.clone(), bytes: Bytes::from(b), corrupt: Some((p, r)) });
        }
    }
    v
}

fn same(a: &MetaOutcome, b: &MetaOutcome) -> Option<String> {
    if a.class != b.class {
        return Some(format!("outcome:{}->{}", a.class, b.class));
    }
    if a.meta != b.meta {
        return Some("metadata-differs".into());
    }
    None
}

fn case_json(inp: &Inp, pip: u8, p: &Policy) -> Value {
    json!({"family": "parquet-metadata-push-decoder", "input": inp.name, "corrupt": inp.corrupt.map(|(p, b)| json!([p, b])), "page_index_policy": pip, "policy": format!("{p:?}"), "file_len": inp.bytes.len()})
}

fn parse_policy(s: &str) -> Policy {
    let nums: Vec<u64> = s.split(|c: char| !c.is_ascii_digit()).filter(|x| !x.is_empty()).map(|x| x.parse().unwrap()).collect();
    match s.split('(').next().unwrap_or("") {
        "Exact" => Policy::Exact,
        "Enclose" => Policy::Enclose(nums[0], nums[1]),
        "WholeOnRequest" => Policy::WholeOnRequest,
        "Prefetch" => Policy::Prefetch(nums[0]),
        "PrefetchSplit" => Policy::PrefetchSplit(nums[0], nums[1]),
        "Duplicate" => Policy::Duplicate,
        "HalvesThenExact" => Policy::HalvesThenExact,
        "UnrelatedFirst" => Policy::UnrelatedFirst,
        "AskTwice" => Policy::AskTwice,
        _ => Policy::ClearThenExact,
    }
}

pub fn replay(case: &Value) -> ! {
    let ins = inputs(false);
    let corrupt = case["corrupt"].as_array().map(|a| (a[0].as_u64().unwrap() as usize, a[1].as_u64().unwrap() as u8));
    let name = case["input"].as_str().unwrap_or("");
    let Some(inp) = ins.iter().find(|i| i.name == name && i.corrupt == corrupt) else {
        eprintln!("MACHINERY: input not found");
        std::process::exit(2)
    };
    let pip = case["page_index_policy"].as_u64().unwrap_or(1) as u8;
    let p = parse_policy(case["policy"].as_str().unwrap_or("Exact"));
    let pull = caught(|| run_pull(&inp.bytes, pip));
    let exact = caught(|| run_push(&inp.bytes, pip, &Policy::Exact));
    let got = caught(|| run_push(&inp.bytes, pip, &p));
    println!("replay case: {case}");
    println!("expectation (pull reader):        class={} msg={:?}", pull.class, pull.msg);
    println!("expectation (exact-range policy): class={} requests={:?} msg={:?}", exact.class, exact.requests, exact.msg);
    println!("observation ({p:?}): class={} requests={:?} msg={:?}", got.class, got.requests, got.msg);
    let d = same(&exact, &got).or_else(|| if inp.corrupt.is_none() { same(&pull, &got) } else { None });
    println!("replay outcome: {}", d.clone().unwrap_or_else(|| "agrees".into()));
    std::process::exit(if d.is_some() { 1 } else { 0 })
}

pub fn explore(ctx: &Ctx, st: &mut Stats, states: &StateSet, order_base: u64) {
    let quick = ctx.quick();
    let ins = inputs(quick);
    // index space: (input, page index policy, delivery policy)
    let mut jobs: Vec<(usize, u8, Vec<Policy>, MetaOutcome, MetaOutcome, u64)> = vec![];
    let mut first = 0u64;
    for (ii, inp) in ins.iter().enumerate() {
        for pip in 0..3u8 {
            let pols = policies(inp.bytes.len() as u64, quick, inp.corrupt.is_some());
            let reference = caught(|| run_push(&inp.bytes, pip, &Policy::Exact));
            let pull = caught(|| run_pull(&inp.bytes, pip));
            let n = pols.len() as u64;
            jobs.push((ii, pip, pols, reference, pull, first));
            first += n;
        }
    }
    let firsts: Vec<u64> = jobs.iter().map(|j| j.5).collect();
    let sub = "parquet-metadata-push-decoder";
    let res = par_for(ctx, sub, first, 32, |idx, st| {
        let j = &jobs[firsts.partition_point(|&f| f <= idx) - 1];
        let inp = &ins[j.0];
        let p = &j.2[(idx - j.5) as usize];
        let got = caught(|| run_push(&inp.bytes, j.1, p));
        st.add(sub, 1, (*p != Policy::Exact) as u64);
        st.outcome(&format!("{sub}:{}", got.class));
        st.transitions += got.calls;
        st.traces += 1;
        let hs: Vec<u64> = got.requests.iter().enumerate().map(|(k, r)| vcore::fnv64(format!("{k}/{r:?}").as_bytes())).collect();
        states.insert_all(vcore::fnv64(format!("{sub}/{}/{}", j.0, j.1).as_bytes()), &hs);
        let mut d = same(&j.3, &got).map(|k| format!("vs-exact-ranges:{k}"));
        if d.is_none() && inp.corrupt.is_none() {
            // uncorrupted files: the pull-based reader is the one-shot reference
            d = same(&j.4, &got).map(|k| format!("vs-pull-reader:{k}"));
        }
        if let Some(k) = d {
            let pname = format!("{p:?}");
            let pclass = pname.split('(').next().unwrap_or("").to_string();
            st.violate(order_base + idx, format!("c14:{sub}:{k}:{pclass}"), format!("input {:?} corrupt={:?} page_index_policy={} delivery {p:?}: got class={} msg={:?}; exact-range run class={} ; pull reader class={}", inp.name, inp.corrupt, j.1, got.class, got.msg, j.3.class, j.4.class), || case_json(inp, j.1, p));
        }
        if idx == j.5 + 3 && inp.corrupt.is_none() && j.1 == 1 {
            st.sample(sub, || case_json(inp, j.1, p));
        }
    });
    st.merge(res);
    st.extra.insert(
        "parquet_metadata_push_decoder".into(),
        json!({"files": ins.iter().filter(|i| i.corrupt.is_none()).map(|i| json!({"name": i.name, "len": i.bytes.len()})).collect::<Vec<_>>(),
               "corrupted_files": ins.iter().filter(|i| i.corrupt.is_some()).count(),
               "page_index_policies": ["Skip", "Optional", "Required"],
               "delivery_policies": "Exact, Enclose(1,0),(0,1),(7,13), WholeOnRequest, Duplicate, HalvesThenExact, UnrelatedFirst, AskTwice, ClearThenExact, Prefetch(suffix L) for every L in 0..=len, PrefetchSplit(L, at in {1, L/2, L-1})",
               "runs": first}),
    );
}
