//! C18 — truncation and I/O faults are reported, never turned into wrong rows.
//!
//! fault_enumeration: for every writer script and every reader, a fault-free run counts the sink / source calls
//! `n`; then one run per (call index k < n, fault kind, once | persistent). Truncation: every prefix 0..=len of
//! every file the writers produced, with every reader of that format.
pub mod readers;
pub mod writers;

use readers::*;
use std::sync::Arc;
use vcore::fault::{Fault, Plan, READ_FAULTS, WRITE_FAULTS};
use vcore::serde_json::{Value, json};
use vcore::{Ctx, Level, Stats, par_for};
use writers::*;

fn fault_name(f: Fault) -> &'static str {
    match f {
        Fault::None => "none",
        Fault::ErrOther => "err-other",
        Fault::ErrBrokenPipe => "err-broken-pipe",
        Fault::ErrInterrupted => "err-interrupted",
        Fault::Zero => "zero",
        Fault::Short1 => "short-1",
        Fault::ShortHalf => "short-half",
    }
}
fn fault_of(s: &str) -> Fault {
    match s {
        "err-other" => Fault::ErrOther,
        "err-broken-pipe" => Fault::ErrBrokenPipe,
        "err-interrupted" => Fault::ErrInterrupted,
        "zero" => Fault::Zero,
        "short-1" => Fault::Short1,
        "short-half" => Fault::ShortHalf,
        _ => Fault::None,
    }
}

/// (fault, persistent) menu for sinks. Persistent Interrupted is excluded: `write_all` is specified to retry
/// Interrupted forever, so a sink that is interrupted on every call hangs any correct writer.
fn write_menu() -> Vec<(Fault, bool)> {
    let mut v: Vec<(Fault, bool)> = WRITE_FAULTS.iter().map(|&f| (f, false)).collect();
    for f in [Fault::ErrOther, Fault::ErrBrokenPipe, Fault::Zero, Fault::Short1, Fault::ShortHalf] {
        v.push((f, true));
    }
    v
}
/// sources: every fault once; persistent only Err (device gone) and Zero (= file ends here)
fn read_menu() -> Vec<(Fault, bool)> {
    let mut v: Vec<(Fault, bool)> = READ_FAULTS.iter().filter(|&&f| f != Fault::Zero).map(|&f| (f, false)).collect();
    v.push((Fault::ErrOther, true));
    v.push((Fault::Zero, true));
    v
}

/// positions of the (random) OCF sync marker in the fault-free output: masked before comparing
fn avro_sync_positions(reference: &[u8]) -> Vec<usize> {
    // header: magic(4) + metadata map + 16-byte sync; the marker then repeats after every block. It is the last
    // 16 bytes of the file (a file with at least one block) and all its other occurrences are found by search.
    if reference.len() < 20 {
        return vec![];
    }
    let mut out = vec![];
    // the header's marker is the first occurrence of the file's last 16 bytes when the file has blocks;
    // for a header-only file it is simply the last 16 bytes
    let last = &reference[reference.len() - 16..];
    let mut i = 0;
    while i + 16 <= reference.len() {
        if &reference[i..i + 16] == last {
            out.push(i);
            i += 16;
        } else {
            i += 1;
        }
    }
    out
}
fn mask(bytes: &[u8], positions: &[usize]) -> Vec<u8> {
    let mut v = bytes.to_vec();
    for &p in positions {
        for b in v.iter_mut().skip(p).take(16) {
            *b = 0;
        }
    }
    v
}

struct WriterRef {
    bytes: Vec<u8>,
    /// sink calls of the fault-free run, per write granularity
    calls: Vec<usize>,
    sync: Vec<usize>,
}

/// the sink accepts / the source returns at most this many bytes per call
fn granularities(quick: bool) -> Vec<usize> {
    if quick { vec![usize::MAX, 13] } else { vec![usize::MAX, 13, 1] }
}

fn writer_case_json(c: &WriterCase, k: usize, f: Fault, persistent: bool, stop: bool, g: usize, second: Option<usize>) -> Value {
    json!({"sub": "writer", "writer": c.name, "call": k, "fault": fault_name(f), "persistent": persistent, "stop_at_error": stop, "max_bytes_per_call": if g == usize::MAX { 0 } else { g }, "second_fault_call": second})
}

/// One faulted writer run checked against the fault-free reference. Returns (fingerprint suffix, message).
#[allow(clippy::too_many_arguments)]
fn check_writer(c: &WriterCase, r: &WriterRef, k: usize, f: Fault, persistent: bool, stop: bool, g: usize, second: Option<usize>) -> (Option<(String, String)>, String, bool) {
    let (res, bytes, _calls, nfired) = run_case2(c, Plan { at: k, fault: f, persistent }, second, stop, g);
    let class = res.class();
    let fired = nfired > 0;
    if let Some((step, p)) = res.panic() {
        let kind = if p == "HANG" { "hang".to_string() } else { p.to_string() };
        // a panic is identified by its call site: the zero-row-batch variants of a script share the class
        let base = ["-empty-only", "-empty-first", "-empty-last"].iter().find_map(|s| c.name.strip_suffix(s)).unwrap_or(c.name);
        return (Some((format!("{base}:{step}:{kind}"), format!("step {step} of {} panicked/hung: {p}; steps={:?}", c.name, res.steps))), class, fired);
    }
    let got = mask(&bytes, &r.sync);
    let want = mask(&r.bytes, &r.sync);
    if res.all_ok() && got != want {
        let d = got.iter().zip(&want).position(|(a, b)| a != b).unwrap_or(got.len().min(want.len()));
        return (
            Some((format!("{}:all-steps-ok-but-sink-content-differs", c.name), format!("every call returned Ok but the sink holds {} bytes vs {} fault-free, first difference at {d}; steps={:?}", got.len(), want.len(), res.steps))),
            class,
            fired,
        );
    }
    if stop {
        // bytes accepted up to the first reported error are a prefix of the fault-free output
        let upto = res.accepted_at_first_error.unwrap_or(got.len()).min(got.len());
        if got[..upto] != want[..upto.min(want.len())] || upto > want.len() {
            let d = got[..upto].iter().zip(&want).position(|(a, b)| a != b).unwrap_or(want.len().min(upto));
            return (
                Some((format!("{}:accepted-bytes-not-a-prefix-of-fault-free-output", c.name), format!("{} bytes accepted before the first reported error differ from the fault-free output at byte {d}; steps={:?}", upto, res.steps))),
                class,
                fired,
            );
        }
    }
    (None, class, fired)
}

// ------------------------------------------------------------------------------------------------

#[derive(Clone)]
struct ReaderCase {
    name: &'static str,
    /// footer formats must not report success with fewer rows
    footer: bool,
    data: Arc<Vec<u8>>,
    run: Arc<dyn Fn(Dev) -> ReadOutcome + Send + Sync>,
}

fn reader_cases(files: &std::collections::BTreeMap<&'static str, Vec<u8>>) -> Vec<ReaderCase> {
    let text_schema = batches(false).0.schema();
    let mk = |name: &'static str, footer: bool, file: &str, run: Arc<dyn Fn(Dev) -> ReadOutcome + Send + Sync>| ReaderCase { name, footer, data: Arc::new(files[file].clone()), run };
    let s1 = text_schema.clone();
    let s2 = text_schema.clone();
    vec![
        mk("ipc-file-reader", true, "ipc-file-writer", Arc::new(|d| ipc_file(d.open(0), false))),
        mk("ipc-file-reader-buffered", true, "ipc-file-writer", Arc::new(|d| ipc_file(d.open(0), true))),
        mk("ipc-stream-reader", false, "ipc-stream-writer", Arc::new(|d| ipc_stream(d.open(0), false))),
        mk("ipc-stream-reader-buffered", false, "ipc-stream-writer", Arc::new(|d| ipc_stream(d.open(0), true))),
        mk("avro-ocf-reader", false, "avro-ocf-writer", Arc::new(|d| avro_ocf(d.open(0)))),
        mk("csv-reader", false, "csv-writer", Arc::new(move |d| csv(d.open(0), s1.clone()))),
        mk("json-reader", false, "json-line-delimited-writer", Arc::new(move |d| json(d.open(0), s2.clone()))),
        mk("parquet-arrow-reader", true, "parquet-arrow-writer", Arc::new(|d| parquet_arrow(FaultyFile(d)))),
        mk("parquet-serialized-reader", true, "parquet-serialized-file-writer", Arc::new(|d| parquet_serialized(FaultyFile(d)))),
    ]
}

fn run_reader(c: &ReaderCase, plan: Plan, g: usize) -> (ReadOutcome, usize, usize) {
    let dev = Dev::new(c.data.clone(), plan, g);
    let o = (c.run)(dev.clone());
    (o, dev.calls.load(std::sync::atomic::Ordering::SeqCst), dev.fired.load(std::sync::atomic::Ordering::SeqCst))
}

fn is_prefix(a: &[String], b: &[String]) -> bool {
    a.len() <= b.len() && a[..] == b[..a.len()]
}

/// oracle for one faulted reader run
fn check_reader(c: &ReaderCase, reference: &ReadOutcome, f: Fault, persistent: bool, o: &ReadOutcome, fired: usize) -> Option<(String, String)> {
    if let Some(w) = &o.wf {
        return Some((format!("wf:{}", c.name), w.clone()));
    }
    if o.class.starts_with("panic") || o.class == "hang" {
        return Some((format!("{}:{}", c.name, o.class), o.msg.clone()));
    }
    // CSV is not self-delimiting: a file that ends early inside a record is a valid file whose last record is
    // shorter, so after a premature EOF the last delivered row is exempt
    let rows: &[String] = if c.name == "csv-reader" && f == Fault::Zero && !o.rows.is_empty() { &o.rows[..o.rows.len() - 1] } else { &o.rows };
    if !is_prefix(rows, &reference.rows) {
        return Some((format!("{}:rows-not-a-prefix-of-fault-free-rows", c.name), format!("rows {:?} vs fault-free {:?}", o.rows, reference.rows)));
    }
    if fired == 0 {
        // the plan never applied (call index past the calls this run made): must equal the fault-free run
        if o.class != reference.class || o.rows != reference.rows {
            return Some((format!("{}:differs-without-a-fault", c.name), format!("class {} rows {}", o.class, o.rows.len())));
        }
        return None;
    }
    match f {
        Fault::ErrOther => {
            if o.class == "ok" {
                return Some((format!("{}:read-error-swallowed", c.name), format!("a read call returned Err(Other) ({}) but the reader reported success with {} of {} rows", if persistent { "persistent" } else { "once" }, o.rows.len(), reference.rows.len())));
            }
        }
        Fault::ErrInterrupted | Fault::Short1 | Fault::ShortHalf => {
            if o.class == "ok" && o.rows != reference.rows {
                return Some((format!("{}:success-with-missing-rows-after-{}", c.name, fault_name(f)), format!("{} of {} rows and Ok", o.rows.len(), reference.rows.len())));
            }
        }
        Fault::Zero => {
            // premature end of file from this call on
            if c.footer && o.class == "ok" && o.rows != reference.rows {
                return Some((format!("{}:footer-format-success-with-missing-rows-after-premature-eof", c.name), format!("{} of {} rows and Ok", o.rows.len(), reference.rows.len())));
            }
        }
        _ => {}
    }
    None
}

// ------------------------------------------------------------------------------------------------
// truncation

#[derive(Clone)]
struct TruncCase {
    file: String,
    reader: &'static str,
    footer: bool,
    data: Arc<Vec<u8>>,
    /// lengths to cut at (all of 0..=len, except CSV: record boundaries only)
    lens: Arc<Vec<usize>>,
    run: Arc<dyn Fn(&[u8]) -> ReadOutcome + Send + Sync>,
}

fn csv_record_boundaries(d: &[u8]) -> Vec<usize> {
    let mut v = vec![0];
    let mut inq = false;
    for (i, &b) in d.iter().enumerate() {
        if b == b'"' {
            inq = !inq;
        }
        if b == b'\n' && !inq {
            v.push(i + 1);
        }
    }
    v
}

fn trunc_cases(files: &std::collections::BTreeMap<&'static str, Vec<u8>>, quick: bool) -> Vec<TruncCase> {
    let text_schema = batches(false).0.schema();
    let mut v = vec![];
    let all = |d: &[u8]| Arc::new((0..=d.len()).collect::<Vec<_>>());
    let mut add = |file: &str, reader: &'static str, footer: bool, data: &Vec<u8>, lens: Arc<Vec<usize>>, run: Arc<dyn Fn(&[u8]) -> ReadOutcome + Send + Sync>| {
        v.push(TruncCase { file: file.to_string(), reader, footer, data: Arc::new(data.clone()), lens, run });
    };
    let cur = |d: &[u8]| std::io::Cursor::new(d.to_vec());
    let names: Vec<&'static str> = files.keys().copied().collect();
    for f in names {
        let d = &files[f];
        if f.starts_with("ipc-file-writer") {
            add(f, "ipc-file-reader", true, d, all(d), Arc::new(move |p| ipc_file(cur(p), false)));
        } else if f.starts_with("ipc-stream-writer") {
            add(f, "ipc-stream-reader", false, d, all(d), Arc::new(move |p| ipc_stream(cur(p), false)));
            add(f, "ipc-stream-reader-buffered", false, d, all(d), Arc::new(move |p| ipc_stream(cur(p), true)));
            add(f, "ipc-stream-decoder", false, d, all(d), Arc::new(ipc_stream_decoder));
        } else if f.starts_with("parquet-") {
            if f != "parquet-serialized-file-writer" {
                add(f, "parquet-arrow-reader", true, d, all(d), Arc::new(|p| parquet_arrow(bytes::Bytes::copy_from_slice(p))));
            }
            add(f, "parquet-serialized-reader", true, d, all(d), Arc::new(|p| parquet_serialized(bytes::Bytes::copy_from_slice(p))));
            add(
                f,
                "parquet-metadata-push-decoder",
                true,
                d,
                all(d),
                Arc::new(|p| {
                    guarded(|o| {
                        let m = crate::c14::pqmeta::run_push(&bytes::Bytes::copy_from_slice(p), 1, &crate::c14::pqmeta::Policy::Exact);
                        o.class = if m.class == "ok" { "ok".into() } else if m.class.starts_with("err:") || m.class.starts_with("panic") { m.class.clone() } else { format!("err:{}", m.class) };
                        o.msg = m.msg.clone();
                        if let Some(md) = &m.meta {
                            // one "row" per row group: its row count
                            o.rows = md.row_groups().iter().map(|g| format!("row-group:{}", g.num_rows())).collect();
                        }
                    })
                }),
            );
        } else if f.starts_with("avro-ocf-writer") {
            add(f, "avro-ocf-reader", false, d, all(d), Arc::new(move |p| avro_ocf(cur(p))));
        }
    }
    {
        let d = &files["csv-writer"];
        let s = text_schema.clone();
        add("csv-writer", "csv-reader", false, d, Arc::new(csv_record_boundaries(d)), Arc::new(move |p| csv(cur(p), s.clone())));
    }
    {
        let d = &files["json-line-delimited-writer"];
        let s = text_schema.clone();
        add("json-line-delimited-writer", "json-reader", false, d, all(d), Arc::new(move |p| json(cur(p), s.clone())));
    }
    // the IPC stream corpus of C14 (dictionaries, nested, compressed, legacy framing)
    let fam = crate::c14::ipc::IpcFamily::new();
    for (name, d) in fam.corpus.iter() {
        if ["trailing-bytes-after-eos", "truncated-inside-last-body", "no-eos-marker"].contains(&name.as_str()) {
            continue;
        }
        if quick && d.len() > 1000 {
            continue;
        }
        add(&format!("c14-corpus:{name}"), "ipc-stream-reader", false, d, all(d), Arc::new(move |p| ipc_stream(cur(p), false)));
        add(&format!("c14-corpus:{name}"), "ipc-stream-decoder", false, d, all(d), Arc::new(ipc_stream_decoder));
    }
    v
}

fn check_trunc(c: &TruncCase, full: &ReadOutcome, l: usize, o: &ReadOutcome) -> Option<(String, String)> {
    let name = format!("truncation:{}", c.reader);
    if let Some(w) = &o.wf {
        return Some((format!("wf:{name}"), w.clone()));
    }
    if o.class.starts_with("panic") || o.class == "hang" {
        return Some((format!("{name}:{}", o.class), format!("prefix {l} of {}: {}", c.data.len(), o.msg)));
    }
    if !is_prefix(&o.rows, &full.rows) {
        return Some((format!("{name}:rows-that-were-not-written"), format!("prefix {l} of {} bytes of {}: rows {:?} are not a prefix of {:?}", c.data.len(), c.file, o.rows, full.rows)));
    }
    if l == c.data.len() {
        if o.class != full.class || o.rows != full.rows {
            return Some((format!("{name}:complete-file-differs"), String::new()));
        }
        return None;
    }
    if c.footer && o.class == "ok" {
        return Some((format!("{name}:truncated-footer-format-accepted"), format!("prefix {l} of {} bytes of {} read successfully ({} rows)", c.data.len(), c.file, o.rows.len())));
    }
    None
}

// ------------------------------------------------------------------------------------------------

fn replay(case: &Value) -> ! {
    println!("replay case: {case}");
    let sub = case["sub"].as_str().unwrap_or("");
    let files = fault_free_files();
    let mut failed = false;
    match sub {
        "writer" => {
            let cases = cases();
            let c = cases.iter().find(|c| Some(c.name) == case["writer"].as_str()).expect("writer");
            let g = match case["max_bytes_per_call"].as_u64().unwrap_or(0) {
                0 => usize::MAX,
                x => x as usize,
            };
            let (_, bytes, calls) = run_case(c, Plan::none(), false, usize::MAX);
            let r = WriterRef { sync: if c.deterministic { vec![] } else { avro_sync_positions(&bytes) }, bytes, calls: vec![calls] };
            let (k, f, p, stop) = (case["call"].as_u64().unwrap() as usize, fault_of(case["fault"].as_str().unwrap()), case["persistent"].as_bool().unwrap(), case["stop_at_error"].as_bool().unwrap());
            let second = case["second_fault_call"].as_u64().map(|x| x as usize);
            let (res, got, _, _) = run_case2(c, Plan { at: k, fault: f, persistent: p }, second, stop, g);
            println!("expectation: every call returns (no panic, no hang); all Ok => sink content equals the {} fault-free bytes; bytes accepted before the first error are a prefix of them ({} sink calls fault-free)", r.bytes.len(), calls);
            println!("observation: steps={:?} accepted={} bytes", res.steps, got.len());
            let (v, _, _) = check_writer(c, &r, k, f, p, stop, g, second);
            if let Some((fp, m)) = v {
                println!("replay outcome: VIOLATION {fp}: {m}");
                failed = true;
            }
        }
        "reader" => {
            let rc = reader_cases(&files);
            let c = rc.iter().find(|c| Some(c.name) == case["reader"].as_str()).expect("reader");
            let g = match case["max_bytes_per_call"].as_u64().unwrap_or(0) {
                0 => usize::MAX,
                x => x as usize,
            };
            let (reference, n, _) = run_reader(c, Plan::none(), usize::MAX);
            let (k, f, p) = (case["call"].as_u64().unwrap() as usize, fault_of(case["fault"].as_str().unwrap()), case["persistent"].as_bool().unwrap());
            let (o, _, fired) = run_reader(c, Plan { at: k, fault: f, persistent: p }, g);
            println!("expectation: fault-free run makes {n} read calls and returns class={} rows={}", reference.class, reference.rows.len());
            println!("observation: class={} rows={} msg={:?}", o.class, o.rows.len(), o.msg);
            if let Some((fp, m)) = check_reader(c, &reference, f, p, &o, fired) {
                println!("replay outcome: VIOLATION {fp}: {m}");
                failed = true;
            }
        }
        "truncation" => {
            let tc = trunc_cases(&files, false);
            let c = tc.iter().find(|c| Some(c.reader) == case["reader"].as_str() && Some(c.file.as_str()) == case["file"].as_str()).expect("case");
            let l = case["len"].as_u64().unwrap() as usize;
            let full = (c.run)(&c.data);
            let o = (c.run)(&c.data[..l]);
            println!("expectation: complete file ({} bytes) gives class={} rows={}; a proper prefix gives a row-wise prefix then Err/end of data (footer formats: Err)", c.data.len(), full.class, full.rows.len());
            println!("observation: prefix {l}: class={} rows={:?} msg={:?}", o.class, o.rows, o.msg);
            if let Some((fp, m)) = check_trunc(c, &full, l, &o) {
                println!("replay outcome: VIOLATION {fp}: {m}");
                failed = true;
            }
        }
        _ => {
            eprintln!("MACHINERY: unknown sub {sub:?}");
            std::process::exit(2)
        }
    }
    if !failed {
        println!("replay outcome: holds");
    }
    std::process::exit(if failed { 1 } else { 0 })
}

fn fault_free_files() -> std::collections::BTreeMap<&'static str, Vec<u8>> {
    let mut m = std::collections::BTreeMap::new();
    for c in cases() {
        let (res, bytes, _) = run_case(&c, Plan::none(), false, usize::MAX);
        if !res.all_ok() {
            eprintln!("MACHINERY: fault-free run of {} failed: {:?}", c.name, res.steps);
            std::process::exit(2);
        }
        let bytes = if !c.deterministic {
            // pin the random sync marker so that every run of the check sees the same file
            let pos = avro_sync_positions(&bytes);
            let mut b = bytes;
            for p in pos {
                b[p..p + 16].copy_from_slice(&crate::c14::avro::FIXED_SYNC);
            }
            b
        } else {
            bytes
        };
        m.insert(c.name, bytes);
    }
    m
}

pub fn run(ctx: &Ctx) -> ! {
    if let Some(case) = vcore::load_replay(ctx) {
        replay(&case);
    }
    let mut st = Stats::new();
    let quick = ctx.quick();

    // ---------------- writers
    let wcases = cases();
    let grans = granularities(quick);
    let mut refs: Vec<WriterRef> = vec![];
    for c in &wcases {
        let mut calls = vec![];
        let mut bytes0 = vec![];
        for (gi, &g) in grans.iter().enumerate() {
            let (res, bytes, n) = run_case(c, Plan::none(), false, g);
            if !res.all_ok() {
                eprintln!("MACHINERY: fault-free run of {} failed: {:?}", c.name, res.steps);
                std::process::exit(2);
            }
            // determinism of the fault-free output (the prefix oracle relies on it)
            let (_, again, n2) = run_case(c, Plan::none(), false, g);
            let sync = if c.deterministic { vec![] } else { avro_sync_positions(if gi == 0 { &bytes } else { &bytes0 }) };
            if mask(&again, &sync) != mask(&bytes, &sync) || n != n2 {
                eprintln!("MACHINERY: writer {} is not deterministic after masking; the prefix oracle does not apply", c.name);
                std::process::exit(2);
            }
            if gi == 0 {
                bytes0 = bytes;
            } else if mask(&bytes, &sync) != mask(&bytes0, &sync) {
                // a device that accepts at most g bytes per call is legal: every call returned Ok, yet the
                // content differs from what an unbounded device received
                let d = bytes.iter().zip(&bytes0).position(|(a, b)| a != b).unwrap_or(bytes.len().min(bytes0.len()));
                st.add(&format!("writer:{}", c.name), 1, 1);
                st.violate(
                    gi as u64,
                    format!("c18:{}:all-steps-ok-but-sink-content-differs", c.name),
                    format!("{}: no fault injected, sink accepts at most {g} bytes per write call: every call returned Ok but the sink holds {} bytes vs {} with an unbounded device, first difference at byte {d}", c.name, bytes.len(), bytes0.len()),
                    || writer_case_json(c, usize::MAX >> 1, Fault::None, false, true, g, None),
                );
            }
            calls.push(n);
        }
        let sync = if c.deterministic { vec![] } else { avro_sync_positions(&bytes0) };
        refs.push(WriterRef { bytes: bytes0, calls, sync });
    }
    let wmenu = write_menu();
    let mut wjobs: Vec<(usize, usize, u64)> = vec![]; // (case, granularity index, first)
    let mut first = 0u64;
    for (i, r) in refs.iter().enumerate() {
        for gi in 0..grans.len() {
            wjobs.push((i, gi, first));
            first += (r.calls[gi] * wmenu.len() * 2) as u64;
        }
    }
    let wfirsts: Vec<u64> = wjobs.iter().map(|j| j.2).collect();
    st.merge(par_for(ctx, "writers", first, 8, |idx, st| {
        let j = wjobs[wfirsts.partition_point(|&f| f <= idx) - 1];
        let c = &wcases[j.0];
        let r = &refs[j.0];
        let g = grans[j.1];
        let mut k = (idx - j.2) as usize;
        let stop = k % 2 == 0;
        k /= 2;
        let (f, persistent) = wmenu[k % wmenu.len()];
        let call = k / wmenu.len();
        let (v, class, fired) = check_writer(c, r, call, f, persistent, stop, g, None);
        st.add(&format!("writer:{}", c.name), 1, fired as u64);
        st.outcome(&format!("writer:{}", class));
        if let Some((fp, m)) = v {
            st.violate(idx, format!("c18:{fp}"), format!("{} call {call} fault {} persistent={persistent} stop_at_error={stop} max_bytes_per_call={}: {m}", c.name, fault_name(f), if g == usize::MAX { 0 } else { g }), || writer_case_json(c, call, f, persistent, stop, g, None));
        }
        if call == r.calls[j.1] / 2 && k % wmenu.len() == 0 && stop && j.1 == 0 {
            st.sample(&format!("writer:{}", c.name), || writer_case_json(c, call, f, persistent, stop, g, None));
        }
    }));
    let mut first = first;
    // ---------------- writers, pairs of faults (thorough): first fault once at k1, Err(Other) once at k2 > k1
    if !quick {
        let firsts_menu = [Fault::ErrOther, Fault::ErrInterrupted, Fault::ShortHalf];
        let mut pjobs: Vec<(usize, u64)> = vec![];
        let mut pfirst = 0u64;
        for (i, r) in refs.iter().enumerate() {
            let n = r.calls[0] as u64;
            pjobs.push((i, pfirst));
            pfirst += n * n.saturating_sub(1) / 2 * firsts_menu.len() as u64 * 2;
        }
        let pfirsts: Vec<u64> = pjobs.iter().map(|j| j.1).collect();
        let base = first;
        st.merge(par_for(ctx, "writers-fault-pairs", pfirst, 8, |idx, st| {
            let j = pjobs[pfirsts.partition_point(|&f| f <= idx) - 1];
            let c = &wcases[j.0];
            let r = &refs[j.0];
            let n = r.calls[0] as u64;
            let mut k = idx - j.1;
            let stop = k % 2 == 0;
            k /= 2;
            let f = firsts_menu[(k % 3) as usize];
            k /= 3;
            // unrank the pair (k1 < k2)
            let mut k1 = 0u64;
            loop {
                let row = n - 1 - k1;
                if k < row {
                    break;
                }
                k -= row;
                k1 += 1;
            }
            let k2 = k1 + 1 + k;
            let (v, class, fired) = check_writer(c, r, k1 as usize, f, false, stop, usize::MAX, Some(k2 as usize));
            st.add(&format!("writer-pairs:{}", c.name), 1, fired as u64);
            st.outcome(&format!("writer:{}", class));
            if let Some((fp, m)) = v {
                st.violate(base + idx, format!("c18:{fp}"), format!("{} calls {k1} ({}) and {k2} (err-other) stop_at_error={stop}: {m}", c.name, fault_name(f)), || writer_case_json(c, k1 as usize, f, false, stop, usize::MAX, Some(k2 as usize)));
            }
        }));
        first += pfirst;
    }
    let base_r = first;

    // ---------------- readers under faults
    let files: std::collections::BTreeMap<&'static str, Vec<u8>> = fault_free_files();
    let rcases = reader_cases(&files);
    let rmenu = read_menu();
    let mut rrefs = vec![];
    let mut rjobs: Vec<(usize, usize, u64)> = vec![];
    let mut first = 0u64;
    for (i, c) in rcases.iter().enumerate() {
        let mut per_g: Vec<(ReadOutcome, usize)> = vec![];
        for (gi, &g) in grans.iter().enumerate() {
            let (o, n, _) = run_reader(c, Plan::none(), g);
            if gi == 0 && (o.class != "ok" || o.rows.is_empty()) {
                eprintln!("MACHINERY: fault-free read with {} failed: {} {}", c.name, o.class, o.msg);
                std::process::exit(2);
            }
            if gi > 0 && (o.class != per_g[0].0.class || o.rows != per_g[0].0.rows) {
                // short reads are legal: the result must not depend on how many bytes a read call returns
                let first_ref: &(ReadOutcome, usize) = &per_g[0];
                st.add(&format!("reader:{}", c.name), 1, 1);
                st.violate(
                    base_r + gi as u64,
                    format!("c18:{}:result-depends-on-read-granularity", c.name),
                    format!("{}: no fault injected, source returns at most {g} bytes per read call: class={} rows={} msg={:?} vs class=ok rows={} with an unbounded source", c.name, o.class, o.rows.len(), o.msg, first_ref.0.rows.len()),
                    || json!({"sub": "reader", "reader": c.name, "call": usize::MAX >> 1, "fault": "none", "persistent": false, "max_bytes_per_call": g}),
                );
            }
            rjobs.push((i, gi, first));
            first += (n * rmenu.len()) as u64;
            per_g.push((o, n));
        }
        rrefs.push(per_g);
    }
    let rfirsts: Vec<u64> = rjobs.iter().map(|j| j.2).collect();
    st.merge(par_for(ctx, "readers", first, 8, |idx, st| {
        let j = rjobs[rfirsts.partition_point(|&f| f <= idx) - 1];
        let c = &rcases[j.0];
        let g = grans[j.1];
        let k = (idx - j.2) as usize;
        let (f, persistent) = rmenu[k % rmenu.len()];
        let call = k / rmenu.len();
        let (o, _, fired) = run_reader(c, Plan { at: call, fault: f, persistent }, g);
        st.add(&format!("reader:{}", c.name), 1, (fired > 0) as u64);
        st.outcome(&format!("reader:{}:{}", fault_name(f), o.class.split(':').take(2).collect::<Vec<_>>().join(":")));
        let cj = || json!({"sub": "reader", "reader": c.name, "call": call, "fault": fault_name(f), "persistent": persistent, "max_bytes_per_call": if g == usize::MAX { 0 } else { g }});
        if let Some((fp, m)) = check_reader(c, &rrefs[j.0][j.1].0, f, persistent, &o, fired) {
            st.violate(base_r + idx, format!("c18:{fp}"), format!("{} read call {call} fault {} persistent={persistent} max_bytes_per_call={}: {m}", c.name, fault_name(f), if g == usize::MAX { 0 } else { g }), cj);
        }
        if call == rrefs[j.0][j.1].1 / 2 && k % rmenu.len() == 0 && j.1 == 0 {
            st.sample(&format!("reader:{}", c.name), cj);
        }
    }));
    let base_t = base_r + first;

    // ---------------- truncation
    let tcases = trunc_cases(&files, quick);
    let mut tjobs: Vec<(usize, u64)> = vec![];
    let mut fulls = vec![];
    let mut first = 0u64;
    for (i, c) in tcases.iter().enumerate() {
        let full = (c.run)(&c.data);
        if full.class != "ok" {
            eprintln!("MACHINERY: reading the complete file {} with {} failed: {} {}", c.file, c.reader, full.class, full.msg);
            std::process::exit(2);
        }
        fulls.push(full);
        tjobs.push((i, first));
        first += c.lens.len() as u64;
    }
    let tfirsts: Vec<u64> = tjobs.iter().map(|j| j.1).collect();
    st.merge(par_for(ctx, "truncation", first, 16, |idx, st| {
        let j = tjobs[tfirsts.partition_point(|&f| f <= idx) - 1];
        let c = &tcases[j.0];
        let l = c.lens[(idx - j.1) as usize];
        let o = (c.run)(&c.data[..l]);
        st.add(&format!("truncation:{}", c.reader), 1, (l < c.data.len()) as u64);
        st.outcome(&format!("truncation:{}:{}", c.reader, if o.class == "ok" { if o.rows.len() == fulls[j.0].rows.len() { "ok-all-rows".to_string() } else { "ok-row-prefix".to_string() } } else { o.class.split(':').take(2).collect::<Vec<_>>().join(":") }));
        if let Some((fp, m)) = check_trunc(c, &fulls[j.0], l, &o) {
            st.violate(base_t + idx, format!("c18:{fp}"), m, || json!({"sub": "truncation", "reader": c.reader, "file": c.file, "len": l}));
        }
        if l == c.data.len() / 2 {
            st.sample(&format!("truncation:{}", c.reader), || json!({"sub": "truncation", "reader": c.reader, "file": c.file, "len": l}));
        }
    }));

    st.extra.insert(
        "writers".into(),
        json!(wcases.iter().zip(&refs).map(|(c, r)| json!({"writer": c.name, "sink_calls_per_granularity": r.calls, "bytes": r.bytes.len()})).collect::<Vec<_>>()),
    );
    st.extra.insert("readers".into(), json!(rcases.iter().zip(&rrefs).map(|(c, r)| json!({"reader": c.name, "read_calls_per_granularity": r.iter().map(|x| x.1).collect::<Vec<_>>(), "rows": r[0].0.rows.len()})).collect::<Vec<_>>()));
    st.extra.insert("truncation_cases".into(), json!(tcases.iter().map(|c| json!({"file": c.file, "reader": c.reader, "prefixes": c.lens.len()})).collect::<Vec<_>>()));
    st.extra.insert("granularities_max_bytes_per_call".into(), json!(grans.iter().map(|&g| if g == usize::MAX { "unbounded".to_string() } else { g.to_string() }).collect::<Vec<_>>()));
    st.extra.insert("write_fault_menu".into(), json!(wmenu.iter().map(|(f, p)| format!("{}{}", fault_name(*f), if *p { "(persistent)" } else { "(once)" })).collect::<Vec<_>>()));
    st.extra.insert("read_fault_menu".into(), json!(rmenu.iter().map(|(f, p)| format!("{}{}", fault_name(*f), if *p { "(persistent)" } else { "(once)" })).collect::<Vec<_>>()));

    vcore::finish(
        ctx,
        Level {
            category: "fault_enumeration",
            rule: "complete products: writers = (writer script) x (device granularity: unbounded | at most 13 bytes per call) x (every sink call index k < n of the fault-free run) x (fault menu, once/persistent) x (stop at the first reported error | continue the script); readers = (reader) x (device granularity) x (every read call index k < n) x (fault menu); truncation = (file) x (reader of that format) x (every prefix length 0..=len; CSV: every record boundary). Every tuple is a distinct case; a faulted case is non-trivial when an injected fault actually fired (e.g. a short write planned on a flush call does not), a truncation case when the prefix is proper".into(),
            assumptions: vec![
                "persistent Interrupted on a sink is excluded: std::io::Write::write_all is specified to retry Interrupted, so such a sink blocks any correct writer".into(),
                "a spurious Ok(0) from a source followed by more data (Zero once) is excluded: Read documents Ok(0) as end of file; Zero is only injected persistently (= the file ends at that call)".into(),
                "oracle 'all calls Ok => sink content equals the fault-free bytes' and 'bytes accepted before the first reported error are a prefix of the fault-free bytes'; what a writer does to the sink after it has reported an error (e.g. into_inner writing an end-of-stream marker) is only checked for panics and hangs".into(),
                "Avro OCF: the 16-byte random sync marker is masked at its (deterministic) positions before comparing".into(),
                "CSV truncation only at record boundaries (a CSV record cut mid-field is a different valid record; CSV is not listed as self-delimiting by the property)".into(),
                "readers: Err(Other) must surface as Err; Interrupted and short reads must give Err or the fault-free rows; premature EOF gives a row-wise prefix (footer formats: never Ok with missing rows)".into(),
            ],
            exhaustive_space: "property quantifier: every index of write/flush/read call at which an error, short read/write or Interrupted is injected; every truncation length 0..=len of every produced file".into(),
        },
        st,
    )
}
