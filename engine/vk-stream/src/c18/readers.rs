//! Readers under injected source faults, and readers over truncated files.
use crate::common::{render_batch, variant_of};
use arrow_array::RecordBatch;
use arrow_schema::{ArrowError, SchemaRef};
use bytes::Bytes;
use parquet::file::reader::{ChunkReader, Length};
use std::io::{self, BufReader, Read, Seek, SeekFrom};
use std::sync::Arc;
use std::sync::atomic::{AtomicUsize, Ordering};
use vcore::catch;
use vcore::fault::{FaultySource, Plan};

pub const HANG_LIMIT: usize = 200_000;

/// FaultySource with a shared call counter (so that several handles on one "file" share the fault plan) and a
/// step limit that converts an endless retry loop into a classified panic.
pub struct Src {
    pub inner: FaultySource,
    /// the device returns at most this many bytes per read call (a legal short read)
    pub max_read: usize,
}
/// shared state of all handles on one faulty "file"
#[derive(Clone)]
pub struct Dev {
    pub data: Arc<Vec<u8>>,
    pub plan: Plan,
    pub calls: Arc<AtomicUsize>,
    pub fired: Arc<AtomicUsize>,
    pub max_read: usize,
}
impl Dev {
    pub fn new(data: Arc<Vec<u8>>, plan: Plan, max_read: usize) -> Self {
        Dev { data, plan, calls: Default::default(), fired: Default::default(), max_read }
    }
    pub fn open(&self, pos: usize) -> Src {
        Src { inner: FaultySource { data: self.data.clone(), pos, calls: self.calls.clone(), faults_fired: self.fired.clone(), plan: self.plan.clone() }, max_read: self.max_read }
    }
}
impl Read for Src {
    fn read(&mut self, buf: &mut [u8]) -> io::Result<usize> {
        if self.inner.calls.load(Ordering::SeqCst) > HANG_LIMIT {
            panic!("HANG-GUARD: more than {HANG_LIMIT} read calls");
        }
        let k = buf.len().min(self.max_read);
        self.inner.read(&mut buf[..k])
    }
}
impl Seek for Src {
    fn seek(&mut self, pos: SeekFrom) -> io::Result<u64> {
        self.inner.seek(pos)
    }
}

#[derive(Clone, Debug, Default)]
pub struct ReadOutcome {
    pub rows: Vec<String>,
    /// ok | err:<Variant> | panic:<fp> | hang
    pub class: String,
    pub msg: String,
    pub wf: Option<String>,
}
impl ReadOutcome {
    fn push(&mut self, b: &RecordBatch) {
        if let Some(w) = render_batch(b, &mut self.rows) {
            self.wf.get_or_insert(w);
        }
    }
    fn fail<E: std::fmt::Debug + std::fmt::Display>(&mut self, e: &E) {
        self.class = format!("err:{}", variant_of(e));
        self.msg = e.to_string();
    }
}

fn drain<I: Iterator<Item = Result<RecordBatch, ArrowError>>>(o: &mut ReadOutcome, it: I) {
    let mut n = 0;
    for b in it {
        n += 1;
        if n > 100_000 {
            o.class = "hang".into();
            return;
        }
        match b {
            Ok(b) => o.push(&b),
            Err(e) => {
                o.fail(&e);
                return;
            }
        }
    }
}

pub fn guarded(f: impl FnOnce(&mut ReadOutcome)) -> ReadOutcome {
    let mut o = ReadOutcome { class: "ok".into(), ..Default::default() };
    match catch(|| {
        let mut o2 = ReadOutcome { class: "ok".into(), ..Default::default() };
        f(&mut o2);
        o2
    }) {
        Ok(r) => o = r,
        Err(p) => {
            o.class = if p.msg.starts_with("HANG-GUARD") { "hang".into() } else { format!("panic:{}", p.fingerprint()) };
            o.msg = format!("{} at {}:{}", p.msg, p.file, p.line);
        }
    }
    o
}

// ---- readers over any Read(+Seek)

pub fn ipc_file<R: Read + Seek>(src: R, buffered: bool) -> ReadOutcome {
    guarded(|o| {
        if buffered {
            match arrow_ipc::reader::FileReader::try_new_buffered(src, None) {
                Ok(r) => drain(o, r),
                Err(e) => o.fail(&e),
            }
        } else {
            match arrow_ipc::reader::FileReader::try_new(src, None) {
                Ok(r) => drain(o, r),
                Err(e) => o.fail(&e),
            }
        }
    })
}
pub fn ipc_stream<R: Read>(src: R, buffered: bool) -> ReadOutcome {
    guarded(|o| {
        if buffered {
            match arrow_ipc::reader::StreamReader::try_new_buffered(src, None) {
                Ok(r) => drain(o, r),
                Err(e) => o.fail(&e),
            }
        } else {
            match arrow_ipc::reader::StreamReader::try_new(src, None) {
                Ok(r) => drain(o, r),
                Err(e) => o.fail(&e),
            }
        }
    })
}
pub fn avro_ocf<R: Read>(src: R) -> ReadOutcome {
    guarded(|o| match arrow_avro::reader::ReaderBuilder::new().build(BufReader::new(src)) {
        Ok(r) => drain(o, r),
        Err(e) => o.fail(&e),
    })
}
pub fn csv<R: Read>(src: R, schema: SchemaRef) -> ReadOutcome {
    guarded(|o| match arrow_csv::ReaderBuilder::new(schema).with_header(true).build(src) {
        Ok(r) => drain(o, r),
        Err(e) => o.fail(&e),
    })
}
pub fn json<R: Read>(src: R, schema: SchemaRef) -> ReadOutcome {
    guarded(|o| match arrow_json::ReaderBuilder::new(schema).build(BufReader::new(src)) {
        Ok(r) => drain(o, r),
        Err(e) => o.fail(&e),
    })
}

// ---- Parquet through a fault-injecting ChunkReader

pub struct FaultyFile(pub Dev);
impl Length for FaultyFile {
    fn len(&self) -> u64 {
        self.0.data.len() as u64
    }
}
impl ChunkReader for FaultyFile {
    type T = Src;
    fn get_read(&self, start: u64) -> parquet::errors::Result<Src> {
        Ok(self.0.open(start as usize))
    }
    fn get_bytes(&self, start: u64, length: usize) -> parquet::errors::Result<Bytes> {
        // same shape as the implementation for std::fs::File
        let mut buffer = Vec::with_capacity(length);
        let reader = self.get_read(start)?;
        let read = reader.take(length as u64).read_to_end(&mut buffer)?;
        if read != length {
            return Err(parquet::errors::ParquetError::EOF(format!("Expected to read {length} bytes, read only {read}")));
        }
        Ok(buffer.into())
    }
}

pub fn parquet_arrow<C: ChunkReader + 'static>(file: C) -> ReadOutcome {
    guarded(|o| match parquet::arrow::arrow_reader::ParquetRecordBatchReaderBuilder::try_new(file) {
        Ok(b) => match b.with_batch_size(2).build() {
            Ok(r) => drain(o, r),
            Err(e) => o.fail(&e),
        },
        Err(e) => o.fail(&e),
    })
}

pub fn parquet_serialized<C: ChunkReader + 'static>(file: C) -> ReadOutcome {
    use parquet::file::reader::{FileReader, SerializedFileReader};
    guarded(|o| match SerializedFileReader::new(file) {
        Ok(r) => match r.get_row_iter(None) {
            Ok(it) => {
                for row in it {
                    match row {
                        Ok(row) => o.rows.push(row.to_string()),
                        Err(e) => {
                            o.fail(&e);
                            return;
                        }
                    }
                }
            }
            Err(e) => o.fail(&e),
        },
        Err(e) => o.fail(&e),
    })
}

/// IPC stream through the push decoder in one chunk
pub fn ipc_stream_decoder(data: &[u8]) -> ReadOutcome {
    guarded(|o| {
        let mut dec = arrow_ipc::reader::StreamDecoder::new();
        let mut buf = arrow_buffer::Buffer::from(data);
        while !buf.is_empty() {
            match dec.decode(&mut buf) {
                Ok(Some(b)) => o.push(&b),
                Ok(None) => {}
                Err(e) => {
                    o.fail(&e);
                    return;
                }
            }
        }
        if let Err(e) = dec.finish() {
            o.fail(&e);
        }
    })
}
