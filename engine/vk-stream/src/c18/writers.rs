//! Writers under injected sink faults.
use arrow_array::types::Int32Type;
use arrow_array::{ArrayRef, BooleanArray, DictionaryArray, Int32Array, RecordBatch, StringArray};
use arrow_schema::{DataType, Field, Schema};
use std::io::{self, Seek, SeekFrom, Write};
use std::sync::Arc;
use std::sync::atomic::{AtomicUsize, Ordering};
use vcore::catch;
use vcore::fault::{FaultySink, Plan};

pub const HANG_LIMIT: usize = 50_000;

/// FaultySink plus a step counter that turns a writer looping forever into a panic we can classify.
#[derive(Clone)]
pub struct GuardSink {
    pub inner: FaultySink,
    pub steps: Arc<AtomicUsize>,
    /// the device accepts at most this many bytes per write call (a legal short write)
    pub max_write: usize,
    /// a second, independent fault: call index at which the sink answers Err(Other) once
    pub second: Option<usize>,
}
impl GuardSink {
    pub fn new(plan: Plan, max_write: usize) -> Self {
        GuardSink { inner: FaultySink::new(plan), steps: Default::default(), max_write, second: None }
    }
    /// Err(..) when this call is the second planned fault
    fn tick(&self) -> io::Result<()> {
        let call = self.steps.fetch_add(1, Ordering::SeqCst);
        if call > HANG_LIMIT {
            panic!("HANG-GUARD: more than {HANG_LIMIT} sink calls");
        }
        if self.second == Some(call) {
            self.inner.calls.fetch_add(1, Ordering::SeqCst); // keep the call numbering of the inner sink aligned
            self.inner.faults_fired.fetch_add(1, Ordering::SeqCst);
            return Err(io::Error::other("injected second fault"));
        }
        Ok(())
    }
}
impl Write for GuardSink {
    fn write(&mut self, buf: &[u8]) -> io::Result<usize> {
        self.tick()?;
        let k = buf.len().min(self.max_write);
        self.inner.write(&buf[..k])
    }
    fn flush(&mut self) -> io::Result<()> {
        self.tick()?;
        self.inner.flush()
    }
}
impl Seek for GuardSink {
    fn seek(&mut self, pos: SeekFrom) -> io::Result<u64> {
        self.inner.seek(pos)
    }
}

pub fn batches(dict: bool) -> (RecordBatch, RecordBatch) {
    let mut fields = vec![Field::new("i", DataType::Int32, true), Field::new("s", DataType::Utf8, true), Field::new("b", DataType::Boolean, true)];
    if dict {
        fields.push(Field::new("d", DataType::Dictionary(Box::new(DataType::Int32), Box::new(DataType::Utf8)), true));
    }
    let schema = Arc::new(Schema::new(fields));
    // one shared dictionary for both batches (the IPC file format does not allow dictionary replacement)
    let values: ArrayRef = Arc::new(StringArray::from(vec!["k1", "k2", "k3"]));
    let mk = |i: Vec<Option<i32>>, s: Vec<Option<&str>>, b: Vec<Option<bool>>, d: Vec<Option<&str>>| {
        let mut cols: Vec<ArrayRef> = vec![Arc::new(Int32Array::from(i)), Arc::new(StringArray::from(s)), Arc::new(BooleanArray::from(b))];
        if dict {
            let keys = Int32Array::from(d.iter().map(|v| v.map(|x| ["k1", "k2", "k3"].iter().position(|k| *k == x).unwrap() as i32)).collect::<Vec<_>>());
            cols.push(Arc::new(DictionaryArray::<Int32Type>::try_new(keys, values.clone()).unwrap()));
        }
        RecordBatch::try_new(schema.clone(), cols).unwrap()
    };
    (
        mk(vec![Some(1), None, Some(-3)], vec![Some("a"), Some("b,\"c\""), None], vec![Some(true), Some(false), None], vec![Some("k1"), Some("k2"), Some("k1")]),
        mk(vec![Some(40), Some(50)], vec![Some("\u{e9}\u{1F600}"), Some("")], vec![None, Some(true)], vec![Some("k3"), None]),
    )
}

#[derive(Clone, Debug, PartialEq)]
pub enum StepRes {
    Ok,
    Err(String),
    Panic(String),
    Skipped,
}

#[derive(Debug, Clone)]
pub struct ScriptResult {
    pub steps: Vec<(&'static str, StepRes)>,
    /// bytes the sink had accepted when the first error was reported (None: no error reported)
    pub accepted_at_first_error: Option<usize>,
}
impl ScriptResult {
    pub fn all_ok(&self) -> bool {
        self.steps.iter().all(|s| s.1 == StepRes::Ok)
    }
    pub fn panic(&self) -> Option<(&'static str, &str)> {
        self.steps.iter().find_map(|s| if let StepRes::Panic(p) = &s.1 { Some((s.0, p.as_str())) } else { None })
    }
    pub fn class(&self) -> String {
        self.steps
            .iter()
            .map(|s| match &s.1 {
                StepRes::Ok => "o".to_string(),
                StepRes::Err(_) => "E".to_string(),
                StepRes::Panic(_) => "P".to_string(),
                StepRes::Skipped => "-".to_string(),
            })
            .collect()
    }
}

pub struct Runner {
    pub res: ScriptResult,
    pub stop_at_error: bool,
    failed: bool,
    dead: bool,
    probe: FaultySink,
}
impl Runner {
    pub fn new(probe: FaultySink, stop_at_error: bool) -> Self {
        Runner { res: ScriptResult { steps: vec![], accepted_at_first_error: None }, stop_at_error, failed: false, dead: false, probe }
    }
    fn exec<T, E: std::fmt::Debug + std::fmt::Display>(&mut self, name: &'static str, always: bool, f: impl FnOnce() -> Result<T, E>) -> Option<T> {
        if self.dead || (self.failed && self.stop_at_error && !always) {
            self.res.steps.push((name, StepRes::Skipped));
            return None;
        }
        match catch(f) {
            Ok(Ok(v)) => {
                self.res.steps.push((name, StepRes::Ok));
                Some(v)
            }
            Ok(Err(e)) => {
                if !self.failed {
                    self.res.accepted_at_first_error = Some(self.probe.bytes().len());
                }
                self.failed = true;
                self.res.steps.push((name, StepRes::Err(format!("{}: {}", crate::common::variant_of(&e), e))));
                None
            }
            Err(p) => {
                self.dead = true;
                let fp = if p.msg.starts_with("HANG-GUARD") { "HANG".to_string() } else { norm_panic(&p.fingerprint()) };
                self.res.steps.push((name, StepRes::Panic(fp)));
                None
            }
        }
    }
    pub fn step<T, E: std::fmt::Debug + std::fmt::Display>(&mut self, name: &'static str, f: impl FnOnce() -> Result<T, E>) -> Option<T> {
        self.exec(name, false, f)
    }
    /// runs even after a reported error (what an application does to get its sink back)
    pub fn always<T, E: std::fmt::Debug + std::fmt::Display>(&mut self, name: &'static str, f: impl FnOnce() -> Result<T, E>) -> Option<T> {
        self.exec(name, true, f)
    }
}

/// class-level panic identity: the payload of an unwrapped Err (which names the injected error kind) is cut off
pub fn norm_panic(fp: &str) -> String {
    for marker in ["on an `Err` value", "on a `None` value"] {
        if let Some(i) = fp.find(marker) {
            return fp[..i + marker.len()].to_string();
        }
    }
    fp.to_string()
}

type NoErr = std::convert::Infallible;

pub struct WriterCase {
    pub name: &'static str,
    pub deterministic: bool,
    pub run: fn(&mut Runner, GuardSink),
}

fn ipc_file(r: &mut Runner, sink: GuardSink) {
    let (b1, b2) = batches(true);
    let Some(mut w) = r.step("new", || arrow_ipc::writer::FileWriter::try_new(sink, &b1.schema())) else { return };
    r.step("write1", || w.write(&b1));
    r.step("flush", || w.flush());
    r.step("write2", || w.write(&b2));
    r.step("finish", || w.finish());
    r.always("into_inner", move || w.into_inner().map(|_| ()));
}
fn ipc_file_buffered(r: &mut Runner, sink: GuardSink) {
    let (b1, b2) = batches(true);
    let Some(mut w) = r.step("new", || arrow_ipc::writer::FileWriter::try_new_buffered(sink, &b1.schema())) else { return };
    r.step("write1", || w.write(&b1));
    r.step("flush", || w.flush());
    r.step("write2", || w.write(&b2));
    r.step("finish", || w.finish());
    r.always("into_inner", move || w.into_inner().map(|_| ()));
}
fn ipc_stream(r: &mut Runner, sink: GuardSink) {
    let (b1, b2) = batches(true);
    let Some(mut w) = r.step("new", || arrow_ipc::writer::StreamWriter::try_new(sink, &b1.schema())) else { return };
    r.step("write1", || w.write(&b1));
    r.step("flush", || w.flush());
    r.step("write2", || w.write(&b2));
    r.step("finish", || w.finish());
    r.always("into_inner", move || w.into_inner().map(|_| ()));
}
fn ipc_stream_buffered(r: &mut Runner, sink: GuardSink) {
    let (b1, b2) = batches(true);
    let Some(mut w) = r.step("new", || arrow_ipc::writer::StreamWriter::try_new_buffered(sink, &b1.schema())) else { return };
    r.step("write1", || w.write(&b1));
    r.step("flush", || w.flush());
    r.step("write2", || w.write(&b2));
    r.step("finish", || w.finish());
    r.always("into_inner", move || w.into_inner().map(|_| ()));
}

fn ipc_stream_zstd(r: &mut Runner, sink: GuardSink) {
    let (b1, b2) = batches(true);
    let opts = arrow_ipc::writer::IpcWriteOptions::default().try_with_compression(Some(arrow_ipc::CompressionType::ZSTD)).unwrap();
    let Some(mut w) = r.step("new", || arrow_ipc::writer::StreamWriter::try_new_with_options(sink, &b1.schema(), opts)) else { return };
    r.step("write1", || w.write(&b1));
    r.step("write2", || w.write(&b2));
    r.step("finish", || w.finish());
    r.always("into_inner", move || w.into_inner().map(|_| ()));
}
fn ipc_file_lz4(r: &mut Runner, sink: GuardSink) {
    let (b1, b2) = batches(true);
    let opts = arrow_ipc::writer::IpcWriteOptions::default().try_with_compression(Some(arrow_ipc::CompressionType::LZ4_FRAME)).unwrap();
    let Some(mut w) = r.step("new", || arrow_ipc::writer::FileWriter::try_new_with_options(sink, &b1.schema(), opts)) else { return };
    r.step("write1", || w.write(&b1));
    r.step("write2", || w.write(&b2));
    r.step("finish", || w.finish());
    r.always("into_inner", move || w.into_inner().map(|_| ()));
}
fn parquet_arrow_snappy(r: &mut Runner, sink: GuardSink) {
    let (b1, b2) = batches(false);
    let props = parquet::file::properties::WriterProperties::builder().set_created_by("verif".into()).set_compression(parquet::basic::Compression::SNAPPY).set_max_row_group_row_count(Some(2)).build();
    let Some(mut w) = r.step("new", || parquet::arrow::ArrowWriter::try_new(sink, b1.schema(), Some(props))) else { return };
    r.step("write1", || w.write(&b1));
    r.step("write2", || w.write(&b2));
    r.always("close", move || w.close().map(|_| ()));
}
fn avro_ocf_deflate(r: &mut Runner, sink: GuardSink) {
    let (b1, b2) = batches(false);
    let Some(mut w) = r.step("new", || arrow_avro::writer::WriterBuilder::new(b1.schema().as_ref().clone()).with_compression(Some(arrow_avro::compression::CompressionCodec::Deflate)).build::<_, arrow_avro::writer::format::AvroOcfFormat>(sink)) else { return };
    r.step("write1", || w.write(&b1));
    r.step("write2", || w.write(&b2));
    r.step("finish", || w.finish());
    r.always("into_inner", move || Ok::<(), NoErr>(drop(w.into_inner())));
}

/// batches whose body buffers have lengths 1, 3, 5, 9, 12 ... bytes: every buffer is followed by a non-empty
/// alignment padding write, for alignment 8 as well as 64
pub fn odd_batches() -> (RecordBatch, RecordBatch) {
    use arrow_array::{BinaryArray, Int8Array};
    let schema = Arc::new(Schema::new(vec![
        Field::new("t", DataType::Int8, true),
        Field::new("s", DataType::Utf8, true),
        Field::new("y", DataType::Binary, false),
        Field::new("b", DataType::Boolean, false),
    ]));
    let mk = |t: Vec<Option<i8>>, s: Vec<Option<&str>>, y: Vec<&[u8]>, b: Vec<bool>| {
        RecordBatch::try_new(schema.clone(), vec![Arc::new(Int8Array::from(t)) as ArrayRef, Arc::new(StringArray::from(s)), Arc::new(BinaryArray::from(y)), Arc::new(BooleanArray::from(b))]).unwrap()
    };
    (
        mk(vec![Some(1), None, Some(-3)], vec![Some("ab"), None, Some("cde")], vec![b"123456789", b"", b""], vec![true, false, true]),
        mk(vec![Some(7)], vec![Some("x")], vec![b"zzz"], vec![false]),
    )
}
fn ipc_odd<const FILE: bool, const ALIGN: usize>(r: &mut Runner, sink: GuardSink) {
    let (b1, b2) = odd_batches();
    let opts = arrow_ipc::writer::IpcWriteOptions::try_new(ALIGN, false, arrow_ipc::MetadataVersion::V5).unwrap();
    if FILE {
        let Some(mut w) = r.step("new", || arrow_ipc::writer::FileWriter::try_new_with_options(sink, &b1.schema(), opts)) else { return };
        r.step("write1", || w.write(&b1));
        r.step("write2", || w.write(&b2));
        r.step("finish", || w.finish());
        r.always("into_inner", move || w.into_inner().map(|_| ()));
    } else {
        let Some(mut w) = r.step("new", || arrow_ipc::writer::StreamWriter::try_new_with_options(sink, &b1.schema(), opts)) else { return };
        r.step("write1", || w.write(&b1));
        r.step("write2", || w.write(&b2));
        r.step("finish", || w.finish());
        r.always("into_inner", move || w.into_inner().map(|_| ()));
    }
}

pub fn pq_props() -> parquet::file::properties::WriterProperties {
    parquet::file::properties::WriterProperties::builder().set_created_by("verif".into()).set_data_page_row_count_limit(2).set_write_batch_size(1).build()
}
fn parquet_arrow(r: &mut Runner, sink: GuardSink) {
    let (b1, b2) = batches(false);
    let Some(mut w) = r.step("new", || parquet::arrow::ArrowWriter::try_new(sink, b1.schema(), Some(pq_props()))) else { return };
    r.step("write1", || w.write(&b1));
    r.step("flush", || w.flush());
    r.step("write2", || w.write(&b2));
    // finish() finalizes the file; into_inner()/close() are alternatives to it, not follow-ups
    r.always("finish", || w.finish().map(|_| ()));
}
fn parquet_arrow_into_inner(r: &mut Runner, sink: GuardSink) {
    let (b1, b2) = batches(false);
    let Some(mut w) = r.step("new", || parquet::arrow::ArrowWriter::try_new(sink, b1.schema(), Some(pq_props()))) else { return };
    r.step("write1", || w.write(&b1));
    r.step("write2", || w.write(&b2));
    r.always("into_inner", move || w.into_inner().map(|_| ()));
}
fn parquet_arrow_close(r: &mut Runner, sink: GuardSink) {
    let (b1, b2) = batches(false);
    let Some(mut w) = r.step("new", || parquet::arrow::ArrowWriter::try_new(sink, b1.schema(), Some(pq_props()))) else { return };
    r.step("write1", || w.write(&b1));
    r.step("write2", || w.write(&b2));
    r.always("close", move || w.close().map(|_| ()));
}
fn parquet_serialized(r: &mut Runner, sink: GuardSink) {
    use parquet::data_type::Int32Type as PInt32;
    use parquet::file::writer::SerializedFileWriter;
    use parquet::schema::parser::parse_message_type;
    let schema = Arc::new(parse_message_type("message m { REQUIRED INT32 a; OPTIONAL INT32 b; }").unwrap());
    let props = Arc::new(pq_props());
    let Some(mut w) = r.step("new", || SerializedFileWriter::new(sink, schema, props)) else { return };
    for (rg, vals) in [(0, vec![1, 2, 3]), (1, vec![4, 5])] {
        let name: (&'static str, &'static str) = if rg == 0 { ("row-group1", "rg1-close") } else { ("row-group2", "rg2-close") };
        let mut ok = true;
        r.step(name.0, || -> parquet::errors::Result<()> {
            let mut g = w.next_row_group()?;
            let mut first = true;
            while let Some(mut c) = g.next_column()? {
                if first {
                    c.typed::<PInt32>().write_batch(&vals, None, None)?;
                } else {
                    let defs: Vec<i16> = vals.iter().map(|v| (v % 2) as i16).collect();
                    let nn: Vec<i32> = vals.iter().filter(|v| *v % 2 == 1).copied().collect();
                    c.typed::<PInt32>().write_batch(&nn, Some(&defs), None)?;
                }
                first = false;
                c.close()?;
            }
            g.close()?;
            Ok(())
        })
        .unwrap_or_else(|| ok = false);
        let _ = (name.1, ok);
    }
    r.always("close", move || w.close().map(|_| ()));
}

fn avro_ocf(r: &mut Runner, sink: GuardSink) {
    let (b1, b2) = batches(false);
    let Some(mut w) = r.step("new", || arrow_avro::writer::AvroWriter::new(sink, b1.schema().as_ref().clone())) else { return };
    r.step("write1", || w.write(&b1));
    r.step("write2", || w.write(&b2));
    r.step("finish", || w.finish());
    r.always("into_inner", move || Ok::<(), NoErr>(drop(w.into_inner())));
}
fn avro_soe(r: &mut Runner, sink: GuardSink) {
    use arrow_avro::writer::format::AvroSoeFormat;
    let (b1, b2) = batches(false);
    let Some(mut w) = r.step("new", || arrow_avro::writer::WriterBuilder::new(b1.schema().as_ref().clone()).build::<_, AvroSoeFormat>(sink)) else { return };
    r.step("write1", || w.write(&b1));
    r.step("write2", || w.write(&b2));
    r.step("finish", || w.finish());
    r.always("into_inner", move || Ok::<(), NoErr>(drop(w.into_inner())));
}
fn csv(r: &mut Runner, sink: GuardSink) {
    let (b1, b2) = batches(false);
    let mut w = arrow_csv::WriterBuilder::new().with_header(true).build(sink);
    r.step("write1", || w.write(&b1));
    r.step("write2", || w.write(&b2));
    r.always("into_inner", move || Ok::<(), NoErr>(drop(w.into_inner())));
}
fn json_lines(r: &mut Runner, sink: GuardSink) {
    let (b1, b2) = batches(false);
    let mut w = arrow_json::LineDelimitedWriter::new(sink);
    r.step("write1", || w.write(&b1));
    r.step("write2", || w.write(&b2));
    r.step("finish", || w.finish());
    r.always("into_inner", move || Ok::<(), NoErr>(drop(w.into_inner())));
}
fn json_array(r: &mut Runner, sink: GuardSink) {
    let (b1, b2) = batches(false);
    let mut w = arrow_json::ArrayWriter::new(sink);
    r.step("write1", || w.write(&b1));
    r.step("write2", || w.write(&b2));
    r.step("finish", || w.finish());
    r.always("into_inner", move || Ok::<(), NoErr>(drop(w.into_inner())));
}

/// `AsyncArrowWriter` over an `AsyncFileWriter` that forwards to the faulty sink; futures are driven by
/// `futures::executor::block_on` (nothing is ever pending).
pub struct AsyncSink(pub GuardSink);
impl parquet::arrow::async_writer::AsyncFileWriter for AsyncSink {
    fn write(&mut self, bs: bytes::Bytes) -> futures::future::BoxFuture<'_, parquet::errors::Result<()>> {
        use futures::FutureExt;
        async move {
            self.0.write_all(&bs)?;
            Ok(())
        }
        .boxed()
    }
    fn complete(&mut self) -> futures::future::BoxFuture<'_, parquet::errors::Result<()>> {
        use futures::FutureExt;
        async move {
            self.0.flush()?;
            Ok(())
        }
        .boxed()
    }
}
fn parquet_async(r: &mut Runner, sink: GuardSink) {
    use futures::executor::block_on;
    let (b1, b2) = batches(false);
    let Some(mut w) = r.step("new", || parquet::arrow::AsyncArrowWriter::try_new(AsyncSink(sink), b1.schema(), Some(pq_props()))) else { return };
    r.step("write1", || block_on(w.write(&b1)));
    r.step("flush", || block_on(w.flush()));
    r.step("write2", || block_on(w.write(&b2)));
    r.always("close", move || block_on(w.close()).map(|_| ()));
}

/// Batch sequences with zero-row batches: SEQ 1 = [empty], 2 = [empty, b1], 3 = [b1, empty]. A writer that
/// emits a header or schema before the first row has to push it to the sink (and report a fault there)
/// also when no row follows.
fn seq_batches(seq: u8, dict: bool) -> Vec<RecordBatch> {
    let (b1, _) = batches(dict);
    let e = b1.slice(0, 0);
    match seq {
        1 => vec![e],
        2 => vec![e, b1],
        _ => vec![b1, e],
    }
}
const WRITE_STEPS: [&str; 2] = ["write1", "write2"];
fn csv_seq<const SEQ: u8>(r: &mut Runner, sink: GuardSink) {
    let bs = seq_batches(SEQ, false);
    let mut w = arrow_csv::WriterBuilder::new().with_header(true).build(sink);
    for (i, b) in bs.iter().enumerate() {
        r.step(WRITE_STEPS[i], || w.write(b));
    }
    r.always("into_inner", move || Ok::<(), NoErr>(drop(w.into_inner())));
}
fn csv_seq_close<const SEQ: u8>(r: &mut Runner, sink: GuardSink) {
    use arrow_array::RecordBatchWriter;
    let bs = seq_batches(SEQ, false);
    let mut w = arrow_csv::WriterBuilder::new().with_header(true).build(sink);
    for (i, b) in bs.iter().enumerate() {
        r.step(WRITE_STEPS[i], || w.write(b));
    }
    r.always("close", move || w.close());
}
fn json_lines_seq<const SEQ: u8>(r: &mut Runner, sink: GuardSink) {
    let bs = seq_batches(SEQ, false);
    let mut w = arrow_json::LineDelimitedWriter::new(sink);
    for (i, b) in bs.iter().enumerate() {
        r.step(WRITE_STEPS[i], || w.write(b));
    }
    r.step("finish", || w.finish());
    r.always("into_inner", move || Ok::<(), NoErr>(drop(w.into_inner())));
}
fn json_array_seq<const SEQ: u8>(r: &mut Runner, sink: GuardSink) {
    let bs = seq_batches(SEQ, false);
    let mut w = arrow_json::ArrayWriter::new(sink);
    for (i, b) in bs.iter().enumerate() {
        r.step(WRITE_STEPS[i], || w.write(b));
    }
    r.step("finish", || w.finish());
    r.always("into_inner", move || Ok::<(), NoErr>(drop(w.into_inner())));
}
fn ipc_stream_seq<const SEQ: u8>(r: &mut Runner, sink: GuardSink) {
    let bs = seq_batches(SEQ, true);
    let Some(mut w) = r.step("new", || arrow_ipc::writer::StreamWriter::try_new(sink, &bs[0].schema())) else { return };
    for (i, b) in bs.iter().enumerate() {
        r.step(WRITE_STEPS[i], || w.write(b));
    }
    r.step("finish", || w.finish());
    r.always("into_inner", move || w.into_inner().map(|_| ()));
}
fn ipc_file_seq<const SEQ: u8>(r: &mut Runner, sink: GuardSink) {
    let bs = seq_batches(SEQ, true);
    let Some(mut w) = r.step("new", || arrow_ipc::writer::FileWriter::try_new(sink, &bs[0].schema())) else { return };
    for (i, b) in bs.iter().enumerate() {
        r.step(WRITE_STEPS[i], || w.write(b));
    }
    r.step("finish", || w.finish());
    r.always("into_inner", move || w.into_inner().map(|_| ()));
}
fn parquet_arrow_seq<const SEQ: u8>(r: &mut Runner, sink: GuardSink) {
    let bs = seq_batches(SEQ, false);
    let Some(mut w) = r.step("new", || parquet::arrow::ArrowWriter::try_new(sink, bs[0].schema(), Some(pq_props()))) else { return };
    for (i, b) in bs.iter().enumerate() {
        r.step(WRITE_STEPS[i], || w.write(b));
    }
    r.always("close", move || w.close().map(|_| ()));
}
fn avro_soe_seq<const SEQ: u8>(r: &mut Runner, sink: GuardSink) {
    use arrow_avro::writer::format::AvroSoeFormat;
    let bs = seq_batches(SEQ, false);
    let Some(mut w) = r.step("new", || arrow_avro::writer::WriterBuilder::new(bs[0].schema().as_ref().clone()).build::<_, AvroSoeFormat>(sink)) else { return };
    for (i, b) in bs.iter().enumerate() {
        r.step(WRITE_STEPS[i], || w.write(b));
    }
    r.step("finish", || w.finish());
    r.always("into_inner", move || Ok::<(), NoErr>(drop(w.into_inner())));
}
fn avro_ocf_seq<const SEQ: u8>(r: &mut Runner, sink: GuardSink) {
    let bs = seq_batches(SEQ, false);
    let Some(mut w) = r.step("new", || arrow_avro::writer::AvroWriter::new(sink, bs[0].schema().as_ref().clone())) else { return };
    for (i, b) in bs.iter().enumerate() {
        r.step(WRITE_STEPS[i], || w.write(b));
    }
    r.step("finish", || w.finish());
    r.always("into_inner", move || Ok::<(), NoErr>(drop(w.into_inner())));
}

pub fn cases() -> Vec<WriterCase> {
    vec![
        WriterCase { name: "ipc-file-writer", deterministic: true, run: ipc_file },
        WriterCase { name: "ipc-file-writer-buffered", deterministic: true, run: ipc_file_buffered },
        WriterCase { name: "ipc-stream-writer", deterministic: true, run: ipc_stream },
        WriterCase { name: "ipc-stream-writer-buffered", deterministic: true, run: ipc_stream_buffered },
        WriterCase { name: "parquet-arrow-writer", deterministic: true, run: parquet_arrow },
        WriterCase { name: "parquet-arrow-writer-close", deterministic: true, run: parquet_arrow_close },
        WriterCase { name: "parquet-arrow-writer-into-inner", deterministic: true, run: parquet_arrow_into_inner },
        WriterCase { name: "parquet-serialized-file-writer", deterministic: true, run: parquet_serialized },
        WriterCase { name: "parquet-async-arrow-writer", deterministic: true, run: parquet_async },
        WriterCase { name: "avro-ocf-writer", deterministic: false, run: avro_ocf },
        WriterCase { name: "avro-soe-writer", deterministic: true, run: avro_soe },
        WriterCase { name: "csv-writer", deterministic: true, run: csv },
        WriterCase { name: "json-line-delimited-writer", deterministic: true, run: json_lines },
        WriterCase { name: "json-array-writer", deterministic: true, run: json_array },
        WriterCase { name: "ipc-stream-writer-odd-buffers-align8", deterministic: true, run: ipc_odd::<false, 8> },
        WriterCase { name: "ipc-stream-writer-odd-buffers-align64", deterministic: true, run: ipc_odd::<false, 64> },
        WriterCase { name: "ipc-file-writer-odd-buffers-align8", deterministic: true, run: ipc_odd::<true, 8> },
        WriterCase { name: "ipc-file-writer-odd-buffers-align64", deterministic: true, run: ipc_odd::<true, 64> },
        WriterCase { name: "ipc-stream-writer-zstd", deterministic: true, run: ipc_stream_zstd },
        WriterCase { name: "ipc-file-writer-lz4", deterministic: true, run: ipc_file_lz4 },
        WriterCase { name: "parquet-arrow-writer-snappy", deterministic: true, run: parquet_arrow_snappy },
        WriterCase { name: "avro-ocf-writer-deflate", deterministic: false, run: avro_ocf_deflate },
        WriterCase { name: "csv-writer-empty-only", deterministic: true, run: csv_seq::<1> },
        WriterCase { name: "csv-writer-empty-first", deterministic: true, run: csv_seq::<2> },
        WriterCase { name: "csv-writer-empty-last", deterministic: true, run: csv_seq::<3> },
        WriterCase { name: "csv-writer-close-empty-only", deterministic: true, run: csv_seq_close::<1> },
        WriterCase { name: "csv-writer-close-empty-last", deterministic: true, run: csv_seq_close::<3> },
        WriterCase { name: "json-line-delimited-writer-empty-only", deterministic: true, run: json_lines_seq::<1> },
        WriterCase { name: "json-line-delimited-writer-empty-first", deterministic: true, run: json_lines_seq::<2> },
        WriterCase { name: "json-array-writer-empty-only", deterministic: true, run: json_array_seq::<1> },
        WriterCase { name: "json-array-writer-empty-first", deterministic: true, run: json_array_seq::<2> },
        WriterCase { name: "json-array-writer-empty-last", deterministic: true, run: json_array_seq::<3> },
        WriterCase { name: "ipc-stream-writer-empty-only", deterministic: true, run: ipc_stream_seq::<1> },
        WriterCase { name: "ipc-stream-writer-empty-first", deterministic: true, run: ipc_stream_seq::<2> },
        WriterCase { name: "ipc-file-writer-empty-only", deterministic: true, run: ipc_file_seq::<1> },
        WriterCase { name: "ipc-file-writer-empty-last", deterministic: true, run: ipc_file_seq::<3> },
        WriterCase { name: "parquet-arrow-writer-empty-only", deterministic: true, run: parquet_arrow_seq::<1> },
        WriterCase { name: "parquet-arrow-writer-empty-first", deterministic: true, run: parquet_arrow_seq::<2> },
        WriterCase { name: "avro-soe-writer-empty-only", deterministic: true, run: avro_soe_seq::<1> },
        WriterCase { name: "avro-ocf-writer-empty-only", deterministic: false, run: avro_ocf_seq::<1> },
        WriterCase { name: "avro-ocf-writer-empty-first", deterministic: false, run: avro_ocf_seq::<2> },
    ]
}

/// Runs one writer script against a sink with the given plan.
pub fn run_case(c: &WriterCase, plan: Plan, stop_at_error: bool, max_write: usize) -> (ScriptResult, Vec<u8>, usize) {
    let (r, b, n, _) = run_case2(c, plan, None, stop_at_error, max_write);
    (r, b, n)
}
/// returns (step results, accepted bytes, sink calls, number of injected faults that fired)
pub fn run_case2(c: &WriterCase, plan: Plan, second: Option<usize>, stop_at_error: bool, max_write: usize) -> (ScriptResult, Vec<u8>, usize, usize) {
    let mut sink = GuardSink::new(plan, max_write);
    sink.second = second;
    let probe = sink.inner.clone();
    let mut r = Runner::new(probe.clone(), stop_at_error);
    (c.run)(&mut r, sink);
    (r.res, probe.bytes(), probe.n_calls(), probe.fired())
}
