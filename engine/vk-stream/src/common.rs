//! Shared pieces of the C14 / C18 engines: row rendering, outcome comparison, chunking enumeration.
use arrow_array::{Array, RecordBatch};
use arrow_cast::display::{ArrayFormatter, FormatOptions};
use arrow_schema::SchemaRef;
use std::collections::HashSet;
use std::fmt::Debug;
use std::sync::Mutex;

/// Name of the enum variant of an error value (`ParseError("..")` -> `ParseError`).
pub fn variant_of<E: Debug>(e: &E) -> String {
    let s = format!("{e:?}");
    s.chars().take_while(|c| c.is_ascii_alphanumeric() || *c == '_').collect()
}

/// Renders every row of `b` as one string (columns joined by U+001F, nulls as U+0001 "N") and runs
/// `validate_full` on every column. Returns a well-formedness complaint if any.
pub fn render_batch(b: &RecordBatch, rows: &mut Vec<String>) -> Option<String> {
    let mut wf = None;
    let opts = FormatOptions::default().with_null("\u{1}N");
    let mut fmts = vec![];
    for (i, c) in b.columns().iter().enumerate() {
        if c.len() != b.num_rows() {
            wf = Some(format!("column {i} has {} rows, batch {}", c.len(), b.num_rows()));
        }
        if let Err(e) = c.to_data().validate_full() {
            wf = Some(format!("column {i} ({}) fails validate_full: {e}", c.data_type()));
        }
        if b.schema().field(i).data_type() != c.data_type() {
            wf = Some(format!("column {i} type {} differs from schema {}", c.data_type(), b.schema().field(i).data_type()));
        }
        match ArrayFormatter::try_new(c.as_ref(), &opts) {
            Ok(f) => fmts.push(Some(f)),
            Err(_) => fmts.push(None),
        }
    }
    if wf.is_some() {
        // do not touch possibly malformed data any further
        for r in 0..b.num_rows() {
            rows.push(format!("<malformed row {r}>"));
        }
        return wf;
    }
    for r in 0..b.num_rows() {
        let mut s = String::new();
        for (i, f) in fmts.iter().enumerate() {
            if i > 0 {
                s.push('\u{1f}');
            }
            match f {
                Some(f) => match f.value(r).try_to_string() {
                    Ok(v) => s.push_str(&v),
                    Err(e) => s.push_str(&format!("<fmt error {e}>")),
                },
                None => s.push_str("<unformattable>"),
            }
        }
        rows.push(s);
    }
    None
}

/// What one complete run of a decoder over an input under one environment produced.
#[derive(Clone, Debug, Default)]
pub struct Outcome {
    pub schema: Option<SchemaRef>,
    pub rows: Vec<String>,
    /// "ok" | "err:<Variant>" | "panic:<fingerprint>" | "hang" | harness-defined terminal classes
    pub class: String,
    pub msg: String,
    pub max_batch: usize,
    pub batches: usize,
    pub wf: Option<String>,
    /// number of decode / flush / finish calls made (transitions)
    pub calls: u64,
    /// hashes of the decoder-observable states visited
    pub states: Vec<u64>,
    /// delivered-byte positions at which the decoder-observable state changed (byte-wise reference run)
    pub marks: Vec<u32>,
}

impl Outcome {
    pub fn push_batch(&mut self, b: &RecordBatch) {
        self.max_batch = self.max_batch.max(b.num_rows());
        self.batches += 1;
        if self.schema.is_none() {
            self.schema = Some(b.schema());
        } else if self.schema.as_ref() != Some(&b.schema()) && self.wf.is_none() {
            // all families here keep one schema per run (schema switches are rendered by the avro driver itself)
            self.wf = Some("batch schema differs from the schema of the first batch".to_string());
        }
        if let Some(w) = render_batch(b, &mut self.rows) {
            if self.wf.is_none() {
                self.wf = Some(w);
            }
        }
    }
    pub fn fail<E: Debug + std::fmt::Display>(&mut self, e: &E) {
        self.class = format!("err:{}", variant_of(e));
        self.msg = e.to_string();
    }
    pub fn state(&mut self, parts: &[u64]) {
        let mut h = 0xcbf29ce484222325u64;
        for p in parts {
            for b in p.to_le_bytes() {
                h ^= b as u64;
                h = h.wrapping_mul(0x100000001b3);
            }
        }
        self.states.push(h);
    }
    pub fn brief(&self) -> String {
        format!("class={} rows={} batches={} max_batch={} msg={:?}", self.class, self.rows.len(), self.batches, self.max_batch, self.msg.chars().take(120).collect::<String>())
    }
}

/// One disagreement between a run and its reference.
#[derive(Debug, Clone)]
pub struct Diff {
    /// short kind used inside the fingerprint
    pub kind: String,
    pub detail: String,
}

/// The C14 oracle: `got` (some chunking) against `reference` (the single-chunk run).
/// * same outcome class; * Ok: same schema, same rows; * Err: delivered rows are a prefix of the reference rows;
/// * no batch larger than `batch_size`; * every batch well-formed.
pub fn compare(reference: &Outcome, got: &Outcome, batch_size: Option<usize>) -> Option<Diff> {
    if let Some(w) = &got.wf {
        return Some(Diff { kind: "wf".into(), detail: w.clone() });
    }
    if let Some(bs) = batch_size {
        if got.max_batch > bs {
            return Some(Diff { kind: "batch-exceeds-batch-size".into(), detail: format!("batch of {} rows with batch size {bs}", got.max_batch) });
        }
    }
    if got.class != reference.class {
        return Some(Diff { kind: format!("outcome:{}->{}", reference.class, got.class), detail: format!("reference {{{}}} got {{{}}}", reference.brief(), got.brief()) });
    }
    if got.class == "ok" {
        if got.schema != reference.schema && !(got.rows.is_empty() && reference.rows.is_empty()) {
            return Some(Diff { kind: "schema-differs".into(), detail: format!("reference {:?} got {:?}", reference.schema, got.schema) });
        }
        if got.rows != reference.rows {
            let i = got.rows.iter().zip(&reference.rows).position(|(a, b)| a != b).unwrap_or(got.rows.len().min(reference.rows.len()));
            return Some(Diff {
                kind: "rows-differ".into(),
                detail: format!("{} rows vs reference {}; first difference at row {i}: got {:?} reference {:?}", got.rows.len(), reference.rows.len(), got.rows.get(i), reference.rows.get(i)),
            });
        }
    } else {
        // error outcome: how many rows are delivered before the error legitimately depends on the chunking
        // (flush opportunities), so the rows delivered by the two runs must agree on their common prefix.
        let k = got.rows.len().min(reference.rows.len());
        if got.rows[..k] != reference.rows[..k] {
            let i = (0..k).find(|&i| got.rows[i] != reference.rows[i]).unwrap();
            return Some(Diff { kind: "rows-before-error-differ".into(), detail: format!("row {i}: got {:?} reference {:?}", got.rows[i], reference.rows[i]) });
        }
    }
    None
}

// ------------------------------------------------------------------------------------------------
// Chunkings

#[derive(Clone, Copy, Debug, PartialEq, Eq)]
pub enum Flush {
    /// only when the protocol demands it / at the end
    End,
    /// after every chunk (where the documented protocol permits a flush)
    Every,
    /// additionally after exactly chunk i
    After(u32),
}

/// An environment trace: where the producer cuts the byte sequence (non-decreasing positions in 0..=n; a
/// repeated position is an empty chunk) and when it asks for a flush.
#[derive(Clone, Debug, PartialEq, Eq)]
pub struct Chunking {
    pub cuts: Vec<u32>,
    pub flush: Flush,
}

impl Chunking {
    pub fn whole() -> Chunking {
        Chunking { cuts: vec![], flush: Flush::End }
    }
    /// chunk boundaries as (start, end) pairs covering 0..n
    pub fn chunks(&self, n: usize) -> Vec<(usize, usize)> {
        let mut out = Vec::with_capacity(self.cuts.len() + 1);
        let mut s = 0usize;
        for &c in &self.cuts {
            let c = (c as usize).min(n);
            out.push((s, c));
            s = c;
        }
        out.push((s, n));
        out
    }
    pub fn json(&self) -> serde_json::Value {
        serde_json::json!({"cuts": self.cuts, "flush": match self.flush { Flush::End => "end".to_string(), Flush::Every => "every".to_string(), Flush::After(i) => format!("after:{i}") }})
    }
    pub fn from_json(v: &serde_json::Value) -> Chunking {
        let cuts = v["cuts"].as_array().map(|a| a.iter().map(|x| x.as_u64().unwrap_or(0) as u32).collect()).unwrap_or_default();
        let f = v["flush"].as_str().unwrap_or("end");
        let flush = if f == "every" {
            Flush::Every
        } else if let Some(i) = f.strip_prefix("after:") {
            Flush::After(i.parse().unwrap_or(0))
        } else {
            Flush::End
        };
        Chunking { cuts, flush }
    }
}

/// Bounds of the chunking enumeration (stated in the evidence).
#[derive(Clone, Debug)]
pub struct ChunkBounds {
    /// all 2^(n-1) partitions when n <= full_n
    pub full_n: usize,
    /// all pairs of cuts when n <= pair_n
    pub pair_n: usize,
    /// all triples of cuts when n <= triple_n
    pub triple_n: usize,
    /// all subsets of each interesting cut group, |I| <= interesting_max per group
    pub interesting_max: usize,
    /// number of interesting groups (windows of adjacent candidate positions) enumerated
    pub max_groups: usize,
    /// uniform chunk sizes 1..=min(n, uniform_max)
    pub uniform_max: usize,
    /// enumerate flush policies (End/Every on everything, After(i) on uniform sizes 1..=3)
    pub flush_policies: bool,
    /// insert empty chunks (doubled cut) at every position of the single-cut and byte-at-a-time chunkings
    pub empty_chunks: bool,
}

#[derive(Clone, Debug)]
pub struct ChunkSpace {
    pub n: usize,
    pub interesting: Vec<Vec<u32>>,
    pub pairs: bool,
    pub triples: bool,
    /// (segment name, count) in index order
    pub segs: Vec<(&'static str, u64)>,
    pub flush_mult: u64,
    pub total: u64,
}

fn choose2(m: u64) -> u64 {
    if m < 2 { 0 } else { m * (m - 1) / 2 }
}
fn choose3(m: u64) -> u64 {
    if m < 3 { 0 } else { m * (m - 1) * (m - 2) / 6 }
}

impl ChunkSpace {
    pub fn new(n: usize, interesting: &[u32], b: &ChunkBounds) -> ChunkSpace {
        let mut cand: Vec<u32> = interesting.iter().copied().filter(|&p| p >= 1 && (p as usize) < n).collect();
        cand.sort();
        cand.dedup();
        let interesting: Vec<Vec<u32>> = if b.interesting_max == 0 { vec![] } else { cand.chunks(b.interesting_max).take(b.max_groups).map(|c| c.to_vec()).collect() };
        let (mut pairs, mut triples) = (false, false);
        let m = n.saturating_sub(1) as u64; // possible interior cut positions
        let mut segs: Vec<(&'static str, u64)> = vec![];
        if n <= b.full_n {
            segs.push(("all-partitions", 1u64 << m));
        } else {
            segs.push(("whole", 1));
            segs.push(("single-cut", m));
            if n <= b.pair_n {
                pairs = true;
                segs.push(("cut-pairs", choose2(m)));
            }
            if n <= b.triple_n {
                triples = true;
                segs.push(("cut-triples", choose3(m)));
            }
            segs.push(("uniform-size", n.min(b.uniform_max) as u64)); // sizes 1..=min(n, uniform_max)
            for g in &interesting {
                segs.push(("interesting-subsets", 1u64 << g.len()));
            }
        }
        if b.empty_chunks {
            segs.push(("empty-chunk-in-single-cut", n as u64 + 1));
            segs.push(("empty-chunk-in-bytewise", n as u64 + 1));
        }
        let base: u64 = segs.iter().map(|s| s.1).sum();
        let flush_mult = if b.flush_policies { 2 } else { 1 };
        let mut total = base * flush_mult;
        if b.flush_policies {
            // Flush::After(i) on uniform chunk sizes 1, 2, 3
            let mut extra = 0;
            for s in 1..=3usize {
                extra += n.div_ceil(s).max(1) as u64;
            }
            segs.push(("flush-after-chunk-i", extra));
            total += extra;
        }
        ChunkSpace { n, interesting, pairs, triples, segs, flush_mult, total }
    }

    fn base_total(&self) -> u64 {
        self.segs.iter().filter(|s| s.0 != "flush-after-chunk-i").map(|s| s.1).sum()
    }

    /// pure function index -> chunking
    pub fn at(&self, idx: u64) -> (Chunking, &'static str) {
        let n = self.n;
        let m = n.saturating_sub(1) as u64;
        let base = self.base_total();
        if idx >= base * self.flush_mult {
            // flush-after segment
            let mut k = idx - base * self.flush_mult;
            for s in 1..=3usize {
                let cnt = n.div_ceil(s).max(1) as u64;
                if k < cnt {
                    let cuts = (1..).map(|j| (j * s) as u32).take_while(|&c| (c as usize) < n).collect();
                    return (Chunking { cuts, flush: Flush::After(k as u32) }, "flush-after-chunk-i");
                }
                k -= cnt;
            }
            unreachable!()
        }
        let flush = if idx / base == 0 { Flush::End } else { Flush::Every };
        let mut k = idx % base;
        let mut group = 0usize;
        for (name, cnt) in &self.segs {
            if k >= *cnt {
                k -= cnt;
                if *name == "interesting-subsets" {
                    group += 1;
                }
                continue;
            }
            let cuts: Vec<u32> = match *name {
                "all-partitions" => (0..m).filter(|b| (k >> b) & 1 == 1).map(|b| b as u32 + 1).collect(),
                "whole" => vec![],
                "single-cut" => vec![k as u32 + 1],
                "cut-pairs" => {
                    // unrank (i<j) over positions 1..=m
                    let mut i = 1u64;
                    let mut r = k;
                    loop {
                        let row = m - i; // number of j > i
                        if r < row {
                            break;
                        }
                        r -= row;
                        i += 1;
                    }
                    vec![i as u32, (i + 1 + r) as u32]
                }
                "cut-triples" => {
                    let mut i = 1u64;
                    let mut r = k;
                    loop {
                        let row = choose2(m - i);
                        if r < row {
                            break;
                        }
                        r -= row;
                        i += 1;
                    }
                    let mut j = i + 1;
                    loop {
                        let row = m - j;
                        if r < row {
                            break;
                        }
                        r -= row;
                        j += 1;
                    }
                    vec![i as u32, j as u32, (j + 1 + r) as u32]
                }
                "uniform-size" => {
                    let s = k as usize + 1;
                    (1..).map(|j| (j * s) as u32).take_while(|&c| (c as usize) < n).collect()
                }
                "interesting-subsets" => self.interesting[group].iter().enumerate().filter(|(b, _)| (k >> b) & 1 == 1).map(|(_, &p)| p).collect(),
                "empty-chunk-in-single-cut" => vec![k as u32, k as u32],
                "empty-chunk-in-bytewise" => {
                    // byte-wise for n <= 128, else uniform chunks of ceil(n/128) bytes (keeps the segment linear)
                    let s = n.div_ceil(128).max(1);
                    let mut v: Vec<u32> = (1..).map(|j| (j * s) as u32).take_while(|&c| (c as usize) < n).collect();
                    v.push(k as u32);
                    v.sort();
                    v
                }
                _ => unreachable!(),
            };
            return (Chunking { cuts, flush }, name);
        }
        unreachable!()
    }
}

impl ChunkSpace {
    /// true when the chunking produced by segment `seg` is also produced by an earlier segment (so that
    /// distinct_nontrivial counts every distinct chunking once)
    pub fn is_dup(&self, seg: &str, c: &Chunking) -> bool {
        let k = c.cuts.len();
        let small = k <= 1 || (k == 2 && self.pairs) || (k == 3 && self.triples);
        match seg {
            "uniform-size" => small,
            "interesting-subsets" => {
                let uniform = k >= 1 && {
                    let s = c.cuts[0] as usize;
                    let want: Vec<u32> = (1..).map(|j| (j * s) as u32).take_while(|&x| (x as usize) < self.n).collect();
                    want == c.cuts
                };
                // a subset may also be contained in an earlier group only if groups overlap; they do not
                small || uniform
            }
            _ => false,
        }
    }
}

// ------------------------------------------------------------------------------------------------
// Distinct-state accounting (model_checking evidence)

pub struct StateSet {
    shards: Vec<Mutex<HashSet<u64>>>,
}
impl StateSet {
    pub fn new() -> StateSet {
        StateSet { shards: (0..64).map(|_| Mutex::new(HashSet::new())).collect() }
    }
    pub fn insert_all(&self, salt: u64, hs: &[u64]) {
        // group by shard to take each lock once
        let mut sorted: Vec<u64> = hs.iter().map(|h| (h ^ salt).wrapping_mul(0x9E3779B97F4A7C15)).collect();
        sorted.sort_unstable();
        sorted.dedup();
        let mut i = 0;
        while i < sorted.len() {
            let sh = (sorted[i] >> 58) as usize;
            let mut g = self.shards[sh].lock().unwrap();
            while i < sorted.len() && (sorted[i] >> 58) as usize == sh {
                g.insert(sorted[i]);
                i += 1;
            }
        }
    }
    pub fn len(&self) -> u64 {
        self.shards.iter().map(|s| s.lock().unwrap().len() as u64).sum()
    }
}

/// Replacement menu for "every single-byte corruption" of a text input.
pub fn corruptions(input: &[u8], menu: &[u8], xor_menu: &[u8]) -> Vec<(usize, u8)> {
    let mut out = vec![];
    for (i, &b) in input.iter().enumerate() {
        let mut seen = vec![b];
        for &r in menu {
            if !seen.contains(&r) {
                seen.push(r);
                out.push((i, r));
            }
        }
        for &x in xor_menu {
            let r = b ^ x;
            if !seen.contains(&r) {
                seen.push(r);
                out.push((i, r));
            }
        }
    }
    out
}

#[cfg(test)]
mod tests {
    use super::*;
    #[test]
    fn chunk_space_is_a_bijection_onto_distinct_chunkings() {
        let b = ChunkBounds { full_n: 6, pair_n: 12, triple_n: 10, interesting_max: 4, max_groups: 2, uniform_max: usize::MAX, flush_policies: true, empty_chunks: true };
        for n in [1usize, 2, 5, 6, 7, 9, 12, 13] {
            let sp = ChunkSpace::new(n, &[2, 3, 5, 8], &b);
            let mut seen = std::collections::HashSet::new();
            for i in 0..sp.total {
                let (c, _) = sp.at(i);
                assert!(c.cuts.windows(2).all(|w| w[0] <= w[1]));
                assert!(c.cuts.iter().all(|&p| (p as usize) <= n));
                seen.insert(format!("{c:?}"));
            }
            assert!(seen.len() as u64 >= sp.total * 8 / 10, "n={n} {} of {}", seen.len(), sp.total);
        }
    }
}
