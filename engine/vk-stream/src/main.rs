mod c14;
mod c18;
mod common;
fn main() {
    let ctx = vcore::Ctx::from_args();
    match ctx.prop.as_str() {
        "C14" => c14::run(&ctx),
        "C18" => c18::run(&ctx),
        other => {
            eprintln!("MACHINERY: vk-stream does not serve property {other:?}");
            std::process::exit(2)
        }
    }
}
