//! Repro for fingerprint `c20:empty-input:panic@arrow-array/src/array/dictionary_array.rs:...`:
//! the array-form string predicates panic on a *valid* zero-length dictionary column whose
//! dictionary has no values (e.g. the result of filtering everything away / an empty batch).
//!
//! like_op -> string_apply -> vectored_iter calls AnyDictionaryArray::normalized_keys(), which
//! `assert_ne!(values.len(), 0)`. Expected: Ok(empty BooleanArray), like the plain encodings return.
//!
//! build: cargo build --release --offline -p vk-string --example repro_like_empty_dictionary
use arrow_array::types::Int32Type;
use arrow_array::{Array, DictionaryArray, Int32Array, StringArray};
use std::sync::Arc;

fn main() {
    let empty_dict = DictionaryArray::<Int32Type>::new(Int32Array::from(Vec::<i32>::new()), Arc::new(StringArray::from(Vec::<&str>::new())));
    empty_dict.to_data().validate_full().expect("the input is a valid array");
    let empty_plain = StringArray::from(Vec::<&str>::new());
    println!("plain x plain : {:?}", arrow_string::like::like(&empty_plain, &empty_plain).map(|a| a.len()));
    for (name, f) in [
        ("like", arrow_string::like::like as fn(&dyn arrow_array::Datum, &dyn arrow_array::Datum) -> _),
        ("ilike", arrow_string::like::ilike),
        ("starts_with", arrow_string::like::starts_with),
        ("contains", arrow_string::like::contains),
    ] {
        let r = std::panic::catch_unwind(std::panic::AssertUnwindSafe(|| f(&empty_dict, &empty_dict).map(|a| a.len())));
        println!("{name}(dict, dict) on zero rows: {}", match r {
            Ok(v) => format!("{v:?}"),
            Err(_) => "PANIC (expected Ok(0))".to_string(),
        });
        let r = std::panic::catch_unwind(std::panic::AssertUnwindSafe(|| f(&empty_dict, &empty_plain).map(|a| a.len())));
        println!("{name}(dict, plain) on zero rows: {}", match r {
            Ok(v) => format!("{v:?}"),
            Err(_) => "PANIC (expected Ok(0))".to_string(),
        });
    }
}
