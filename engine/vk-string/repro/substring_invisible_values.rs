//! Repro for fingerprints `c20:substring:str:error-from-invisible-dictionary-value` and
//! `c20:substring:str:error-from-bytes-under-null`:
//! byte-based `substring` fails because of bytes that no logical row shows, so logically identical
//! inputs give different results depending on the encoding (C20: "Results are identical for Utf8,
//! LargeUtf8, Utf8View and dictionary-encoded inputs").
//!
//! build: cargo build --release --offline -p vk-string --example repro_substring_invisible_values
use arrow_array::types::Int32Type;
use arrow_array::{Array, ArrayRef, DictionaryArray, Int32Array, StringArray, StringViewArray};
use arrow_buffer::{Buffer, NullBuffer, OffsetBuffer};
use arrow_string::substring::substring;
use std::sync::Arc;

fn show(name: &str, a: &dyn Array) {
    println!("{name:55}: {:?}", substring(a, 1, Some(2)).map(|r| format!("{r:?}").replace('\n', " ")));
}

fn main() {
    // logical content of every array below: ["abc"]  (plus, where noted, one null row)
    show("Utf8 [abc]", &StringArray::from(vec!["abc"]));
    // 1. dictionary whose *unreferenced* second value is "é" (2 bytes: offset 1 is inside the char)
    let values: ArrayRef = Arc::new(StringArray::from(vec!["abc", "\u{e9}"]));
    let dict = DictionaryArray::<Int32Type>::new(Int32Array::from(vec![0]), values);
    show("Dictionary keys [0], values [abc, é] (é unreferenced)", &dict);
    // 2. plain Utf8 with a null slot that still has the bytes of "é" underneath (legal Arrow; what
    //    kernels that only rewrite the validity buffer produce)
    let hidden = StringArray::new(OffsetBuffer::<i32>::from_lengths([3, 2]), Buffer::from("abc\u{e9}".as_bytes().to_vec()), Some(NullBuffer::from(vec![true, false])));
    hidden.to_data().validate_full().unwrap();
    show("Utf8 [abc, null(hiding é)]", &hidden);
    // the same logical column as Utf8View succeeds
    let (views, buffers, _) = StringViewArray::from(vec!["abc", "\u{e9}"]).into_parts();
    show("Utf8View [abc, null(hiding é)]", &StringViewArray::new(views, buffers, Some(NullBuffer::from(vec![true, false]))));
    show("Utf8 [abc, null(empty)]", &StringArray::from(vec![Some("abc"), None]));
}
