//! C20 — string predicates and functions follow character-level Unicode semantics.
//! Bounded exhaustive: every LIKE pattern of length <= P over {% _ \ a A k é . \n} x every haystack of
//! length <= H over an 18-character alphabet x ops x scalar/array forms x encodings x layouts, plus the
//! needle predicates, regex matching, substrings, lengths and element-wise concatenation.
use crate::like::{self, Family, LikeWorld, Xform};
use crate::oracle::Alpha;
use crate::tables::*;
use crate::{concat, empty, needle, regexp, substr};
use vcore::serde_json::{Value, json};
use vcore::{Ctx, Level, Stats, par_for};

#[derive(Clone, Copy, Debug)]
pub struct Bounds {
    pub tier: &'static str,
    /// haystack length (scalar values) over the 18-character alphabet
    pub hay_len: usize,
    /// LIKE pattern length over 8 symbols
    pub pat_len: usize,
    /// needle length for starts_with / ends_with / contains (strings)
    pub needle_len: usize,
    /// byte-string length over the 5-byte alphabet (needles = haystacks)
    pub bin_len: usize,
    /// regex length over 9 symbols
    pub re_len: usize,
    /// scalar-haystack x pattern-column engine
    pub ls_hay_len: usize,
    pub ls_pat_len: usize,
    /// extra LIKE pass with longer haystacks and shorter patterns: (haystack len, pattern len)
    pub like_long: Option<(usize, usize)>,
}
pub fn bounds(quick: bool) -> Bounds {
    if quick {
        Bounds { tier: "quick", hay_len: 3, pat_len: 4, needle_len: 2, bin_len: 3, re_len: 4, ls_hay_len: 1, ls_pat_len: 3, like_long: None }
    } else {
        Bounds { tier: "thorough", hay_len: 3, pat_len: 5, needle_len: 3, bin_len: 4, re_len: 5, ls_hay_len: 2, ls_pat_len: 3, like_long: Some((4, 3)) }
    }
}

fn ascii_sel(table: &[Vec<u8>]) -> Vec<u32> {
    (0..table.len() as u32).filter(|&i| table[i as usize].is_ascii()).collect()
}

pub fn run_alpha() -> Alpha {
    let mut chars = haystack_alphabet();
    chars.extend(PAT_SYMS);
    chars.extend(RE_SYMS);
    chars.extend(LONG_PREFIX.chars());
    chars.extend(LONG_SUFFIX.chars());
    Alpha::new(chars)
}

#[allow(clippy::too_many_arguments)]
fn col(kind: Kind, dict: Dict, layout: Layout, table: &[Vec<u8>], sel: &[u32], pat_dict: bool, ascii: bool, tag: &str) -> Col {
    let mut c = make_col(kind, dict, layout, table, sel, pat_dict, tag);
    c.ascii = ascii;
    c
}

/// The string haystack families (plain / 13-byte suffix / 13-byte prefix) with every encoding + layout.
/// Full-size columns (all haystacks of length <= hay_len) exist for the five main code paths; the
/// remaining encoding x layout combinations and the long-affix families use all haystacks of length
/// <= 2 (complete sets too, only smaller).
pub fn build_str_families(alpha: &Alpha, hays: &[String]) -> Vec<Family> {
    let mut fams = vec![];
    let is_short = |h: &String| h.chars().count() <= 2;
    {
        let table = to_bytes(hays);
        let ids: Vec<Vec<u8>> = hays.iter().map(|h| alpha.ids(h)).collect();
        let all: Vec<u32> = (0..table.len() as u32).collect();
        let asc = ascii_sel(&table);
        let short: Vec<u32> = (0..table.len() as u32).filter(|&i| is_short(&hays[i as usize])).collect();
        let short_asc: Vec<u32> = short.iter().copied().filter(|&i| table[i as usize].is_ascii()).collect();
        let mut cols = vec![
            col(Kind::Utf8, Dict::None, Layout::Compact, &table, &all, false, false, ""),
            col(Kind::Utf8, Dict::None, Layout::SlicedNulls, &table, &all, true, false, "dict-patterns"),
            col(Kind::Utf8View, Dict::None, Layout::Compact, &table, &all, false, false, ""),
            col(Kind::Utf8View, Dict::None, Layout::SlicedNulls, &table, &all, false, false, ""),
            col(Kind::Utf8, Dict::I32, Layout::SlicedNulls, &table, &all, false, false, ""),
            // smaller complete sets for the remaining encoding x layout combinations
            col(Kind::Utf8, Dict::None, Layout::Nulls, &table, &short, false, false, "len<=2"),
            col(Kind::Utf8, Dict::None, Layout::Sliced, &table, &short, false, false, "len<=2"),
            col(Kind::LargeUtf8, Dict::None, Layout::Compact, &table, &short, false, false, "len<=2"),
            col(Kind::LargeUtf8, Dict::None, Layout::SlicedNulls, &table, &short, false, false, "len<=2"),
            col(Kind::LargeUtf8, Dict::None, Layout::Sliced, &table, &short, true, false, "len<=2/dict-patterns"),
            col(Kind::Utf8View, Dict::None, Layout::Sliced, &table, &short, false, false, "len<=2"),
            col(Kind::Utf8View, Dict::None, Layout::Nulls, &table, &short, false, false, "len<=2"),
            col(Kind::Utf8View, Dict::I32, Layout::Nulls, &table, &short, true, false, "len<=2/dict-patterns"),
            col(Kind::LargeUtf8, Dict::I32, Layout::Compact, &table, &short, false, false, "len<=2"),
            col(Kind::Utf8, Dict::I32, Layout::Compact, &table, &short, false, false, "len<=2"),
        ];
        for (k, chunk) in short.chunks(120).enumerate() {
            let layout = [Layout::Compact, Layout::Nulls, Layout::SlicedNulls][k % 3];
            cols.push(col(Kind::Utf8, Dict::I8, layout, &table, chunk, true, false, &format!("chunk{k}")));
        }
        cols.extend([
            col(Kind::Utf8, Dict::None, Layout::Compact, &table, &asc, false, true, "ascii"),
            col(Kind::Utf8View, Dict::None, Layout::SlicedNulls, &table, &asc, false, true, "ascii"),
            col(Kind::Utf8, Dict::I32, Layout::Compact, &table, &asc, false, true, "ascii"),
            col(Kind::Utf8, Dict::None, Layout::Sliced, &table, &short_asc, false, true, "ascii/len<=2"),
            col(Kind::LargeUtf8, Dict::None, Layout::Nulls, &table, &short_asc, false, true, "ascii/len<=2"),
            col(Kind::Utf8View, Dict::None, Layout::Compact, &table, &short_asc, false, true, "ascii/len<=2"),
            col(Kind::Utf8View, Dict::I32, Layout::SlicedNulls, &table, &short_asc, false, true, "ascii/len<=2"),
        ]);
        fams.push(Family { name: "plain", table, ids, cols, variants: vec![Xform::Raw] });
    }
    for (name, xf) in [("suffix13", Xform::Suffix), ("prefix13", Xform::Prefix)] {
        let strs: Vec<String> = hays.iter().filter(|h| is_short(h)).map(|h| xf.apply(h)).collect();
        let table = to_bytes(&strs);
        let ids: Vec<Vec<u8>> = strs.iter().map(|h| alpha.ids(h)).collect();
        let all: Vec<u32> = (0..table.len() as u32).collect();
        let asc = ascii_sel(&table);
        let cols = vec![
            col(Kind::Utf8, Dict::None, Layout::Compact, &table, &all, false, false, ""),
            col(Kind::Utf8View, Dict::None, Layout::Compact, &table, &all, false, false, ""),
            col(Kind::Utf8View, Dict::None, Layout::SlicedNulls, &table, &all, false, false, ""),
            col(Kind::Utf8View, Dict::I32, Layout::Nulls, &table, &all, false, false, ""),
            col(Kind::Utf8, Dict::None, Layout::Compact, &table, &asc, false, true, "ascii"),
            col(Kind::Utf8View, Dict::None, Layout::Compact, &table, &asc, false, true, "ascii"),
            col(Kind::Utf8View, Dict::None, Layout::SlicedNulls, &table, &asc, false, true, "ascii"),
        ];
        fams.push(Family { name, table, ids, cols, variants: vec![xf, Xform::Raw] });
    }
    fams
}

pub fn build_bin_families(bins: &[Vec<u8>]) -> Vec<Family> {
    let mut fams = vec![];
    {
        let table = bins.to_vec();
        let all: Vec<u32> = (0..table.len() as u32).collect();
        let first: Vec<u32> = (0..table.len().min(100) as u32).collect();
        let cols = vec![
            col(Kind::Binary, Dict::None, Layout::Compact, &table, &all, false, false, ""),
            col(Kind::Binary, Dict::None, Layout::Sliced, &table, &all, true, false, "dict-needles"),
            col(Kind::Binary, Dict::None, Layout::Nulls, &table, &all, false, false, ""),
            col(Kind::LargeBinary, Dict::None, Layout::Compact, &table, &all, false, false, ""),
            col(Kind::LargeBinary, Dict::None, Layout::SlicedNulls, &table, &all, false, false, ""),
            col(Kind::BinaryView, Dict::None, Layout::Compact, &table, &all, false, false, ""),
            col(Kind::BinaryView, Dict::None, Layout::Sliced, &table, &all, false, false, ""),
            col(Kind::BinaryView, Dict::None, Layout::Nulls, &table, &all, false, false, ""),
            col(Kind::Binary, Dict::I32, Layout::SlicedNulls, &table, &all, false, false, ""),
            col(Kind::BinaryView, Dict::I32, Layout::Nulls, &table, &all, true, false, "dict-needles"),
            col(Kind::Binary, Dict::I8, Layout::Compact, &table, &first, false, false, "first100"),
        ];
        fams.push(Family { name: "plain", ids: table.clone(), table, cols, variants: vec![Xform::Raw] });
    }
    for (name, xf) in [("suffix13", Xform::Suffix), ("prefix13", Xform::Prefix)] {
        let table: Vec<Vec<u8>> = bins.iter().map(|b| needle::apply_bytes(xf, b)).collect();
        let all: Vec<u32> = (0..table.len() as u32).collect();
        let cols = vec![
            col(Kind::Binary, Dict::None, Layout::Compact, &table, &all, false, false, ""),
            col(Kind::BinaryView, Dict::None, Layout::Compact, &table, &all, false, false, ""),
            col(Kind::BinaryView, Dict::None, Layout::SlicedNulls, &table, &all, false, false, ""),
        ];
        fams.push(Family { name, ids: table.clone(), table, cols, variants: vec![xf, Xform::Raw] });
    }
    fams
}

fn hays_of(len: usize) -> Vec<String> {
    strings_over(&haystack_alphabet(), len)
}

pub fn build_like_world(sub: &'static str, hay_len: usize, pat_len: usize) -> LikeWorld {
    let alpha = run_alpha();
    let hays = hays_of(hay_len);
    let pats = strings_over(&PAT_SYMS, pat_len);
    let fams = build_str_families(&alpha, &hays);
    LikeWorld { sub, alpha, pats, fams }
}

fn build_needle_str(b: &Bounds) -> needle::NeedleWorld {
    let alpha = run_alpha();
    let fams = build_str_families(&alpha, &hays_of(b.hay_len));
    let needles = to_bytes(&hays_of(b.needle_len));
    needle::build("str", fams, &needles, &|bytes| alpha.ids(std::str::from_utf8(bytes).unwrap()))
}
fn build_needle_bin(b: &Bounds) -> needle::NeedleWorld {
    let bins = bytes_over(&BYTES, b.bin_len);
    needle::build("bin", build_bin_families(&bins), &bins, &|bytes| bytes.to_vec())
}
fn build_regex(b: &Bounds) -> regexp::RegexWorld {
    let alpha = run_alpha();
    let mut fams = build_str_families(&alpha, &hays_of(b.hay_len));
    fams.truncate(2); // plain + suffix13 (out-of-line views)
    for f in &mut fams {
        f.cols.retain(|c| c.dict == Dict::None);
    }
    regexp::build(b.re_len, fams)
}
fn build_lscalar(b: &Bounds) -> (Alpha, like::LScalarWorld) {
    let alpha = run_alpha();
    let w = like::build_lscalar(&alpha, hays_of(b.ls_hay_len), strings_over(&PAT_SYMS, b.ls_pat_len));
    (alpha, w)
}

const BASE_LSCALAR: u64 = 1 << 56;
const BASE_NEEDLE_STR_S: u64 = 2 << 56;
const BASE_NEEDLE_STR_A: u64 = 3 << 56;
const BASE_NEEDLE_BIN_S: u64 = 4 << 56;
const BASE_NEEDLE_BIN_A: u64 = 5 << 56;
const BASE_REGEX: u64 = 6 << 56;
const BASE_REGEX_BAD: u64 = 7 << 56;
const BASE_SUBSTRING: u64 = 8 << 56;
const BASE_SUBSTRING_FSB: u64 = 9 << 56;
const BASE_BY_CHAR: u64 = 10 << 56;
const BASE_LENGTH: u64 = 11 << 56;
const BASE_CONCAT_STR: u64 = 12 << 56;
const BASE_CONCAT_BIN: u64 = 13 << 56;
const BASE_CONCAT_PACKED: u64 = 14 << 56;
const BASE_CONCAT_FSB: u64 = 15 << 56;
const BASE_EMPTY: u64 = 16 << 56;

/// Re-executes the unit named by a replay case verbosely; for the small sub-engines without a
/// per-unit replay it returns the `--only` filter under which the normal flow re-runs them.
fn replay(case: &Value) -> Option<String> {
    println!("replay case: {case}");
    let b = bounds(case["tier"].as_str() != Some("thorough"));
    let sub = case["sub"].as_str().unwrap_or("").to_string();
    let mut st = Stats::new();
    let gu = |k: &str| case[k].as_u64().map(|v| v as usize);
    match sub.as_str() {
        "like" => {
            let w = build_like_world("like", b.hay_len, b.pat_len);
            like::run_pattern(&w, gu("pattern_index").unwrap_or(0), &mut st, true);
        }
        "like-long" => {
            let (h, p) = b.like_long.unwrap_or((4, 3));
            let w = build_like_world("like-long", h, p);
            like::run_pattern(&w, gu("pattern_index").unwrap_or(0), &mut st, true);
        }
        "like-lscalar" => {
            let (alpha, w) = build_lscalar(&b);
            like::run_lscalar(&alpha, &w, gu("haystack_index").unwrap_or(0), &mut st, true, BASE_LSCALAR);
        }
        "needle-str-scalar" => needle::run_scalar(&build_needle_str(&b), gu("needle_index").unwrap_or(0), &mut st, 0),
        "needle-bin-scalar" => needle::run_scalar(&build_needle_bin(&b), gu("needle_index").unwrap_or(0), &mut st, 0),
        "needle-str-array" => needle::run_array(&build_needle_str(&b), gu("shift").unwrap_or(0), &mut st, 0),
        "needle-bin-array" => needle::run_array(&build_needle_bin(&b), gu("shift").unwrap_or(0), &mut st, 0),
        "regexp" => regexp::run_regex(&build_regex(&b), gu("regex_index").unwrap_or(0), &mut st, 0),
        "substring" => {
            let groups = substr::build_groups(&hays_of(b.hay_len), &bytes_over(&BYTES, b.bin_len));
            let combos = substr::combos();
            let want = (case["start"].as_i64().unwrap_or(0), case["length"].as_u64());
            for (gi, g) in groups.iter().enumerate() {
                if Some(g.name.as_str()) == case["group"].as_str() {
                    let coi = combos.iter().position(|c| *c == want).unwrap_or(0);
                    substr::run_substring(g, gi, combos[coi], coi, &mut st, 0);
                }
            }
        }
        "substring_by_char" => {
            let alpha = run_alpha();
            let fams = build_str_families(&alpha, &hays_of(b.hay_len));
            let combos = substr::combos();
            let want = (case["start"].as_i64().unwrap_or(0), case["length"].as_u64());
            let coi = combos.iter().position(|c| *c == want).unwrap_or(0);
            substr::run_by_char(&fams[0].table, &fams[0].cols, combos[coi], coi, &mut st, 0);
        }
        s => {
            let only = if s.starts_with("concat") {
                "concat"
            } else if s == "empty" {
                "empty"
            } else if s.starts_with("regexp") {
                "regexp"
            } else {
                "substring"
            };
            println!("replay: sub-engine {s:?} has no per-unit replay; re-running the whole `{only}` sub-engine");
            return Some(only.to_string());
        }
    }
    let bad = !st.violations.is_empty();
    st.violations.sort_by_key(|v| v.order);
    for v in &st.violations {
        println!("replay outcome: VIOLATION {} :: {}", v.fingerprint, v.message);
    }
    if !bad {
        println!("replay outcome: every call of the replayed unit agrees with the reference definition");
    }
    std::process::exit(if bad { 1 } else { 0 });
}

pub fn run(ctx: &Ctx) -> ! {
    let replay_only = vcore::load_replay(ctx).map(|case| replay(&case).expect("replay() exits unless it returns a filter"));
    let b = match &replay_only {
        Some(_) => bounds(vcore::load_replay(ctx).is_none_or(|c| c["tier"].as_str() != Some("thorough"))),
        None => bounds(ctx.quick()),
    };
    let mut st = Stats::new();
    let only = replay_only.or_else(|| ctx.extra_args.iter().find_map(|a| a.strip_prefix("--only=").map(|s| s.to_string())));
    let want = |s: &str| only.as_deref().is_none_or(|o| o == s);
    let lap = |what: &str| eprintln!("[c20] {what} at {:.1}s", ctx.start.elapsed().as_secs_f64());

    // ---- zero-length inputs
    if want("empty") {
        let mut k = 0;
        for kind in empty::KINDS {
            for le in empty::ENCS {
                for re in empty::ENCS {
                    empty::run(kind, le, re, &mut st, BASE_EMPTY + k);
                    k += 1;
                }
            }
        }
        st.sample("empty", || json!({"kinds": empty::KINDS.len(), "encodings": format!("{:?}", empty::ENCS)}));
        lap("empty done");
    }
    // ---- like: scalar haystack x pattern column
    if want("like-lscalar") {
        let (alpha, w) = build_lscalar(&b);
        st.merge(par_for(ctx, "like-lscalar", w.hays.len() as u64, 1, |idx, st| like::run_lscalar(&alpha, &w, idx as usize, st, false, BASE_LSCALAR)));
        lap("like-lscalar done");
    }
    // ---- needles (strings)
    if want("needle-str") {
        let w = build_needle_str(&b);
        st.merge(par_for(ctx, "needle-str-scalar", w.n_needles as u64, 1, |idx, st| needle::run_scalar(&w, idx as usize, st, BASE_NEEDLE_STR_S)));
        lap("needle-str-scalar done");
        st.merge(par_for(ctx, "needle-str-array", w.n_needles as u64, 1, |idx, st| needle::run_array(&w, idx as usize, st, BASE_NEEDLE_STR_A)));
        lap("needle-str-array done");
    }
    // ---- needles (binary)
    if want("needle-bin") {
        let w = build_needle_bin(&b);
        st.merge(par_for(ctx, "needle-bin-scalar", w.n_needles as u64, 1, |idx, st| needle::run_scalar(&w, idx as usize, st, BASE_NEEDLE_BIN_S)));
        st.merge(par_for(ctx, "needle-bin-array", w.n_needles as u64, 1, |idx, st| needle::run_array(&w, idx as usize, st, BASE_NEEDLE_BIN_A)));
        lap("needle-bin done");
    }
    // ---- regexp
    if want("regexp") {
        let w = build_regex(&b);
        lap(&format!("regex world built ({} compiling, {} non-compiling)", w.res.len(), w.bad.len()));
        st.count("regexes_compiling", w.res.len() as u64);
        st.count("regexes_not_compiling", w.bad.len() as u64);
        st.merge(par_for(ctx, "regexp", w.res.len() as u64, 1, |idx, st| regexp::run_regex(&w, idx as usize, st, BASE_REGEX)));
        st.merge(par_for(ctx, "regexp-noncompiling", w.bad.len() as u64, 16, |idx, st| regexp::run_bad(&w, idx as usize, st, BASE_REGEX_BAD)));
        lap("regexp done");
    }
    // ---- substring / substring_by_char / length
    if want("substring") {
        let hays = hays_of(b.hay_len);
        let bins = bytes_over(&BYTES, b.bin_len);
        let groups = substr::build_groups(&hays, &bins);
        let combos = substr::combos();
        let nc = combos.len() as u64;
        st.count("substring_groups", groups.len() as u64);
        st.merge(par_for(ctx, "substring", groups.len() as u64 * nc, 1, |idx, st| {
            let (gi, coi) = ((idx / nc) as usize, (idx % nc) as usize);
            substr::run_substring(&groups[gi], gi, combos[coi], coi, st, BASE_SUBSTRING);
            if idx == 0 || idx == groups.len() as u64 * nc - 1 {
                st.sample("substring", || json!({"group": groups[gi].name, "start": combos[coi].0, "length": combos[coi].1, "columns": groups[gi].cols.iter().map(|c| c.name.clone()).collect::<Vec<_>>()}));
            }
        }));
        let fsb = substr::build_fsb(b.bin_len);
        st.merge(par_for(ctx, "substring-fixedsizebinary", nc, 1, |idx, st| substr::run_fsb(&fsb, combos[idx as usize], idx as usize, st, BASE_SUBSTRING_FSB)));
        lap("substring done");
        let alpha = run_alpha();
        let fams = build_str_families(&alpha, &hays);
        st.merge(par_for(ctx, "substring_by_char", nc, 1, |idx, st| {
            substr::run_by_char(&fams[0].table, &fams[0].cols, combos[idx as usize], idx as usize, st, BASE_BY_CHAR);
            if idx == nc - 1 {
                st.sample("substring_by_char", || json!({"start": combos[idx as usize].0, "length": combos[idx as usize].1}));
            }
        }));
        lap("substring_by_char done");
        // length / bit_length on every column of every family
        let bfams = build_bin_families(&bins);
        let mut k = 0;
        for f in fams.iter().chain(bfams.iter()) {
            for c in &f.cols {
                substr::run_length(&f.table, c, k, &mut st, BASE_LENGTH);
                k += 1;
            }
        }
        st.sample("length", || json!({"columns": k}));
        lap("length done");
    }
    // ---- concat
    if want("concat") {
        let ws = concat::build("str", &concat::str_elems());
        st.merge(par_for(ctx, "concat-str", ws.cols.len() as u64, 1, |idx, st| concat::run_left(&ws, idx as usize, st, BASE_CONCAT_STR)));
        let wb = concat::build("bin", &concat::bin_elems());
        st.merge(par_for(ctx, "concat-bin", wb.cols.len() as u64, 1, |idx, st| concat::run_left(&wb, idx as usize, st, BASE_CONCAT_BIN)));
        let t2 = to_bytes(&hays_of(2));
        let b3 = bytes_over(&BYTES, 3);
        st.merge(par_for(ctx, "concat-packed", 6, 1, |idx, st| {
            if idx < 3 { concat::run_packed("str", &t2, idx as usize, st, BASE_CONCAT_PACKED) } else { concat::run_packed("bin", &b3, idx as usize - 3, st, BASE_CONCAT_PACKED + 1000) }
        }));
        concat::run_fsb(&mut st, BASE_CONCAT_FSB);
        lap("concat done");
    }

    // ---- like: array x (scalar pattern | pattern column); the largest sub-engine runs last
    if want("like") {
        let w = build_like_world("like", b.hay_len, b.pat_len);
        lap(&format!("like world built ({} patterns x {} haystacks)", w.pats.len(), w.fams[0].table.len()));
        st.merge(par_for(ctx, "like", w.pats.len() as u64, 2, |idx, st| like::run_pattern(&w, idx as usize, st, false)));
        st.extra.insert("regex_fold_pairs_in_alphabet".into(), json!(w.alpha.fold_pairs()));
        st.extra.insert("like_columns".into(), json!(w.fams.iter().map(|f| json!({"family": f.name, "haystacks": f.table.len(), "columns": f.cols.iter().map(|c| format!("{} ({} rows)", c.name, c.len())).collect::<Vec<_>>()})).collect::<Vec<_>>()));
        lap("like done");
    }
    if let (true, Some((h, p))) = (want("like-long"), b.like_long) {
        let w = build_like_world("like-long", h, p);
        lap(&format!("like-long world built ({} patterns x {} haystacks)", w.pats.len(), w.fams[0].table.len()));
        st.merge(par_for(ctx, "like-long", w.pats.len() as u64, 1, |idx, st| like::run_pattern(&w, idx as usize, st, false)));
        lap("like-long done");
    }
    // make every replay file self-describing about the bounds it was found under
    for v in &mut st.violations {
        if let Some(o) = v.case.as_object_mut() {
            o.insert("tier".into(), json!(b.tier));
        }
    }
    st.extra.insert("bounds".into(), json!({"haystack_len": b.hay_len, "like_pattern_len": b.pat_len, "needle_len": b.needle_len, "byte_string_len": b.bin_len, "regex_len": b.re_len, "lhs_scalar_haystack_len": b.ls_hay_len, "lhs_scalar_pattern_len": b.ls_pat_len, "like_long_pass_haystack_len_pattern_len": b.like_long.map(|(h, p)| vec![h, p]), "substring_start": "-5..=5", "substring_length": "None, 0..=5"}));
    if let Some(o) = &only {
        st.cap(format!("--only={o}: other sub-engines skipped"));
    }

    vcore::finish(
        ctx,
        Level {
            category: "exploration",
            rule: "every sub-engine enumerates a complete product, never a sample. evaluations = kernel output rows compared with the reference. distinct_nontrivial = distinct (pattern|needle|regex+flag|start,length|column pair , haystack) reference pairs in which neither side is empty (each pair is counted once although it is evaluated under every op, form, encoding and layout)".into(),
            assumptions: vec![
                "LIKE semantics: % any sequence incl. newline, _ exactly one scalar value, \\x literal x, lone trailing backslash = literal backslash (as arrow-string/src/predicate.rs documents)".into(),
                "case-insensitivity = single-scalar relation `regex (?i)^c1$ matches c2` precomputed for the run alphabet (simple case folding as implemented by the regex engine)".into(),
                "regex semantics are those of the regex crate (compared across encodings / forms / flags only)".into(),
                "byte substring: a cut inside a character may be an error or any valid UTF-8 output; with every cut on a boundary the result must be exact".into(),
                "out-of-range substring start / length are clamped (front for non-negative start, back for negative)".into(),
            ],
            exhaustive_space: format!(
                "LIKE patterns: all strings of length <= {} over {{% _ \\ a A k é . \\n}}; haystacks: all strings of length <= {} over 18 scalar values (DESIGN Sigma + \\ % _), also with a fixed 13-byte prefix / suffix; needles <= {}; byte strings <= {} over {{00 61 C3 A9 FF}}; regexes <= {} over {{a . * ^ $ ( ) | é}}; substring start -5..=5 x length None,0..=5; concat: all column pairs of length <= 2 over 23 string / 9 binary elements",
                b.pat_len, b.hay_len, b.needle_len, b.bin_len, b.re_len
            ),
        },
        st,
    )
}
