//! C20 sub-engine `concat`: concat_elements_{utf8, utf8_many, string_view_array, binary, binary_view_array,
//! fixed_size_binary, dyn} on every pair of columns of length <= 2 over a small element set, plus one
//! packed cross-product column pair per encoding.
use crate::tables::*;
use crate::util::{extract_bytes, first_diff};
use arrow_array::cast::AsArray;
use arrow_array::{Array, ArrayRef, FixedSizeBinaryArray};
use arrow_buffer::{Buffer, NullBuffer};
use arrow_schema::{ArrowError, DataType};
use arrow_string::concat_elements::*;
use std::sync::Arc;
use vcore::serde_json::json;
use vcore::{Stats, catch};

type Elem = Option<Vec<u8>>;
const LAYOUTS: [&str; 2] = ["compact", "sliced"];

pub struct ConcatWorld {
    /// "str" / "bin"
    pub class: &'static str,
    pub kinds: [Kind; 3],
    /// logical columns (length 0, 1, 2)
    pub cols: Vec<Vec<Elem>>,
    /// arrays[kind][layout 0 compact / 1 sliced][col]
    pub arrays: Vec<[Vec<ArrayRef>; 2]>,
}

pub fn str_elems() -> Vec<Elem> {
    let mut e: Vec<Elem> = vec![None, Some(vec![])];
    for c in haystack_alphabet() {
        e.push(Some(c.to_string().into_bytes()));
    }
    e.push(Some("\u{e9}\u{1D11E}".as_bytes().to_vec()));
    e.push(Some(LONG_PREFIX.as_bytes().to_vec())); // 13 bytes: out of line on its own
    e.push(Some(b"0123456789ab".to_vec())); // 12 bytes: inline, out of line once anything is appended
    e
}
pub fn bin_elems() -> Vec<Elem> {
    let mut e: Vec<Elem> = vec![None, Some(vec![])];
    for b in BYTES {
        e.push(Some(vec![b]));
    }
    e.push(Some(vec![0xC3, 0xA9]));
    e.push(Some(LONG_PREFIX.as_bytes().to_vec()));
    e
}

fn build_array(kind: Kind, col: &[Elem], sliced: bool) -> ArrayRef {
    let filler: Elem = Some(if kind.is_str() { "\u{e9}x".as_bytes().to_vec() } else { vec![0xFF, 0x00] });
    let mut v: Vec<Option<&[u8]>> = vec![];
    if sliced {
        v.push(filler.as_deref());
        v.push(None);
    }
    v.extend(col.iter().map(|e| e.as_deref()));
    if sliced {
        v.push(filler.as_deref());
    }
    let a = make_opt(kind, &v);
    if sliced { a.slice(2, col.len()) } else { a }
}

pub fn build(class: &'static str, elems: &[Elem]) -> ConcatWorld {
    let kinds = if class == "str" { [Kind::Utf8, Kind::LargeUtf8, Kind::Utf8View] } else { [Kind::Binary, Kind::LargeBinary, Kind::BinaryView] };
    let mut cols: Vec<Vec<Elem>> = vec![vec![]];
    for a in elems {
        cols.push(vec![a.clone()]);
    }
    for a in elems {
        for b in elems {
            cols.push(vec![a.clone(), b.clone()]);
        }
    }
    let arrays = kinds.iter().map(|&k| [cols.iter().map(|c| build_array(k, c, false)).collect(), cols.iter().map(|c| build_array(k, c, true)).collect()]).collect();
    ConcatWorld { class, kinds, cols, arrays }
}

fn expected(cols: &[&Vec<Elem>]) -> Vec<Elem> {
    let n = cols[0].len();
    (0..n)
        .map(|r| {
            let mut out = vec![];
            for c in cols {
                out.extend_from_slice(c[r].as_ref()?);
            }
            Some(out)
        })
        .collect()
}

fn check(res: Result<Result<ArrayRef, ArrowError>, vcore::PanicInfo>, want_type: &DataType, want: &[Elem]) -> Option<(String, String)> {
    match res {
        Err(p) => Some((crate::util::pfp(&p), format!("panic {p:?}"))),
        Ok(Err(e)) => Some(("unexpected-error".into(), format!("Err({e})"))),
        Ok(Ok(out)) => {
            if let Err(e) = out.to_data().validate_full() {
                return Some(("wf".into(), format!("output fails validate_full: {e}")));
            }
            if out.data_type() != want_type {
                return Some(("type".into(), format!("output type {} want {want_type}", out.data_type())));
            }
            let got = match extract_bytes(out.as_ref()) {
                Ok(g) => g,
                Err(e) => return Some(("type".into(), e)),
            };
            first_diff(&got, want).map(|(r, g, w, n)| ("value".to_string(), format!("row {r}: got {g} want {w} ({n} rows differ)")))
        }
    }
}

fn arc<A: Array + 'static>(r: Result<A, ArrowError>) -> Result<ArrayRef, ArrowError> {
    r.map(|a| Arc::new(a) as ArrayRef)
}

/// one unit: left column `li` against every right column of the same length
pub fn run_left(w: &ConcatWorld, li: usize, st: &mut Stats, order_base: u64) {
    let l = &w.cols[li];
    for (ri, r) in w.cols.iter().enumerate() {
        if r.len() != l.len() {
            continue;
        }
        let want2 = expected(&[l, r]);
        let want3 = expected(&[l, r, l]);
        let want1 = expected(&[l]);
        let nontrivial = want2.iter().any(|e| e.as_ref().is_some_and(|b| !b.is_empty())) as u64;
        for ll in 0..2 {
            let rl = (li + ri + ll) % 2;
            let mut calls: Vec<(&'static str, Kind, Result<Result<ArrayRef, ArrowError>, vcore::PanicInfo>, &Vec<Elem>)> = vec![];
            for (ki, &k) in w.kinds.iter().enumerate() {
                let la = &w.arrays[ki][ll][li];
                let ra = &w.arrays[ki][rl][ri];
                match k {
                    Kind::Utf8 => {
                        calls.push(("concat_elements_utf8", k, catch(|| arc(concat_elements_utf8(la.as_string::<i32>(), ra.as_string::<i32>()))), &want2));
                        calls.push(("concat_elements_utf8_many[2]", k, catch(|| arc(concat_elements_utf8_many(&[la.as_string::<i32>(), ra.as_string::<i32>()]))), &want2));
                        calls.push(("concat_elements_utf8_many[3]", k, catch(|| arc(concat_elements_utf8_many(&[la.as_string::<i32>(), ra.as_string::<i32>(), la.as_string::<i32>()]))), &want3));
                        calls.push(("concat_elements_utf8_many[1]", k, catch(|| arc(concat_elements_utf8_many(&[la.as_string::<i32>()]))), &want1));
                    }
                    Kind::LargeUtf8 => {
                        calls.push(("concat_elements_utf8", k, catch(|| arc(concat_elements_utf8(la.as_string::<i64>(), ra.as_string::<i64>()))), &want2));
                        calls.push(("concat_elements_utf8_many[3]", k, catch(|| arc(concat_elements_utf8_many(&[ra.as_string::<i64>(), la.as_string::<i64>(), ra.as_string::<i64>()]))), &want3));
                    }
                    Kind::Utf8View => calls.push(("concat_elements_string_view_array", k, catch(|| arc(concat_elements_string_view_array(la.as_string_view(), ra.as_string_view()))), &want2)),
                    Kind::Binary => calls.push(("concat_element_binary", k, catch(|| arc(concat_element_binary(la.as_binary::<i32>(), ra.as_binary::<i32>()))), &want2)),
                    Kind::LargeBinary => calls.push(("concat_element_binary", k, catch(|| arc(concat_element_binary(la.as_binary::<i64>(), ra.as_binary::<i64>()))), &want2)),
                    Kind::BinaryView => calls.push(("concat_elements_binary_view_array", k, catch(|| arc(concat_elements_binary_view_array(la.as_binary_view(), ra.as_binary_view()))), &want2)),
                }
                calls.push(("concat_elements_dyn", k, catch(|| concat_elements_dyn(la.as_ref(), ra.as_ref())), &want2));
            }
            // the LargeUtf8 many[3] call is (r, l, r)
            let want3_rlr = expected(&[r, l, r]);
            for (name, k, res, want) in calls {
                let want = if name == "concat_elements_utf8_many[3]" && k == Kind::LargeUtf8 { &want3_rlr } else { want };
                let dt = w.arrays[w.kinds.iter().position(|x| *x == k).unwrap()][0][li].data_type().clone();
                st.add(&format!("concat-{}", w.class), l.len() as u64, nontrivial);
                match check(res, &dt, want) {
                    None => st.outcome(&format!("concat:{name}:{}:ok", k.name())),
                    Some((kind, detail)) => {
                        let fp = if kind == "wf" { format!("wf:c20:{name}:{}", k.name()) } else { format!("c20:{name}:{}:{kind}", k.name()) };
                        st.violate(
                            order_base + (((li as u64) << 24) | ((ri as u64) << 4) | ll as u64),
                            fp,
                            format!("{name}<{}>(left {:?} [{}], right {:?} [{}]): {detail}", k.name(), show_col(l), ["compact", "sliced"][ll], show_col(r), ["compact", "sliced"][rl]),
                            || json!({"sub": format!("concat-{}", w.class), "fn": name, "kind": k.name(), "left": show_col(l), "right": show_col(r), "left_layout": LAYOUTS[ll], "right_layout": LAYOUTS[rl], "detail": detail}),
                        );
                    }
                }
            }
        }
    }
    if li == w.cols.len() - 1 {
        st.sample(&format!("concat-{}", w.class), || json!({"left": show_col(l), "columns": w.cols.len()}));
    }
}

fn show_col(c: &[Elem]) -> Vec<Option<String>> {
    c.iter().map(|e| e.as_ref().map(|b| show(b))).collect()
}

// ---------------------------------------------------------------------------------------------
// packed cross product: row r = (T[r / n], T[r % n])

pub fn run_packed(class: &'static str, table: &[Vec<u8>], only_kind: usize, st: &mut Stats, order_base: u64) {
    let n = table.len();
    let kinds = if class == "str" { [Kind::Utf8, Kind::LargeUtf8, Kind::Utf8View] } else { [Kind::Binary, Kind::LargeBinary, Kind::BinaryView] };
    let total = n * n;
    let lsel: Vec<u32> = (0..total).map(|r| (r / n) as u32).collect();
    let rsel: Vec<u32> = (0..total).map(|r| (r % n) as u32).collect();
    for (ki, &k) in kinds.iter().enumerate() {
        if ki != only_kind {
            continue;
        }
        for (li, ll) in [Layout::Compact, Layout::SlicedNulls].into_iter().enumerate() {
            for (ri, rl) in [Layout::Compact, Layout::Sliced, Layout::Nulls].into_iter().enumerate() {
                let lc = make_col(k, Dict::None, ll, table, &lsel, false, "");
                // shift the null pattern of the right column by using a different layout
                let rc = make_col(k, Dict::None, rl, table, &rsel, false, "");
                let want: Vec<Elem> = (0..total)
                    .map(|r| {
                        let a = &table[lc.rows[r]? as usize];
                        let b = &table[rc.rows[r]? as usize];
                        Some([a.as_slice(), b.as_slice()].concat())
                    })
                    .collect();
                let (la, ra) = (&lc.arr, &rc.arr);
                let mut calls: Vec<(&'static str, Result<Result<ArrayRef, ArrowError>, vcore::PanicInfo>)> = vec![("concat_elements_dyn", catch(|| concat_elements_dyn(la.as_ref(), ra.as_ref())))];
                match k {
                    Kind::Utf8 => {
                        calls.push(("concat_elements_utf8", catch(|| arc(concat_elements_utf8(la.as_string::<i32>(), ra.as_string::<i32>())))));
                        calls.push(("concat_elements_utf8_many[2]", catch(|| arc(concat_elements_utf8_many(&[la.as_string::<i32>(), ra.as_string::<i32>()])))));
                    }
                    Kind::LargeUtf8 => {
                        calls.push(("concat_elements_utf8", catch(|| arc(concat_elements_utf8(la.as_string::<i64>(), ra.as_string::<i64>())))));
                        calls.push(("concat_elements_utf8_many[2]", catch(|| arc(concat_elements_utf8_many(&[la.as_string::<i64>(), ra.as_string::<i64>()])))));
                    }
                    Kind::Utf8View => calls.push(("concat_elements_string_view_array", catch(|| arc(concat_elements_string_view_array(la.as_string_view(), ra.as_string_view()))))),
                    Kind::Binary => calls.push(("concat_element_binary", catch(|| arc(concat_element_binary(la.as_binary::<i32>(), ra.as_binary::<i32>()))))),
                    Kind::LargeBinary => calls.push(("concat_element_binary", catch(|| arc(concat_element_binary(la.as_binary::<i64>(), ra.as_binary::<i64>()))))),
                    Kind::BinaryView => calls.push(("concat_elements_binary_view_array", catch(|| arc(concat_elements_binary_view_array(la.as_binary_view(), ra.as_binary_view()))))),
                }
                for (name, res) in calls {
                    st.add(&format!("concat-{class}-packed"), total as u64, 0);
                    match check(res, la.data_type(), &want) {
                        None => st.outcome(&format!("concat:{name}:{}:ok", k.name())),
                        Some((kind, detail)) => {
                            let fp = if kind == "wf" { format!("wf:c20:{name}:{}", k.name()) } else { format!("c20:{name}:{}:{kind}", k.name()) };
                            st.violate(order_base + ((ki * 100 + li * 10 + ri) as u64), fp, format!("{name}<{}> on the packed cross product (left {}, right {}): {detail}", k.name(), lc.name, rc.name), || {
                                json!({"sub": format!("concat-{class}-packed"), "fn": name, "kind": k.name(), "left_layout": lc.name, "right_layout": rc.name, "detail": detail})
                            });
                        }
                    }
                }
            }
        }
    }
    st.add(&format!("concat-{class}-packed"), 0, ((n - 1) * (n - 1)) as u64);
}

// ---------------------------------------------------------------------------------------------
// FixedSizeBinary

fn fsb_elems(w: usize) -> Vec<Elem> {
    let mut e: Vec<Elem> = vec![None];
    match w {
        0 => e.push(Some(vec![])),
        1 => e.extend(BYTES.iter().map(|b| Some(vec![*b]))),
        _ => e.extend([[0x00, 0x61], [0xC3, 0xA9], [0xFF, 0xFF]].iter().map(|b| Some(b.to_vec()))),
    }
    e
}
fn fsb_cols(w: usize) -> Vec<Vec<Elem>> {
    let e = fsb_elems(w);
    let mut cols: Vec<Vec<Elem>> = vec![vec![]];
    for a in &e {
        cols.push(vec![a.clone()]);
    }
    for a in &e {
        for b in &e {
            cols.push(vec![a.clone(), b.clone()]);
        }
    }
    cols
}
fn fsb_array(w: usize, col: &[Elem], sliced: bool) -> ArrayRef {
    let pre = if sliced { 1 } else { 0 };
    let mut data = vec![];
    let mut valid = vec![];
    for _ in 0..pre {
        data.extend(std::iter::repeat_n(0xEEu8, w));
        valid.push(true);
    }
    for e in col {
        match e {
            Some(b) => {
                data.extend_from_slice(b);
                valid.push(true)
            }
            None => {
                data.extend(std::iter::repeat_n(0x77u8, w));
                valid.push(false)
            }
        }
    }
    let a: ArrayRef = Arc::new(FixedSizeBinaryArray::new(w as i32, Buffer::from(data), Some(NullBuffer::from(valid))));
    if sliced { a.slice(pre, col.len()) } else { a }
}

pub fn run_fsb(st: &mut Stats, order_base: u64) {
    for wl in 0..=2usize {
        for wr in 0..=2usize {
            let lcols = fsb_cols(wl);
            let rcols = fsb_cols(wr);
            for (li, l) in lcols.iter().enumerate() {
                for (ri, r) in rcols.iter().enumerate() {
                    if l.len() != r.len() {
                        continue;
                    }
                    let want = expected(&[l, r]);
                    let sl = (li + ri) % 2 == 1;
                    let la = fsb_array(wl, l, sl);
                    let ra = fsb_array(wr, r, !sl);
                    let dt = DataType::FixedSizeBinary((wl + wr) as i32);
                    for (name, res) in [
                        ("concat_elements_fixed_size_binary", catch(|| arc(concat_elements_fixed_size_binary(la.as_fixed_size_binary(), ra.as_fixed_size_binary())))),
                        ("concat_elements_dyn", catch(|| concat_elements_dyn(la.as_ref(), ra.as_ref()))),
                    ] {
                        st.add("concat-fixedsizebinary", l.len() as u64, (wl + wr > 0 && !l.is_empty()) as u64);
                        match check(res, &dt, &want) {
                            None => st.outcome(&format!("concat:{name}:fixedsizebinary:ok")),
                            Some((kind, detail)) => {
                                let fp = if kind == "wf" { format!("wf:c20:{name}:fixedsizebinary") } else { format!("c20:{name}:fixedsizebinary:{kind}") };
                                st.violate(order_base + ((wl * 3 + wr) as u64) * 1_000_000 + (li * 1000 + ri) as u64, fp, format!("{name}(FixedSizeBinary({wl}) {:?}, FixedSizeBinary({wr}) {:?}): {detail}", show_col(l), show_col(r)), || {
                                    json!({"sub": "concat-fixedsizebinary", "fn": name, "left_width": wl, "right_width": wr, "left": show_col(l), "right": show_col(r), "detail": detail})
                                });
                            }
                        }
                    }
                }
            }
        }
    }
}
