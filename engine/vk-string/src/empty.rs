//! C20 sub-engine `empty`: every kernel on zero-length inputs in every encoding, including dictionaries
//! without values. A zero-row input has zero rows of output: the call must return Ok(empty array of
//! the right type), never panic.
use crate::tables::*;
use arrow_array::cast::AsArray;
use arrow_array::types::{Int8Type, Int32Type};
use arrow_array::*;
use arrow_schema::ArrowError;
use std::sync::Arc;
use vcore::serde_json::json;
use vcore::{Stats, catch};

#[derive(Clone, Copy, Debug, PartialEq)]
pub enum EmptyEnc {
    Plain,
    /// slice(1, 0) of a non-empty array
    PlainSlicedToZero,
    /// dictionary with zero keys and zero values
    Dict8NoValues,
    Dict32NoValues,
    /// dictionary with values but zero keys
    Dict32ZeroKeys,
}
pub const ENCS: [EmptyEnc; 5] = [EmptyEnc::Plain, EmptyEnc::PlainSlicedToZero, EmptyEnc::Dict8NoValues, EmptyEnc::Dict32NoValues, EmptyEnc::Dict32ZeroKeys];
pub const KINDS: [Kind; 6] = [Kind::Utf8, Kind::LargeUtf8, Kind::Utf8View, Kind::Binary, Kind::LargeBinary, Kind::BinaryView];

pub fn make_empty(kind: Kind, enc: EmptyEnc) -> ArrayRef {
    let some: Vec<&[u8]> = vec![b"a", b"ab"];
    match enc {
        EmptyEnc::Plain => make_plain(kind, &[], None),
        EmptyEnc::PlainSlicedToZero => make_plain(kind, &some, None).slice(1, 0),
        EmptyEnc::Dict8NoValues => Arc::new(DictionaryArray::<Int8Type>::new(Int8Array::from(Vec::<i8>::new()), make_plain(kind, &[], None))),
        EmptyEnc::Dict32NoValues => Arc::new(DictionaryArray::<Int32Type>::new(Int32Array::from(Vec::<i32>::new()), make_plain(kind, &[], None))),
        EmptyEnc::Dict32ZeroKeys => Arc::new(DictionaryArray::<Int32Type>::new(Int32Array::from(Vec::<i32>::new()), make_plain(kind, &some, None))),
    }
}

fn is_dict(e: EmptyEnc) -> bool {
    !matches!(e, EmptyEnc::Plain | EmptyEnc::PlainSlicedToZero)
}

/// one unit: (kind, left encoding, right encoding)
pub fn run(kind: Kind, le: EmptyEnc, re: EmptyEnc, st: &mut Stats, order: u64) {
    let l = make_empty(kind, le);
    let r = make_empty(kind, re);
    let scalar = Scalar::new(make_plain(kind, &[b"a%"], None));
    let mut calls: Vec<(String, Result<Result<ArrayRef, ArrowError>, vcore::PanicInfo>)> = vec![];
    let b = |x: Result<BooleanArray, ArrowError>| x.map(|a| Arc::new(a) as ArrayRef);
    use arrow_string::like::*;
    if kind.is_str() {
        calls.push(("like(array,array)".into(), catch(|| b(like(&l, &r)))));
        calls.push(("ilike(array,array)".into(), catch(|| b(ilike(&l, &r)))));
        calls.push(("nlike(array,array)".into(), catch(|| b(nlike(&l, &r)))));
        calls.push(("nilike(array,array)".into(), catch(|| b(nilike(&l, &r)))));
    }
    calls.push(("starts_with(array,array)".into(), catch(|| b(starts_with(&l, &r)))));
    calls.push(("ends_with(array,array)".into(), catch(|| b(ends_with(&l, &r)))));
    calls.push(("contains(array,array)".into(), catch(|| b(contains(&l, &r)))));
    if le == re {
        // unary / scalar-pattern kernels once per left encoding
        if kind.is_str() {
            calls.push(("like(array,scalar)".into(), catch(|| b(like(&l, &scalar)))));
            calls.push(("ilike(array,scalar)".into(), catch(|| b(ilike(&l, &scalar)))));
        }
        calls.push(("starts_with(array,scalar)".into(), catch(|| b(starts_with(&l, &scalar)))));
        calls.push(("contains(array,scalar)".into(), catch(|| b(contains(&l, &scalar)))));
        calls.push(("length".into(), catch(|| arrow_string::length::length(l.as_ref()))));
        calls.push(("bit_length".into(), catch(|| arrow_string::length::bit_length(l.as_ref()))));
        calls.push(("substring".into(), catch(|| arrow_string::substring::substring(l.as_ref(), 1, Some(2)))));
        if !is_dict(le) {
            calls.push(("concat_elements_dyn".into(), catch(|| arrow_string::concat_elements::concat_elements_dyn(l.as_ref(), r.as_ref()))));
            match kind {
                Kind::Utf8 => {
                    calls.push(("substring_by_char".into(), catch(|| arrow_string::substring::substring_by_char(l.as_string::<i32>(), -1, Some(2)).map(|a| Arc::new(a) as ArrayRef))));
                    calls.push(("regexp_is_match".into(), catch(|| b(arrow_string::regexp::regexp_is_match(l.as_string::<i32>(), r.as_string::<i32>(), None::<&StringArray>)))));
                    calls.push(("regexp_is_match_scalar".into(), catch(|| b(arrow_string::regexp::regexp_is_match_scalar(l.as_string::<i32>(), "a", Some("i"))))));
                }
                Kind::LargeUtf8 => {
                    calls.push(("substring_by_char".into(), catch(|| arrow_string::substring::substring_by_char(l.as_string::<i64>(), -1, Some(2)).map(|a| Arc::new(a) as ArrayRef))));
                    calls.push(("regexp_is_match".into(), catch(|| b(arrow_string::regexp::regexp_is_match(l.as_string::<i64>(), r.as_string::<i64>(), None::<&StringArray>)))));
                }
                Kind::Utf8View => {
                    calls.push(("regexp_is_match".into(), catch(|| b(arrow_string::regexp::regexp_is_match(l.as_string_view(), r.as_string_view(), None::<&StringArray>)))));
                    calls.push(("regexp_is_match_scalar".into(), catch(|| b(arrow_string::regexp::regexp_is_match_scalar(l.as_string_view(), "a", None)))));
                }
                _ => {}
            }
        }
    }
    for (name, res) in calls {
        st.add("empty", 1, 1);
        let problem = match res {
            Err(p) => Some((format!("c20:empty-input:{}", crate::util::pfp(&p)), format!("panicked: {p:?}"))),
            Ok(Err(e)) => Some((format!("c20:empty-input:{}:unexpected-error", name.split('(').next().unwrap()), format!("Err({e})"))),
            Ok(Ok(out)) => {
                if let Err(e) = out.to_data().validate_full() {
                    Some((format!("wf:c20:empty-input:{}", name.split('(').next().unwrap()), format!("output fails validate_full: {e}")))
                } else if out.len() != 0 {
                    Some((format!("c20:empty-input:{}:non-empty-output", name.split('(').next().unwrap()), format!("output has {} rows", out.len())))
                } else {
                    None
                }
            }
        };
        match problem {
            None => st.outcome("empty-input:ok"),
            Some((fp, detail)) => {
                st.outcome("empty-input:failure");
                st.count(&format!("empty_input_failures:{name}:{}:left={le:?}:right={re:?}", kind.name()), 1);
                st.violate(order, fp, format!("{name} on zero-length {} inputs (left {le:?}, right {re:?}): {detail}", kind.name()), || json!({"sub": "empty", "kernel": name, "kind": kind.name(), "left": format!("{le:?}"), "right": format!("{re:?}"), "detail": detail}));
            }
        }
    }
}
