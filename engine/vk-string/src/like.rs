//! C20 sub-engines `like` (array x scalar pattern / pattern column) and `like-lscalar` (scalar
//! haystack x pattern column): LIKE / ILIKE / NLIKE / NILIKE against the naive matcher.
use crate::oracle::{Alpha, Tok, like_match, shape, tokenize};
use crate::tables::*;
use arrow_array::{Array, ArrayRef, BooleanArray, Datum, Scalar};
use arrow_schema::ArrowError;
use vcore::serde_json::json;
use vcore::{Stats, catch};

pub const OPS: [&str; 4] = ["like", "ilike", "nlike", "nilike"];

pub fn call_like(op: usize, l: &dyn Datum, r: &dyn Datum) -> Result<BooleanArray, ArrowError> {
    match op {
        0 => arrow_string::like::like(l, r),
        1 => arrow_string::like::ilike(l, r),
        2 => arrow_string::like::nlike(l, r),
        _ => arrow_string::like::nilike(l, r),
    }
}

#[derive(Clone, Copy, PartialEq, Eq, Debug)]
pub enum Xform {
    Raw,
    Suffix,
    Prefix,
}
impl Xform {
    pub fn apply(self, s: &str) -> String {
        match self {
            Xform::Raw => s.to_string(),
            Xform::Suffix => format!("{s}{LONG_SUFFIX}"),
            Xform::Prefix => format!("{LONG_PREFIX}{s}"),
        }
    }
    pub fn name(self) -> &'static str {
        match self {
            Xform::Raw => "raw",
            Xform::Suffix => "+suffix13",
            Xform::Prefix => "prefix13+",
        }
    }
}

/// A haystack table with all its physical columns.
pub struct Family {
    pub name: &'static str,
    pub table: Vec<Vec<u8>>,
    /// alphabet ids per haystack (oracle input)
    pub ids: Vec<Vec<u8>>,
    pub cols: Vec<Col>,
    /// pattern transformations evaluated against this family
    pub variants: Vec<Xform>,
}

pub struct LikeWorld {
    /// sub-engine label ("like", or "like-long" for the thorough long-haystack pass)
    pub sub: &'static str,
    pub alpha: Alpha,
    pub pats: Vec<String>,
    pub fams: Vec<Family>,
}

/// row selector of the pattern column in the array form: 0 = main pattern, 1 = alternate pattern, 2 = null.
/// Runs of the main pattern interrupted by nulls (p, null, p keeps the cached predicate) and by blocks
/// of the alternate pattern (p, q, p forces rebuilds).
#[inline]
pub fn sel(r: usize) -> u8 {
    if r % 37 == 5 {
        2
    } else if (r / 37) % 41 == 3 || r % 1009 == 500 {
        1
    } else {
        0
    }
}

pub struct Mismatch {
    pub row: usize,
    pub got: String,
    pub want: String,
    pub count: usize,
    /// expected logical value at `row` (value mismatches only)
    pub want_b: Option<bool>,
}

/// Attribution of a value mismatch at (row pattern, haystack `h`), decided by re-running the kernel on
/// minimal columns: "" = the plain reference encoding (Utf8 / Binary, one row) is wrong too, i.e. the
/// defect is not encoding specific; ":enc=X" = only encoding X is wrong even on a minimal column;
/// ":context-dependent" = minimal columns are right, so the failure needs the surrounding rows / layout
/// (predicate cache, slicing, null handling).
pub fn attribute(col: &Col, table: &[Vec<u8>], h: Option<u32>, want: Option<bool>, run: &dyn Fn(&Col) -> Option<Option<bool>>) -> String {
    let Some(h) = h else { return ":null-row".into() };
    let refk = if col.kind.is_str() { Kind::Utf8 } else { Kind::Binary };
    let rc = make_col(refk, Dict::None, Layout::Compact, table, &[h], false, "");
    if run(&rc) != Some(want) {
        return String::new();
    }
    let sc = make_col(col.kind, col.dict, Layout::Compact, table, &[h], col.pat_dict, "");
    if run(&sc) != Some(want) {
        return format!(":enc={}", col.enc_class());
    }
    ":context-dependent".into()
}

/// Compare a kernel result against the per-row expectation.
/// Err(("wf"| "err" | "panic" | "len" | "value", detail))
pub fn check_bool(res: Result<Result<BooleanArray, ArrowError>, vcore::PanicInfo>, n: usize, want: impl Fn(usize) -> Option<bool>) -> Result<(), (String, Mismatch)> {
    let mm = |row, got: String, want: String, count| Mismatch { row, got, want, count, want_b: None };
    let arr = match res {
        Err(p) => return Err((crate::util::pfp(&p), mm(0, format!("panic {p:?}"), "a result".into(), 1))),
        Ok(Err(e)) => return Err(("unexpected-error".into(), mm(0, format!("Err({e})"), "Ok".into(), 1))),
        Ok(Ok(a)) => a,
    };
    if let Err(e) = arr.to_data().validate_full() {
        return Err(("wf".into(), mm(0, format!("validate_full: {e}"), "valid array".into(), 1)));
    }
    if arr.len() != n {
        return Err(("len".into(), mm(0, format!("len {}", arr.len()), format!("len {n}"), 1)));
    }
    let mut first: Option<Mismatch> = None;
    let mut count = 0;
    for r in 0..n {
        let got = arr.is_valid(r).then(|| arr.value(r));
        let w = want(r);
        if got != w {
            count += 1;
            if first.is_none() {
                let mut m = mm(r, format!("{got:?}"), format!("{w:?}"), 0);
                m.want_b = w;
                first = Some(m);
            }
        }
    }
    match first {
        None => Ok(()),
        Some(mut m) => {
            m.count = count;
            Err(("value".into(), m))
        }
    }
}

/// evaluation strategy class of a pattern shape (mirrors Eq / StartsWith / EndsWith / Contains / Regex)
pub fn strategy(shape: &str) -> String {
    let esc = shape.contains("+esc") || shape.contains("+trailing-backslash");
    let base = if shape.starts_with("literal") {
        "literal"
    } else if shape.starts_with("prefix%") {
        "prefix%"
    } else if shape.starts_with("%suffix") {
        "%suffix"
    } else if shape.starts_with("%infix%") {
        "%infix%"
    } else if shape == "null-pattern" {
        "null-pattern"
    } else {
        "wildcard"
    };
    format!("{base}{}", if esc { "+esc" } else { "" })
}

/// class-level fingerprint: c20:like:<strategy>[:<failing op/form subset>][:enc=.. | :context-dependent]
fn fp(kind: &str, opfam: &str, form: &str, shape: &str, which: &str, enc: &str) -> String {
    match kind {
        "value" => format!("c20:like:{}{which}{enc}", strategy(shape)),
        "wf" => format!("wf:c20:{opfam}:{form}"),
        "len" => format!("c20:{opfam}:{form}:wrong-length"),
        "unexpected-error" => format!("c20:{opfam}:{form}:{}:unexpected-error", strategy(shape)),
        p => format!("c20:{opfam}:{form}:{p}"),
    }
}

/// Which of {like, ilike} x {scalar, array} are wrong for (pattern, haystack) on a one-row plain Utf8
/// column: "" when all four (or none) are, else ":<list>".
fn failing_subset(alpha: &Alpha, pat: &str, hay: &[u8]) -> String {
    let toks = tokenize(alpha, pat);
    let ids = alpha.ids(std::str::from_utf8(hay).unwrap());
    let table = vec![hay.to_vec()];
    let c1 = make_col(Kind::Utf8, Dict::None, Layout::Compact, &table, &[0], false, "");
    let mut wrong = vec![];
    for (k, name) in [(0usize, "like"), (1, "ilike")] {
        let want = like_match(alpha, &toks, &ids, k == 1);
        for (form, fname) in [(0, "scalar"), (1, "array")] {
            let r = if form == 0 {
                catch(|| call_like(k, &c1.arr, &scalar_datum(&c1, pat.as_bytes())))
            } else {
                let pa = make_pat_array(&c1, &[Some(pat.as_bytes())]);
                catch(|| call_like(k, &c1.arr, &pa))
            };
            let ok = matches!(r, Ok(Ok(a)) if a.len() == 1 && a.is_valid(0) && a.value(0) == want);
            if !ok {
                wrong.push(format!("{name}-{fname}"));
            }
        }
    }
    if wrong.is_empty() || wrong.len() == 4 { String::new() } else { format!(":{}", wrong.join("+")) }
}

pub fn scalar_datum(col: &Col, p: &[u8]) -> Scalar<ArrayRef> {
    Scalar::new(make_pat_array(col, &[Some(p)]))
}

struct VariantExp {
    pstr: String,
    alt: String,
    alt_toks: Vec<Tok>,
    /// [like, ilike] x table
    exp: [Vec<bool>; 2],
    /// lazily computed expectation for the alternate pattern: 2 = unknown
    alt_exp: [Vec<u8>; 2],
}

/// one unit of work of the `like` sub-engine: pattern index `pi` against every family / column / op / form.
pub fn run_pattern(w: &LikeWorld, pi: usize, st: &mut Stats, verbose: bool) {
    let np = w.pats.len();
    let p = &w.pats[pi];
    let alt_i = (pi * 7 + 13) % np;
    for (fi, fam) in w.fams.iter().enumerate() {
        for &xf in &fam.variants {
            let pstr = xf.apply(p);
            let alt = xf.apply(&w.pats[alt_i]);
            let toks = tokenize(&w.alpha, &pstr);
            let alt_toks = tokenize(&w.alpha, &alt);
            let n = fam.table.len();
            let mut exp = [Vec::with_capacity(n), Vec::with_capacity(n)];
            for ids in &fam.ids {
                exp[0].push(like_match(&w.alpha, &toks, ids, false));
                exp[1].push(like_match(&w.alpha, &toks, ids, true));
            }
            let sh = shape(&pstr, &toks);
            for (k, name) in [(0, "like"), (1, "ilike")] {
                let t = exp[k].iter().filter(|b| **b).count() as u64;
                st.outcome_n(&format!("{name}:{sh}:match"), t);
                st.outcome_n(&format!("{name}:{sh}:no-match"), n as u64 - t);
            }
            // distinct (pattern, haystack) pairs; non-trivial = neither side empty
            let nt = if pstr.is_empty() { 0 } else { fam.table.iter().filter(|h| !h.is_empty()).count() as u64 };
            st.add(w.sub, 0, nt);
            st.count("like_distinct_pattern_haystack_pairs", n as u64);
            let mut ve = VariantExp { pstr, alt, alt_toks, exp, alt_exp: [vec![2u8; n], vec![2u8; n]] };
            run_variant(w, pi, fi, fam, xf, &mut ve, st, verbose);
        }
    }
    if pi == np / 2 || pi == np - 1 {
        st.sample(w.sub, || json!({"sub": w.sub, "pattern_index": pi, "pattern": p, "alt_pattern": w.pats[alt_i]}));
    }
}

#[allow(clippy::too_many_arguments)]
fn run_variant(w: &LikeWorld, pi: usize, fi: usize, fam: &Family, xf: Xform, ve: &mut VariantExp, st: &mut Stats, verbose: bool) {
    let mut ref_seen = [false; 2];
    // cache of pattern columns keyed by (kind, pat_dict, len)
    let mut pat_cache: Vec<(Kind, bool, usize, ArrayRef)> = vec![];
    for (ci, col) in fam.cols.iter().enumerate() {
        let grp = col.ascii as usize;
        let is_ref = !ref_seen[grp];
        ref_seen[grp] = true;
        let n = col.len();
        let scal = scalar_datum(col, ve.pstr.as_bytes());
        let pat_arr = match pat_cache.iter().find(|(k, d, l, _)| *k == col.kind && *d == col.pat_dict && *l == n) {
            Some(e) => e.3.clone(),
            None => {
                let vals: Vec<Option<&[u8]>> = (0..n)
                    .map(|r| match sel(r) {
                        0 => Some(ve.pstr.as_bytes()),
                        1 => Some(ve.alt.as_bytes()),
                        _ => None,
                    })
                    .collect();
                let a = make_pat_array(col, &vals);
                pat_cache.push((col.kind, col.pat_dict, n, a.clone()));
                a
            }
        };
        // make sure alternate expectations exist for the rows that need them
        for (r, row) in col.rows.iter().enumerate() {
            if sel(r) == 1 {
                if let Some(h) = row {
                    let h = *h as usize;
                    if ve.alt_exp[0][h] == 2 {
                        ve.alt_exp[0][h] = like_match(&w.alpha, &ve.alt_toks, &fam.ids[h], false) as u8;
                        ve.alt_exp[1][h] = like_match(&w.alpha, &ve.alt_toks, &fam.ids[h], true) as u8;
                    }
                }
            }
        }
        for op in 0..4 {
            let neg = op >= 2;
            let k = op % 2;
            for form in 0..2 {
                // the negated ops share the predicate of the positive ones: in the array form they are
                // run on the reference columns and on the view columns (own negate code path) only
                if neg && form == 1 && !(is_ref || col.kind.is_view()) {
                    continue;
                }
                let res = if form == 0 { catch(|| call_like(op, &col.arr, &scal)) } else { catch(|| call_like(op, &col.arr, &pat_arr)) };
                let exp = &ve.exp[k];
                let alt_exp = &ve.alt_exp[k];
                let r = check_bool(res, n, |r| {
                    let h = col.rows[r]? as usize;
                    if form == 0 {
                        Some(exp[h] != neg)
                    } else {
                        match sel(r) {
                            0 => Some(exp[h] != neg),
                            1 => Some((alt_exp[h] == 1) != neg),
                            _ => None,
                        }
                    }
                });
                st.add(w.sub, n as u64, 0);
                if verbose {
                    println!(
                        "  family={} variant={} column={} op={} form={} pattern={:?}: {}",
                        fam.name,
                        xf.name(),
                        col.name,
                        OPS[op],
                        ["scalar", "array"][form],
                        ve.pstr,
                        match &r {
                            Ok(()) => "agrees with the naive matcher on every row".to_string(),
                            Err((k, m)) => format!("MISMATCH kind={k} rows={} first row {}: got {} want {}", m.count, m.row, m.got, m.want),
                        }
                    );
                }
                if let Err((kind, m)) = r {
                    let opfam = OPS[k];
                    let formn = ["scalar", "array"][form];
                    let hrow = col.rows.get(m.row).copied().flatten();
                    let hay = hrow.map(|h| show(&fam.table[h as usize]));
                    let row_pat = if form == 0 || sel(m.row) == 0 { ve.pstr.clone() } else if sel(m.row) == 1 { ve.alt.clone() } else { "<null>".into() };
                    let row_shape = if row_pat == "<null>" { "null-pattern" } else { shape(&row_pat, &tokenize(&w.alpha, &row_pat)) };
                    let enc = if kind == "value" && row_pat != "<null>" {
                        attribute(col, &fam.table, hrow, m.want_b, &|c1: &Col| {
                            let r = if form == 0 {
                                catch(|| call_like(op, &c1.arr, &scalar_datum(c1, row_pat.as_bytes())))
                            } else {
                                let pa = make_pat_array(c1, &vec![Some(row_pat.as_bytes()); c1.len()]);
                                catch(|| call_like(op, &c1.arr, &pa))
                            };
                            match r {
                                Ok(Ok(a)) if a.len() > 0 => Some(a.is_valid(0).then(|| a.value(0))),
                                _ => None,
                            }
                        })
                    } else {
                        String::new()
                    };
                    let which = match (kind.as_str(), hrow) {
                        ("value", Some(h)) if row_pat != "<null>" => failing_subset(&w.alpha, &row_pat, &fam.table[h as usize]),
                        _ => String::new(),
                    };
                    let order = ((pi as u64) << 24) | ((fi as u64) << 20) | ((ci as u64) << 8) | ((op as u64) << 1) | form as u64;
                    st.violate(
                        order,
                        fp(&kind, opfam, formn, row_shape, &which, &enc),
                        format!(
                            "{}({} column {:?}, {} pattern {:?}) row {}: haystack {} got {} want {} ({} rows differ; family {} variant {})",
                            OPS[op],
                            col.enc_class(),
                            col.name,
                            formn,
                            row_pat,
                            m.row,
                            hay.clone().unwrap_or("<null>".into()),
                            m.got,
                            m.want,
                            m.count,
                            fam.name,
                            xf.name()
                        ),
                        || json!({"sub": w.sub, "pattern_index": pi, "pattern": ve.pstr, "family": fam.name, "variant": xf.name(), "column": col.name, "op": OPS[op], "form": formn, "row": m.row, "haystack": hay, "row_pattern": row_pat, "got": m.got, "want": m.want}),
                    );
                }
            }
        }
    }
}

// ---------------------------------------------------------------------------------------------
// scalar haystack x pattern column

pub struct LScalarWorld {
    pub hays: Vec<String>,
    /// pattern rows (None = null); adjacent duplicates and nulls included
    pub prow: Vec<Option<u32>>,
    pub pats: Vec<String>,
    pub toks: Vec<Vec<Tok>>,
    pub shapes: Vec<&'static str>,
    /// pattern columns per kind
    pub pcols: Vec<(Kind, bool, ArrayRef)>,
}

pub fn build_lscalar(alpha: &Alpha, hays: Vec<String>, pats: Vec<String>) -> LScalarWorld {
    let mut prow = vec![];
    for k in 0..pats.len() {
        prow.push(Some(k as u32));
        if k % 3 == 0 {
            prow.push(Some(k as u32));
        }
        if k % 13 == 5 {
            prow.push(None);
        }
    }
    let vals: Vec<Option<&[u8]>> = prow.iter().map(|p| p.map(|p| pats[p as usize].as_bytes())).collect();
    let pcols = vec![
        (Kind::Utf8, false, make_opt(Kind::Utf8, &vals)),
        (Kind::Utf8View, false, make_opt(Kind::Utf8View, &vals)),
        (Kind::LargeUtf8, true, make_opt(Kind::LargeUtf8, &vals)),
    ];
    let toks: Vec<Vec<Tok>> = pats.iter().map(|p| tokenize(alpha, p)).collect();
    let shapes = pats.iter().zip(&toks).map(|(p, t)| shape(p, t)).collect();
    LScalarWorld { hays, prow, pats, toks, shapes, pcols }
}

/// one unit: haystack `hi` as a Scalar on the left, the pattern column on the right
pub fn run_lscalar(alpha: &Alpha, w: &LScalarWorld, hi: usize, st: &mut Stats, verbose: bool, order_base: u64) {
    let h = &w.hays[hi];
    let ids = alpha.ids(h);
    let exp: [Vec<bool>; 2] = [w.toks.iter().map(|t| like_match(alpha, t, &ids, false)).collect(), w.toks.iter().map(|t| like_match(alpha, t, &ids, true)).collect()];
    let n = w.prow.len();
    for k in 0..2 {
        let t = exp[k].iter().filter(|b| **b).count() as u64;
        st.outcome_n(&format!("{}:lhs-scalar:match", OPS[k]), t);
        st.outcome_n(&format!("{}:lhs-scalar:no-match", OPS[k]), exp[k].len() as u64 - t);
    }
    for (kind, dict_scalar, pcol) in &w.pcols {
        let hay_arr = if *dict_scalar { make_opt_dict8(*kind, &[Some(h.as_bytes())]) } else { make_opt(*kind, &[Some(h.as_bytes())]) };
        let scal = Scalar::new(hay_arr);
        for op in 0..4 {
            let neg = op >= 2;
            let k = op % 2;
            let res = catch(|| call_like(op, &scal, pcol));
            let r = check_bool(res, n, |r| w.prow[r].map(|p| exp[k][p as usize] != neg));
            st.add("like-lscalar", n as u64, if h.is_empty() { 0 } else { (w.pats.len() - 1) as u64 });
            if verbose {
                println!(
                    "  scalar haystack {:?} ({}{}) op={}: {}",
                    h,
                    kind.name(),
                    if *dict_scalar { ", dictionary scalar" } else { "" },
                    OPS[op],
                    match &r {
                        Ok(()) => "agrees with the naive matcher on every pattern row".to_string(),
                        Err((k, m)) => format!("MISMATCH kind={k} rows={} first row {}: got {} want {}", m.count, m.row, m.got, m.want),
                    }
                );
            }
            if let Err((kd, m)) = r {
                let pat = w.prow.get(m.row).copied().flatten();
                let sh = pat.map(|p| w.shapes[p as usize]).unwrap_or("null-pattern");
                let pstr = pat.map(|p| w.pats[p as usize].clone());
                st.violate(
                    order_base + (((hi as u64) << 8) | op as u64),
                    fp(&kd, OPS[k], "array(lhs-scalar)", sh, ":lhs-scalar", ""),
                    format!("{}(Scalar {:?} as {}, pattern column) row {} pattern {:?}: got {} want {} ({} rows differ)", OPS[op], h, kind.name(), m.row, pstr, m.got, m.want, m.count),
                    || json!({"sub": "like-lscalar", "haystack_index": hi, "haystack": h, "kind": kind.name(), "op": OPS[op], "row": m.row, "pattern": pstr, "got": m.got, "want": m.want}),
                );
            }
        }
    }
    if hi == w.hays.len() - 1 {
        st.sample("like-lscalar", || json!({"sub": "like-lscalar", "haystack_index": hi, "haystack": h, "pattern_rows": n}));
    }
}

