mod c20;
mod concat;
mod empty;
mod like;
mod needle;
mod oracle;
mod regexp;
mod substr;
mod tables;
mod util;
fn main() {
    let ctx = vcore::Ctx::from_args();
    match ctx.prop.as_str() {
        "C20" => c20::run(&ctx),
        other => {
            eprintln!("MACHINERY: vk-string does not serve property {other:?}");
            std::process::exit(2)
        }
    }
}
