//! C20 sub-engines `needle-*`: starts_with / ends_with / contains for every needle x haystack pair,
//! scalar needle and needle column, on string and binary encodings.
use crate::like::{Family, Xform, attribute, check_bool};
use crate::oracle::{seq_contains, seq_ends_with, seq_starts_with};
use crate::tables::*;
use arrow_array::types::Int32Type;
use arrow_array::{Array, ArrayRef, BooleanArray, Datum, DictionaryArray, Int32Array, Scalar};
use arrow_schema::ArrowError;
use std::sync::Arc;
use vcore::serde_json::json;
use vcore::{Stats, catch};

pub const NOPS: [&str; 3] = ["starts_with", "ends_with", "contains"];

fn call(op: usize, l: &dyn Datum, r: &dyn Datum) -> Result<BooleanArray, ArrowError> {
    match op {
        0 => arrow_string::like::starts_with(l, r),
        1 => arrow_string::like::ends_with(l, r),
        _ => arrow_string::like::contains(l, r),
    }
}
#[inline]
fn oracle(op: usize, h: &[u8], n: &[u8]) -> bool {
    match op {
        0 => seq_starts_with(h, n),
        1 => seq_ends_with(h, n),
        _ => seq_contains(h, n),
    }
}

pub fn apply_bytes(xf: Xform, b: &[u8]) -> Vec<u8> {
    match xf {
        Xform::Raw => b.to_vec(),
        Xform::Suffix => [b, LONG_SUFFIX.as_bytes()].concat(),
        Xform::Prefix => [LONG_PREFIX.as_bytes(), b].concat(),
    }
}

pub struct NVariant {
    pub xf: Xform,
    pub needles: Vec<Vec<u8>>,
    /// oracle units (scalar-value ids for strings, bytes for binary)
    pub ids: Vec<Vec<u8>>,
    /// repeated needle columns (position p holds needle p % m, null when p % 37 == 5), per (kind, dict)
    pub reps: Vec<(Kind, bool, ArrayRef)>,
}

pub struct NeedleWorld {
    /// "str" or "bin"
    pub class: &'static str,
    pub fams: Vec<Family>,
    /// [family][variant]
    pub nvars: Vec<Vec<NVariant>>,
    pub n_needles: usize,
}

#[inline]
fn rep_null(p: usize) -> bool {
    p % 37 == 5
}

pub fn build(class: &'static str, fams: Vec<Family>, base_needles: &[Vec<u8>], to_ids: &dyn Fn(&[u8]) -> Vec<u8>) -> NeedleWorld {
    let m = base_needles.len();
    let mut nvars = vec![];
    for fam in &fams {
        let maxn = fam.cols.iter().map(|c| c.len()).max().unwrap_or(0);
        let total = maxn + m;
        let mut vs = vec![];
        for &xf in &fam.variants {
            let needles: Vec<Vec<u8>> = base_needles.iter().map(|b| apply_bytes(xf, b)).collect();
            let ids: Vec<Vec<u8>> = needles.iter().map(|b| to_ids(b)).collect();
            let mut reps: Vec<(Kind, bool, ArrayRef)> = vec![];
            for c in &fam.cols {
                if reps.iter().any(|(k, d, _)| *k == c.kind && *d == c.pat_dict) {
                    continue;
                }
                let arr: ArrayRef = if c.pat_dict {
                    let raw: Vec<&[u8]> = needles.iter().map(|v| v.as_slice()).collect();
                    let values = make_plain(c.kind, &raw, None);
                    let keys: Vec<Option<i32>> = (0..total).map(|p| if rep_null(p) { None } else { Some((p % m) as i32) }).collect();
                    Arc::new(DictionaryArray::<Int32Type>::new(Int32Array::from(keys), values))
                } else {
                    let vals: Vec<Option<&[u8]>> = (0..total).map(|p| if rep_null(p) { None } else { Some(needles[p % m].as_slice()) }).collect();
                    make_opt(c.kind, &vals)
                };
                reps.push((c.kind, c.pat_dict, arr));
            }
            vs.push(NVariant { xf, needles, ids, reps });
        }
        nvars.push(vs);
    }
    NeedleWorld { class, fams, nvars, n_needles: m }
}

fn fingerprint(kind: &str, class: &str, op: usize, form: &str, enc: &str) -> String {
    let base = match kind {
        "value" => format!("c20:{}:{form}:{class}", NOPS[op]),
        "wf" => format!("wf:c20:{}:{form}:{class}", NOPS[op]),
        k => format!("c20:{}:{form}:{class}:{k}", NOPS[op]),
    };
    if kind == "value" { format!("{base}{enc}") } else { base }
}

fn probe(op: usize, c1: &Col, needle: &[u8], scalar: bool) -> Option<Option<bool>> {
    let r = if scalar {
        let s = Scalar::new(make_pat_array(c1, &[Some(needle)]));
        catch(|| call(op, &c1.arr, &s))
    } else {
        let a = make_pat_array(c1, &vec![Some(needle); c1.len()]);
        catch(|| call(op, &c1.arr, &a))
    };
    match r {
        Ok(Ok(a)) if a.len() > 0 => Some(a.is_valid(0).then(|| a.value(0))),
        _ => None,
    }
}

/// scalar form: needle `ni` against every column
pub fn run_scalar(w: &NeedleWorld, ni: usize, st: &mut Stats, order_base: u64) {
    for (fi, fam) in w.fams.iter().enumerate() {
        for nv in &w.nvars[fi] {
            let needle = &nv.needles[ni];
            let nid = &nv.ids[ni];
            let n = fam.table.len();
            let mut exp: [Vec<bool>; 3] = [Vec::with_capacity(n), Vec::with_capacity(n), Vec::with_capacity(n)];
            for h in &fam.ids {
                for op in 0..3 {
                    exp[op].push(oracle(op, h, nid));
                }
            }
            for op in 0..3 {
                let t = exp[op].iter().filter(|b| **b).count() as u64;
                st.outcome_n(&format!("{}:{}:true", NOPS[op], w.class), t);
                st.outcome_n(&format!("{}:{}:false", NOPS[op], w.class), n as u64 - t);
            }
            let nt = if needle.is_empty() { 0 } else { fam.table.iter().filter(|h| !h.is_empty()).count() as u64 };
            st.add(&format!("needle-{}-scalar", w.class), 0, nt);
            st.count(&format!("needle_{}_distinct_needle_haystack_pairs", w.class), n as u64);
            for (ci, col) in fam.cols.iter().enumerate() {
                let scal = Scalar::new(make_pat_array(col, &[Some(needle.as_slice())]));
                for op in 0..3 {
                    let res = catch(|| call(op, &col.arr, &scal));
                    let r = check_bool(res, col.len(), |r| col.rows[r].map(|h| exp[op][h as usize]));
                    st.add(&format!("needle-{}-scalar", w.class), col.len() as u64, 0);
                    if let Err((kind, m)) = r {
                        let hrow = col.rows.get(m.row).copied().flatten();
                        let enc = if kind == "value" { attribute(col, &fam.table, hrow, m.want_b, &|c1: &Col| probe(op, c1, needle, true)) } else { String::new() };
                        let hay = hrow.map(|h| show(&fam.table[h as usize]));
                        st.violate(
                            order_base + (((ni as u64) << 20) | ((fi as u64) << 16) | ((ci as u64) << 4) | op as u64),
                            fingerprint(&kind, w.class, op, "scalar", &enc),
                            format!("{}({} column {:?}, scalar needle {}) row {}: haystack {:?} got {} want {} ({} rows differ)", NOPS[op], col.enc_class(), col.name, show(needle), m.row, hay, m.got, m.want, m.count),
                            || json!({"sub": format!("needle-{}-scalar", w.class), "needle_index": ni, "needle": show(needle), "family": fam.name, "variant": nv.xf.name(), "column": col.name, "op": NOPS[op], "row": m.row, "haystack": hay, "got": m.got, "want": m.want}),
                        );
                    }
                }
            }
        }
    }
    if ni == w.n_needles - 1 {
        st.sample(&format!("needle-{}-scalar", w.class), || json!({"needle_index": ni, "needle": show(&w.nvars[0][0].needles[ni])}));
    }
}

/// array form: row r of every column is paired with needle (r + shift) % m; over all shifts every
/// (haystack row, needle) pair occurs.
pub fn run_array(w: &NeedleWorld, shift: usize, st: &mut Stats, order_base: u64) {
    let m = w.n_needles;
    for (fi, fam) in w.fams.iter().enumerate() {
        for nv in &w.nvars[fi] {
            for (ci, col) in fam.cols.iter().enumerate() {
                let n = col.len();
                let rep = &nv.reps.iter().find(|(k, d, _)| *k == col.kind && *d == col.pat_dict).expect("rep column").2;
                let needles = rep.slice(shift, n);
                for op in 0..3 {
                    let res = catch(|| call(op, &col.arr, &needles));
                    let r = check_bool(res, n, |r| {
                        let h = col.rows[r]? as usize;
                        let p = r + shift;
                        if rep_null(p) {
                            return None;
                        }
                        Some(oracle(op, &fam.ids[h], &nv.ids[p % m]))
                    });
                    st.add(&format!("needle-{}-array", w.class), n as u64, 0);
                    if let Err((kind, mm)) = r {
                        let hrow = col.rows.get(mm.row).copied().flatten();
                        let null_needle = rep_null(mm.row + shift);
                        let enc = if kind == "value" && !null_needle { attribute(col, &fam.table, hrow, mm.want_b, &|c1: &Col| probe(op, c1, &nv.needles[(mm.row + shift) % m], false)) } else { String::new() };
                        let hay = hrow.map(|h| show(&fam.table[h as usize]));
                        let nd = if null_needle { "<null>".to_string() } else { show(&nv.needles[(mm.row + shift) % m]) };
                        st.violate(
                            order_base + (((shift as u64) << 20) | ((fi as u64) << 16) | ((ci as u64) << 4) | op as u64),
                            fingerprint(&kind, w.class, op, "array", &enc),
                            format!("{}({} column {:?}, needle column) row {}: haystack {:?} needle {} got {} want {} ({} rows differ)", NOPS[op], col.enc_class(), col.name, mm.row, hay, nd, mm.got, mm.want, mm.count),
                            || json!({"sub": format!("needle-{}-array", w.class), "shift": shift, "family": fam.name, "variant": nv.xf.name(), "column": col.name, "op": NOPS[op], "row": mm.row, "haystack": hay, "needle": nd, "got": mm.got, "want": mm.want}),
                        );
                    }
                }
            }
        }
    }
    if shift == m - 1 {
        st.sample(&format!("needle-{}-array", w.class), || json!({"shift": shift, "needles": m}));
    }
}
