//! Reference definitions ("the straightforward definition on Unicode scalar values").
use regex::Regex;

/// Character universe of a run (every char that can occur in a haystack or pattern) with the
/// case-insensitivity relation *as implemented by the regex engine*: `ci[a][b]` == the regex
/// `(?i)^<a>$` matches the one-character string `b`.
pub struct Alpha {
    pub chars: Vec<char>,
    n: usize,
    ci: Vec<bool>,
}

impl Alpha {
    pub fn new(mut chars: Vec<char>) -> Alpha {
        chars.sort();
        chars.dedup();
        let n = chars.len();
        assert!(n < 250);
        let mut ci = vec![false; n * n];
        for (i, a) in chars.iter().enumerate() {
            let re = Regex::new(&format!("(?i)^{}$", regex::escape(&a.to_string()))).expect("single literal compiles");
            for (j, b) in chars.iter().enumerate() {
                ci[i * n + j] = re.is_match(&b.to_string());
            }
        }
        Alpha { chars, n, ci }
    }
    #[inline]
    pub fn id(&self, c: char) -> u8 {
        self.chars.binary_search(&c).unwrap_or_else(|_| panic!("char {c:?} not in run alphabet")) as u8
    }
    pub fn ids(&self, s: &str) -> Vec<u8> {
        s.chars().map(|c| self.id(c)).collect()
    }
    #[inline]
    pub fn eq_ci(&self, a: u8, b: u8) -> bool {
        self.ci[a as usize * self.n + b as usize]
    }
    /// pairs of distinct characters that the regex engine folds together (for the evidence file)
    pub fn fold_pairs(&self) -> Vec<String> {
        let mut v = vec![];
        for i in 0..self.n {
            for j in 0..self.n {
                if i < j && self.ci[i * self.n + j] {
                    v.push(format!("{:?}~{:?}", self.chars[i], self.chars[j]));
                }
            }
        }
        v
    }
}

#[derive(Clone, Copy, Debug, PartialEq, Eq)]
pub enum Tok {
    /// `%`
    Any,
    /// `_`
    One,
    /// literal scalar value (alphabet id)
    Lit(u8),
}

/// LIKE pattern -> tokens. `\x` is the literal `x` for every `x` (including `%`, `_`, `\`); a lone
/// trailing backslash is a literal backslash (arrow-string/src/predicate.rs: "Trailing backslash in
/// the pattern ... Snowflake treats it as a literal backslash" - the behaviour the code documents).
pub fn tokenize(alpha: &Alpha, pat: &str) -> Vec<Tok> {
    let mut out = vec![];
    let mut it = pat.chars();
    while let Some(c) = it.next() {
        match c {
            '\\' => match it.next() {
                Some(n) => out.push(Tok::Lit(alpha.id(n))),
                None => out.push(Tok::Lit(alpha.id('\\'))),
            },
            '%' => out.push(Tok::Any),
            '_' => out.push(Tok::One),
            c => out.push(Tok::Lit(alpha.id(c))),
        }
    }
    out
}

/// Naive backtracking matcher over scalar values: `%` = any sequence (including newlines and the
/// empty one), `_` = exactly one scalar value, literal = that scalar value (or, case-insensitively,
/// any scalar value the regex engine folds to it). The whole haystack must be consumed.
pub fn like_match(alpha: &Alpha, t: &[Tok], s: &[u8], ci: bool) -> bool {
    match t.first() {
        None => s.is_empty(),
        Some(Tok::Any) => (0..=s.len()).any(|k| like_match(alpha, &t[1..], &s[k..], ci)),
        Some(Tok::One) => !s.is_empty() && like_match(alpha, &t[1..], &s[1..], ci),
        Some(Tok::Lit(c)) => !s.is_empty() && (if ci { alpha.eq_ci(*c, s[0]) } else { *c == s[0] }) && like_match(alpha, &t[1..], &s[1..], ci),
    }
}

/// Shape class of a LIKE pattern by its token structure (used for fingerprints and outcome classes;
/// independent of the library's own classification).
pub fn shape(pat: &str, toks: &[Tok]) -> &'static str {
    let esc = pat.contains('\\');
    let trailing_bs = {
        // lone trailing backslash = odd number of trailing backslashes
        let n = pat.chars().rev().take_while(|c| *c == '\\').count();
        n % 2 == 1
    };
    let any = toks.iter().filter(|t| **t == Tok::Any).count();
    let one = toks.iter().filter(|t| **t == Tok::One).count();
    let base = if any == 0 && one == 0 {
        "literal"
    } else if one == 0 && any == 1 && toks.last() == Some(&Tok::Any) {
        "prefix%"
    } else if one == 0 && any == 1 && toks.first() == Some(&Tok::Any) {
        "%suffix"
    } else if one == 0 && any == 2 && toks.first() == Some(&Tok::Any) && toks.last() == Some(&Tok::Any) {
        "%infix%"
    } else if one == 0 && any == toks.len() {
        "%%only"
    } else if any == 0 {
        "underscore"
    } else {
        "general"
    };
    match (base, esc, trailing_bs) {
        ("literal", false, _) => "literal",
        ("literal", true, false) => "literal+esc",
        ("literal", true, true) => "literal+trailing-backslash",
        ("prefix%", false, _) => "prefix%",
        ("prefix%", true, _) => "prefix%+esc",
        ("%suffix", false, _) => "%suffix",
        ("%suffix", true, false) => "%suffix+esc",
        ("%suffix", true, true) => "%suffix+trailing-backslash",
        ("%infix%", false, _) => "%infix%",
        ("%infix%", true, _) => "%infix%+esc",
        ("%%only", _, _) => "%%only",
        ("underscore", false, _) => "underscore",
        ("underscore", true, false) => "underscore+esc",
        ("underscore", true, true) => "underscore+trailing-backslash",
        (_, false, _) => "general",
        (_, true, false) => "general+esc",
        (_, true, true) => "general+trailing-backslash",
    }
}

// ---------------------------------------------------------------------------------------------
// needles

pub fn seq_starts_with<T: PartialEq>(h: &[T], n: &[T]) -> bool {
    n.len() <= h.len() && (0..n.len()).all(|i| h[i] == n[i])
}
pub fn seq_ends_with<T: PartialEq>(h: &[T], n: &[T]) -> bool {
    n.len() <= h.len() && (0..n.len()).all(|i| h[h.len() - n.len() + i] == n[i])
}
pub fn seq_contains<T: PartialEq>(h: &[T], n: &[T]) -> bool {
    n.len() <= h.len() && (0..=h.len() - n.len()).any(|s| (0..n.len()).all(|i| h[s + i] == n[i]))
}

// ---------------------------------------------------------------------------------------------
// substrings

/// Element range of `substring(start, length)` on a sequence of `len` units: non-negative `start`
/// counts from the front, negative from the back, both clamped; `length` None = to the end.
pub fn sub_range(len: usize, start: i64, length: Option<u64>) -> (usize, usize) {
    let len_i = len as i64;
    let s = if start >= 0 { start.min(len_i) } else { (len_i + start).max(0) } as usize;
    let e = match length {
        Some(l) => (s as u64).saturating_add(l).min(len as u64) as usize,
        None => len,
    };
    (s, e)
}

/// byte-based substring of a UTF-8 string: `Err(())` when a cut falls inside a character
pub fn substring_bytes_str(s: &str, start: i64, length: Option<u64>) -> Result<&str, ()> {
    let (a, b) = sub_range(s.len(), start, length);
    if s.is_char_boundary(a) && s.is_char_boundary(b) { Ok(&s[a..b]) } else { Err(()) }
}

/// char-based substring via `char_indices`
pub fn substring_chars(s: &str, start: i64, length: Option<u64>) -> &str {
    let idx: Vec<usize> = s.char_indices().map(|(i, _)| i).chain(std::iter::once(s.len())).collect();
    let n = idx.len() - 1;
    let (a, b) = sub_range(n, start, length);
    &s[idx[a]..idx[b]]
}
