//! C20 sub-engine `regexp`: regexp_is_match / regexp_is_match_scalar for every regex of length <= R over
//! {a . * ^ $ ( ) | é} that compiles, flags {none, "i"}, compared against the `regex` crate (which is
//! the definition) across encodings, layouts and the scalar / array forms.
use crate::like::{Family, attribute, check_bool, sel};
use crate::tables::*;
use arrow_array::cast::AsArray;
use arrow_array::{Array, ArrayRef, BooleanArray, StringArray};
use arrow_schema::ArrowError;
use arrow_string::regexp::{regexp_is_match, regexp_is_match_scalar};
use regex::Regex;
use vcore::serde_json::json;
use vcore::{Stats, catch};

pub struct RegexWorld {
    /// regexes that compile both plain and with (?i)
    pub res: Vec<String>,
    /// candidates that do not compile (the kernel must return Err for them)
    pub bad: Vec<String>,
    pub fams: Vec<Family>,
    pub strs: Vec<Vec<String>>,
}

pub fn build(rlen: usize, fams: Vec<Family>) -> RegexWorld {
    let cands = strings_over(&RE_SYMS, rlen);
    let mut res = vec![];
    let mut bad = vec![];
    for c in cands {
        let a = Regex::new(&c).is_ok();
        let b = Regex::new(&format!("(?i){c}")).is_ok();
        if a && b {
            res.push(c)
        } else if !a && !b {
            bad.push(c)
        } else {
            // compiles in exactly one flag mode: keep it out of both lists (does not occur for this alphabet)
            bad.push(c)
        }
    }
    let strs = fams.iter().map(|f| f.table.iter().map(|b| String::from_utf8(b.clone()).unwrap()).collect()).collect();
    RegexWorld { res, bad, fams, strs }
}

fn call_scalar(col: &Col, re: &str, flag: Option<&str>) -> Result<BooleanArray, ArrowError> {
    match col.kind {
        Kind::Utf8 => regexp_is_match_scalar(col.arr.as_string::<i32>(), re, flag),
        Kind::LargeUtf8 => regexp_is_match_scalar(col.arr.as_string::<i64>(), re, flag),
        Kind::Utf8View => regexp_is_match_scalar(col.arr.as_string_view(), re, flag),
        _ => unreachable!(),
    }
}
fn call_array(col: &Col, pats: &ArrayRef, flags: Option<&StringArray>) -> Result<BooleanArray, ArrowError> {
    match col.kind {
        Kind::Utf8 => regexp_is_match(col.arr.as_string::<i32>(), pats.as_string::<i32>(), flags),
        Kind::LargeUtf8 => regexp_is_match(col.arr.as_string::<i64>(), pats.as_string::<i64>(), flags),
        Kind::Utf8View => regexp_is_match(col.arr.as_string_view(), pats.as_string_view(), flags),
        _ => unreachable!(),
    }
}

/// flag of row r in the array form when the unit's flag is "i": toggled off in some blocks
#[inline]
fn row_flag_i(r: usize) -> bool {
    (r / 101) % 3 != 1
}

fn compile(re: &str, flag_i: bool) -> Regex {
    if flag_i { Regex::new(&format!("(?i){re}")).unwrap() } else { Regex::new(re).unwrap() }
}

fn fingerprint(kind: &str, form: &str, flag_i: bool, enc: &str) -> String {
    let f = if flag_i { "flag-i" } else { "no-flag" };
    let base = match kind {
        "value" => format!("c20:regexp_is_match:{form}:{f}"),
        "wf" => format!("wf:c20:regexp_is_match:{form}"),
        k => format!("c20:regexp_is_match:{form}:{f}:{k}"),
    };
    if kind == "value" { format!("{base}{enc}") } else { base }
}

/// one unit: regex `ri`
pub fn run_regex(w: &RegexWorld, ri: usize, st: &mut Stats, order_base: u64) {
    let re = &w.res[ri];
    let alt = &w.res[(ri * 5 + 3) % w.res.len()];
    let main = [compile(re, false), compile(re, true)];
    let altc = [compile(alt, false), compile(alt, true)];
    for (fi, fam) in w.fams.iter().enumerate() {
        let strs = &w.strs[fi];
        let n = strs.len();
        // exp[flag][h]
        let exp: [Vec<bool>; 2] = [strs.iter().map(|s| main[0].is_match(s)).collect(), strs.iter().map(|s| main[1].is_match(s)).collect()];
        let mut alt_exp: [Vec<u8>; 2] = [vec![2; n], vec![2; n]];
        for f in 0..2 {
            let t = exp[f].iter().filter(|b| **b).count() as u64;
            st.outcome_n(&format!("regexp:{}:match", ["no-flag", "flag-i"][f]), t);
            st.outcome_n(&format!("regexp:{}:no-match", ["no-flag", "flag-i"][f]), n as u64 - t);
        }
        st.add("regexp", 0, if re.is_empty() { 0 } else { 2 * (n as u64 - 1) });
        st.count("regexp_distinct_regex_flag_haystack_triples", 2 * n as u64);
        let mut pat_cache: Vec<(Kind, usize, ArrayRef)> = vec![];
        let mut flag_cache: Vec<(usize, StringArray)> = vec![];
        for (ci, col) in fam.cols.iter().enumerate() {
            let nrows = col.len();
            let pats = match pat_cache.iter().find(|(k, l, _)| *k == col.kind && *l == nrows) {
                Some(e) => e.2.clone(),
                None => {
                    let vals: Vec<Option<&[u8]>> = (0..nrows)
                        .map(|r| match sel(r) {
                            0 => Some(re.as_bytes()),
                            1 => Some(alt.as_bytes()),
                            _ => None,
                        })
                        .collect();
                    let a = make_opt(col.kind, &vals);
                    pat_cache.push((col.kind, nrows, a.clone()));
                    a
                }
            };
            let flags = match flag_cache.iter().position(|(l, _)| *l == nrows) {
                Some(i) => i,
                None => {
                    let a = StringArray::from((0..nrows).map(|r| row_flag_i(r).then_some("i")).collect::<Vec<Option<&str>>>());
                    flag_cache.push((nrows, a));
                    flag_cache.len() - 1
                }
            };
            // alternate expectations where needed
            for (r, row) in col.rows.iter().enumerate() {
                if sel(r) == 1 {
                    if let Some(h) = row {
                        let h = *h as usize;
                        if alt_exp[0][h] == 2 {
                            alt_exp[0][h] = altc[0].is_match(&strs[h]) as u8;
                            alt_exp[1][h] = altc[1].is_match(&strs[h]) as u8;
                        }
                    }
                }
            }
            for f in 0..2 {
                let flag_i = f == 1;
                for form in 0..2 {
                    let res = if form == 0 {
                        catch(|| call_scalar(col, re, flag_i.then_some("i")))
                    } else if flag_i {
                        catch(|| call_array(col, &pats, Some(&flag_cache[flags].1)))
                    } else {
                        catch(|| call_array(col, &pats, None))
                    };
                    let r = check_bool(res, nrows, |r| {
                        let h = col.rows[r]? as usize;
                        if form == 0 {
                            Some(exp[f][h])
                        } else {
                            let ef = (flag_i && row_flag_i(r)) as usize;
                            match sel(r) {
                                0 => Some(exp[ef][h]),
                                1 => Some(alt_exp[ef][h] == 1),
                                _ => None,
                            }
                        }
                    });
                    st.add("regexp", nrows as u64, 0);
                    if let Err((kind, m)) = r {
                        let formn = ["scalar", "array"][form];
                        let hrow = col.rows.get(m.row).copied().flatten();
                        let hay = hrow.map(|h| strs[h as usize].clone());
                        let (row_re, row_flag) = if form == 0 { (Some(re), flag_i) } else { (match sel(m.row) { 0 => Some(re), 1 => Some(alt), _ => None }, flag_i && row_flag_i(m.row)) };
                        let enc = match (kind.as_str(), row_re) {
                            ("value", Some(q)) => attribute(col, &fam.table, hrow, m.want_b, &|c1: &Col| {
                                let r = if form == 0 {
                                    catch(|| call_scalar(c1, q, row_flag.then_some("i")))
                                } else {
                                    let pa = make_opt(c1.kind, &vec![Some(q.as_bytes()); c1.len()]);
                                    let fl = StringArray::from(vec![row_flag.then_some("i"); c1.len()]);
                                    catch(|| call_array(c1, &pa, Some(&fl)))
                                };
                                match r {
                                    Ok(Ok(a)) if a.len() > 0 => Some(a.is_valid(0).then(|| a.value(0))),
                                    _ => None,
                                }
                            }),
                            _ => String::new(),
                        };
                        st.violate(
                            order_base + (((ri as u64) << 20) | ((fi as u64) << 16) | ((ci as u64) << 4) | ((f as u64) << 1) | form as u64),
                            fingerprint(&kind, formn, flag_i, &enc),
                            format!("regexp_is_match {formn}({} column {:?}, regex {:?} alt {:?}, flag_i={flag_i}) row {}: haystack {:?} got {} want {} ({} rows differ)", col.enc_class(), col.name, re, alt, m.row, hay, m.got, m.want, m.count),
                            || json!({"sub": "regexp", "regex_index": ri, "regex": re, "alt_regex": alt, "flag_i": flag_i, "family": fam.name, "column": col.name, "form": formn, "row": m.row, "haystack": hay, "got": m.got, "want": m.want}),
                        );
                    }
                }
            }
        }
    }
    if ri == w.res.len() / 2 || ri == w.res.len() - 1 {
        st.sample("regexp", || json!({"regex_index": ri, "regex": re, "alt_regex": alt}));
    }
}

/// regexes that do not compile: both kernels must return Err (never panic, never a result)
pub fn run_bad(w: &RegexWorld, bi: usize, st: &mut Stats, order_base: u64) {
    let re = &w.bad[bi];
    let col = &w.fams[0].cols[0];
    let small = col.arr.slice(0, col.len().min(4));
    let small_col = Col { name: col.name.clone(), kind: col.kind, dict: col.dict, layout: col.layout, arr: small.clone(), rows: col.rows[..small.len()].to_vec(), pat_dict: false, ascii: false, foreign: None };
    for flag in [None, Some("i")] {
        let pats = make_opt(col.kind, &vec![Some(re.as_bytes()); small.len()]);
        let flags = StringArray::from(vec![flag; small.len()]);
        for form in 0..2 {
            let res = if form == 0 { catch(|| call_scalar(&small_col, re, flag)) } else { catch(|| call_array(&small_col, &pats, flag.map(|_| &flags))) };
            st.add("regexp-noncompiling", 1, 1);
            let problem = match res {
                Ok(Err(_)) => {
                    st.outcome("regexp:non-compiling:error");
                    None
                }
                Ok(Ok(a)) => Some(format!("returned a result {a:?}")),
                Err(p) => Some(format!("panicked: {p:?}")),
            };
            if let Some(p) = problem {
                st.violate(order_base + bi as u64, format!("c20:regexp_is_match:{}:non-compiling-regex-accepted", ["scalar", "array"][form]), format!("regex {re:?} flag {flag:?} does not compile in the regex crate but the kernel {p}"), || {
                    json!({"sub": "regexp-noncompiling", "regex": re, "flag": flag})
                });
            }
        }
    }
}
