//! C20 sub-engines `substring` (byte based), `substring_by_char`, `length`, `bit_length`.
use crate::oracle::{sub_range, substring_bytes_str, substring_chars};
use crate::tables::*;
use crate::util::{extract_bytes, extract_ints, first_diff};
use arrow_array::cast::AsArray;
use arrow_array::types::Int32Type;
use arrow_array::{Array, ArrayRef, DictionaryArray, FixedSizeBinaryArray, Int32Array};
use arrow_buffer::{Buffer, NullBuffer};
use arrow_schema::DataType;
use arrow_string::length::{bit_length, length};
use arrow_string::substring::{substring, substring_by_char};
use std::sync::Arc;
use vcore::serde_json::json;
use vcore::{Stats, catch};

/// all (start, length) pairs of the bound
pub fn combos() -> Vec<(i64, Option<u64>)> {
    let mut v = vec![];
    for s in -5..=5i64 {
        v.push((s, None));
        for l in 0..=5u64 {
            v.push((s, Some(l)));
        }
    }
    v
}

pub struct Group {
    pub name: String,
    /// string group (UTF-8 boundary rule applies) or binary group
    pub is_str: bool,
    pub table: Vec<Vec<u8>>,
    pub cols: Vec<Col>,
}

fn shape_of(s: &str) -> String {
    if s.is_empty() { "empty".into() } else { s.chars().map(|c| c.len_utf8().to_string()).collect::<Vec<_>>().join("-") }
}

fn group_cols(is_str: bool, table: &[Vec<u8>], full: bool) -> Vec<Col> {
    let all: Vec<u32> = (0..table.len() as u32).collect();
    let j = table[0].as_slice();
    let (k, lk, vk) = if is_str { (Kind::Utf8, Kind::LargeUtf8, Kind::Utf8View) } else { (Kind::Binary, Kind::LargeBinary, Kind::BinaryView) };
    let c = |kind, dict, layout| make_col_j(kind, dict, layout, table, &all, false, "", j);
    if !full {
        return vec![c(k, Dict::None, Layout::Compact), c(vk, Dict::None, Layout::Compact), c(vk, Dict::I32, Layout::SlicedNulls)];
    }
    let small = table.len() + 2 <= 127;
    vec![
        c(k, Dict::None, Layout::Compact),
        c(k, Dict::None, Layout::Sliced),
        c(k, Dict::None, Layout::Nulls),
        c(lk, Dict::None, Layout::Compact),
        c(lk, Dict::None, Layout::SlicedNulls),
        c(vk, Dict::None, Layout::Compact),
        c(vk, Dict::None, Layout::SlicedNulls),
        c(k, Dict::I32, Layout::SlicedNulls),
        c(vk, if small { Dict::I8 } else { Dict::I32 }, Layout::Nulls),
        c(lk, Dict::I32, Layout::Compact),
    ]
}

/// bytes whose char boundaries (0, 2, 6, 8) differ from most table shapes
pub const FOREIGN: &str = "\u{e9}\u{1D11E}\u{e9}";

/// Columns whose *invisible* physical content (bytes under a null slot, unreferenced or null dictionary
/// values) has different char boundaries than every visible row.
fn foreign_cols(table: &[Vec<u8>]) -> Vec<Col> {
    let n = table.len();
    let f = FOREIGN.as_bytes();
    let mut out = vec![];
    // (a)/(d): null slots hiding foreign bytes
    for kind in [Kind::Utf8, Kind::LargeUtf8, Kind::Utf8View] {
        let mut vals: Vec<&[u8]> = vec![];
        let mut valid = vec![];
        let mut rows = vec![];
        for (i, t) in table.iter().enumerate() {
            vals.push(t);
            valid.push(true);
            rows.push(Some(i as u32));
            if i % 2 == 0 {
                vals.push(f);
                valid.push(false);
                rows.push(None);
            }
        }
        out.push(Col { name: format!("{}/nulls-hiding-foreign-bytes", kind.name()), kind, dict: Dict::None, layout: Layout::Nulls, arr: make_plain(kind, &vals, Some(&valid)), rows, pat_dict: false, ascii: false, foreign: Some(("bytes-under-null", f.to_vec())) });
    }
    // (b): unreferenced dictionary value
    {
        let mut vals: Vec<&[u8]> = table.iter().map(|t| t.as_slice()).collect();
        vals.push(f);
        let keys: Vec<i32> = (0..n as i32).collect();
        let arr: ArrayRef = Arc::new(DictionaryArray::<Int32Type>::new(Int32Array::from(keys), make_plain(Kind::Utf8, &vals, None)));
        out.push(Col { name: "dict32:utf8/unreferenced-foreign-value".into(), kind: Kind::Utf8, dict: Dict::I32, layout: Layout::Compact, arr, rows: (0..n as u32).map(Some).collect(), pat_dict: false, ascii: false, foreign: Some(("invisible-dictionary-value", f.to_vec())) });
    }
    // (c): null dictionary value hiding foreign bytes, referenced by one row
    {
        let mut vals: Vec<&[u8]> = table.iter().map(|t| t.as_slice()).collect();
        vals.push(f);
        let mut valid = vec![true; n];
        valid.push(false);
        let mut keys: Vec<i32> = (0..n as i32).collect();
        keys.push(n as i32);
        let mut rows: Vec<Option<u32>> = (0..n as u32).map(Some).collect();
        rows.push(None);
        let arr: ArrayRef = Arc::new(DictionaryArray::<Int32Type>::new(Int32Array::from(keys), make_plain(Kind::Utf8, &vals, Some(&valid))));
        out.push(Col { name: "dict32:utf8/null-value-hiding-foreign-bytes".into(), kind: Kind::Utf8, dict: Dict::I32, layout: Layout::Nulls, arr, rows, pat_dict: false, ascii: false, foreign: Some(("invisible-dictionary-value", f.to_vec())) });
    }
    out
}

/// string groups: one per byte-width shape (all rows share every char boundary, so a given
/// (start, length) is either valid on all rows or invalid on all rows), plus the mixed column.
pub fn build_groups(hays: &[String], bins: &[Vec<u8>]) -> Vec<Group> {
    let mut groups: Vec<Group> = vec![];
    let mut by_shape: std::collections::BTreeMap<String, Vec<Vec<u8>>> = Default::default();
    for h in hays {
        by_shape.entry(shape_of(h)).or_default().push(h.as_bytes().to_vec());
    }
    for (shape, table) in &by_shape {
        let mut cols = group_cols(true, table, true);
        cols.extend(foreign_cols(table));
        groups.push(Group { name: format!("str:shape={shape}"), is_str: true, cols, table: table.clone() });
        let long: Vec<Vec<u8>> = table.iter().map(|b| [b.as_slice(), LONG_SUFFIX.as_bytes()].concat()).collect();
        groups.push(Group { name: format!("str:shape={shape}+suffix13"), is_str: true, cols: group_cols(true, &long, false), table: long });
    }
    let mixed: Vec<Vec<u8>> = hays.iter().map(|h| h.as_bytes().to_vec()).collect();
    groups.push(Group { name: "str:mixed".into(), is_str: true, cols: group_cols(true, &mixed, true), table: mixed });
    groups.push(Group { name: "bin:all".into(), is_str: false, cols: group_cols(false, bins, true), table: bins.to_vec() });
    let long: Vec<Vec<u8>> = bins.iter().map(|b| [b.as_slice(), LONG_SUFFIX.as_bytes()].concat()).collect();
    groups.push(Group { name: "bin:all+suffix13".into(), is_str: false, cols: group_cols(false, &long, false), table: long });
    groups
}

/// one unit: group x (start, length)
pub fn run_substring(g: &Group, gi: usize, combo: (i64, Option<u64>), coi: usize, st: &mut Stats, order_base: u64) {
    let (start, length) = combo;
    // expected per table entry
    let exp: Vec<Result<Vec<u8>, ()>> = g
        .table
        .iter()
        .map(|b| {
            if g.is_str {
                substring_bytes_str(std::str::from_utf8(b).unwrap(), start, length).map(|s| s.as_bytes().to_vec())
            } else {
                let (a, e) = sub_range(b.len(), start, length);
                Ok(b[a..e].to_vec())
            }
        })
        .collect();
    let table_invalid = exp.iter().any(|e| e.is_err());
    let nontrivial = g.table.iter().filter(|b| !b.is_empty()).count() as u64;
    st.add("substring", 0, nontrivial);
    let mut ref_bad = false;
    for (ci, col) in g.cols.iter().enumerate() {
        let is_ref = ci == 0;
        // a cut inside a character of a logically visible row
        let visible_invalid = col.rows.iter().flatten().any(|h| exp[*h as usize].is_err());
        // ... or of physical content that no row shows
        let foreign_invalid = col.foreign.as_ref().is_some_and(|(_, b)| substring_bytes_str(std::str::from_utf8(b).unwrap(), start, length).is_err());
        let hidden_invalid = foreign_invalid || (table_invalid && !visible_invalid);
        let res = catch(|| substring(col.arr.as_ref(), start, length));
        st.add("substring", col.len() as u64, 0);
        let problem: Option<(String, String)> = match res {
            Err(p) => Some((crate::util::pfp(&p), format!("panic {p:?}"))),
            Ok(Err(e)) => {
                if visible_invalid {
                    st.outcome("substring:error-on-cut-inside-char");
                    None
                } else if hidden_invalid {
                    // identical logical input succeeds in other encodings: the error comes from bytes no row shows
                    let cause = match (&col.foreign, col.dict) {
                        (Some((c, _)), _) => *c,
                        (None, Dict::None) => "bytes-under-null",
                        (None, _) => "invisible-dictionary-value",
                    };
                    st.outcome(&format!("substring:error-from-{cause}"));
                    Some((format!("error-from-{cause}"), format!("Err({e}) although every visible row is cut on char boundaries (the offending bytes are invisible: {cause})")))
                } else {
                    Some(("unexpected-error".into(), format!("Err({e}) although every cut is on a char boundary")))
                }
            }
            Ok(Ok(out)) => check_bytes_out(&out, col, &exp, table_invalid || foreign_invalid, st),
        };
        if let Some((kind, detail)) = problem {
            if is_ref {
                ref_bad = true;
            }
            // errors caused by invisible bytes are one class each, whatever the offset width
            let enc = (!is_ref && !ref_bad && !kind.starts_with("error-from-")).then(|| col.enc_class());
            let class = if g.is_str { "str" } else { "bin" };
            let base = match kind.as_str() {
                "wf" => format!("wf:c20:substring:{class}"),
                k => format!("c20:substring:{class}:{k}"),
            };
            let fp = match enc {
                Some(e) => format!("{base}:enc={e}"),
                None => base,
            };
            st.violate(
                order_base + (((gi as u64) << 24) | ((coi as u64) << 8) | ci as u64),
                fp,
                format!("substring({} column {:?} of group {}, start={start}, length={length:?}): {detail}", col.enc_class(), col.name, g.name),
                || json!({"sub": "substring", "group": g.name, "column": col.name, "start": start, "length": length, "detail": detail, "first_values": g.table.iter().take(3).map(|b| show(b)).collect::<Vec<_>>()}),
            );
        }
    }
}

fn check_bytes_out(out: &ArrayRef, col: &Col, exp: &[Result<Vec<u8>, ()>], any_invalid: bool, st: &mut Stats) -> Option<(String, String)> {
    if let Err(e) = out.to_data().validate_full() {
        return Some(("wf".into(), format!("output fails validate_full: {e}")));
    }
    if out.data_type() != col.arr.data_type() {
        return Some(("type".into(), format!("output type {} for input type {}", out.data_type(), col.arr.data_type())));
    }
    let rows = match extract_bytes(out.as_ref()) {
        Ok(r) => r,
        Err(e) => return Some(("type".into(), e)),
    };
    if rows.len() != col.len() {
        return Some(("len".into(), format!("output len {} for input len {}", rows.len(), col.len())));
    }
    let mut ok_despite = false;
    for (r, got) in rows.iter().enumerate() {
        match col.rows[r] {
            None => {
                if got.is_some() {
                    return Some(("value".into(), format!("row {r}: null input gave {:?}", got.as_ref().map(|b| show(b)))));
                }
            }
            Some(h) => match &exp[h as usize] {
                Ok(w) => {
                    if got.as_ref() != Some(w) {
                        return Some(("value".into(), format!("row {r}: got {:?} want {}", got.as_ref().map(|b| show(b)), show(w))));
                    }
                }
                Err(()) => {
                    // a cut inside a character: Ok is tolerated only because the output validated as UTF-8
                    ok_despite = true;
                    if got.is_none() {
                        return Some(("value".into(), format!("row {r}: non-null input gave null")));
                    }
                }
            },
        }
    }
    if ok_despite {
        st.outcome("substring:ok-valid-utf8-despite-cut-inside-char");
    } else if any_invalid {
        st.outcome("substring:ok-invalid-rows-not-visible");
    } else {
        st.outcome("substring:ok");
    }
    None
}

// ---------------------------------------------------------------------------------------------
// FixedSizeBinary

pub struct FsbCol {
    pub name: String,
    pub width: usize,
    pub arr: ArrayRef,
    pub rows: Vec<Option<Vec<u8>>>,
}

pub fn build_fsb(max_w: usize) -> Vec<FsbCol> {
    let mut out = vec![];
    for w in 0..=max_w {
        let vals: Vec<Vec<u8>> = sequences(BYTES.len(), w).into_iter().filter(|s| s.len() == w).map(|s| s.into_iter().map(|i| BYTES[i as usize]).collect()).collect();
        for layout in [Layout::Compact, Layout::Sliced, Layout::SlicedNulls] {
            let pre = if layout.sliced() { 2 } else { 0 };
            let mut data = vec![];
            let mut valid = vec![];
            let mut rows = vec![];
            for _ in 0..pre {
                data.extend(std::iter::repeat_n(0xEEu8, w));
                valid.push(true);
            }
            for (i, v) in vals.iter().enumerate() {
                data.extend_from_slice(v);
                let null = layout.nulls() && i % 3 == 1;
                valid.push(!null);
                rows.push(if null { None } else { Some(v.clone()) });
            }
            // width 0 arrays take their length from the validity buffer
            let nulls = if layout.nulls() || w == 0 { Some(NullBuffer::from(valid)) } else { None };
            let arr: ArrayRef = Arc::new(FixedSizeBinaryArray::new(w as i32, Buffer::from(data), nulls));
            let arr = if layout.sliced() { arr.slice(pre, vals.len()) } else { arr };
            out.push(FsbCol { name: format!("fixedsizebinary({w})/{}", layout.name()), width: w, arr, rows });
        }
    }
    out
}

pub fn run_fsb(cols: &[FsbCol], combo: (i64, Option<u64>), coi: usize, st: &mut Stats, order_base: u64) {
    let (start, length) = combo;
    for (ci, col) in cols.iter().enumerate() {
        let (a, e) = sub_range(col.width, start, length);
        let res = catch(|| substring(col.arr.as_ref(), start, length));
        st.add("substring-fixedsizebinary", col.rows.len() as u64, (col.width > 0) as u64);
        let problem: Option<(String, String)> = match res {
            Err(p) => Some((crate::util::pfp(&p), format!("panic {p:?}"))),
            Ok(Err(er)) => Some(("unexpected-error".into(), format!("Err({er})"))),
            Ok(Ok(out)) => (|| {
                if let Err(er) = out.to_data().validate_full() {
                    return Some(("wf".into(), format!("output fails validate_full: {er}")));
                }
                if out.data_type() != &DataType::FixedSizeBinary((e - a) as i32) {
                    return Some(("type".into(), format!("output type {} want FixedSizeBinary({})", out.data_type(), e - a)));
                }
                let got: Vec<Option<Vec<u8>>> = out.as_fixed_size_binary().iter().map(|v| v.map(|b| b.to_vec())).collect();
                let want: Vec<Option<Vec<u8>>> = col.rows.iter().map(|r| r.as_ref().map(|b| b[a..e].to_vec())).collect();
                first_diff(&got, &want).map(|(r, g, w, n)| ("value".to_string(), format!("row {r}: got {g} want {w} ({n} rows differ)")))
            })(),
        };
        match problem {
            None => st.outcome("substring:fixedsizebinary:ok"),
            Some((kind, detail)) => {
                let fp = if kind == "wf" { "wf:c20:substring:fixedsizebinary".to_string() } else { format!("c20:substring:fixedsizebinary:{kind}") };
                st.violate(order_base + (((coi as u64) << 8) | ci as u64), fp, format!("substring({}, start={start}, length={length:?}): {detail}", col.name), || {
                    json!({"sub": "substring-fixedsizebinary", "column": col.name, "start": start, "length": length, "detail": detail})
                });
            }
        }
    }
}

// ---------------------------------------------------------------------------------------------
// substring_by_char

/// one unit: (start, length) on every Utf8 / LargeUtf8 non-dictionary column
pub fn run_by_char(table: &[Vec<u8>], cols: &[Col], combo: (i64, Option<u64>), coi: usize, st: &mut Stats, order_base: u64) {
    let (start, length) = combo;
    let exp: Vec<Vec<u8>> = table.iter().map(|b| substring_chars(std::str::from_utf8(b).unwrap(), start, length).as_bytes().to_vec()).collect();
    let distinct_out = {
        let mut s: Vec<&Vec<u8>> = exp.iter().collect();
        s.sort();
        s.dedup();
        s.len()
    };
    st.count("substring_by_char_distinct_outputs", distinct_out as u64);
    st.add("substring_by_char", 0, table.iter().filter(|b| !b.is_empty()).count() as u64);
    let mut ref_bad = [false; 2];
    let mut ref_seen = [false; 2];
    for (ci, col) in cols.iter().enumerate() {
        if col.dict != Dict::None || !matches!(col.kind, Kind::Utf8 | Kind::LargeUtf8) {
            continue;
        }
        let grp = col.ascii as usize;
        let is_ref = !ref_seen[grp];
        ref_seen[grp] = true;
        let res: Result<Result<ArrayRef, _>, _> = catch(|| match col.kind {
            Kind::Utf8 => substring_by_char(col.arr.as_string::<i32>(), start, length).map(|a| Arc::new(a) as ArrayRef),
            _ => substring_by_char(col.arr.as_string::<i64>(), start, length).map(|a| Arc::new(a) as ArrayRef),
        });
        st.add("substring_by_char", col.len() as u64, 0);
        let problem: Option<(String, String)> = match res {
            Err(p) => Some((crate::util::pfp(&p), format!("panic {p:?}"))),
            Ok(Err(e)) => Some(("unexpected-error".into(), format!("Err({e})"))),
            Ok(Ok(out)) => (|| {
                if let Err(e) = out.to_data().validate_full() {
                    return Some(("wf".to_string(), format!("output fails validate_full: {e}")));
                }
                if out.data_type() != col.arr.data_type() {
                    return Some(("type".into(), format!("output type {}", out.data_type())));
                }
                let got = match extract_bytes(out.as_ref()) {
                    Ok(g) => g,
                    Err(e) => return Some(("type".into(), e)),
                };
                let want: Vec<Option<Vec<u8>>> = col.rows.iter().map(|r| r.map(|h| exp[h as usize].clone())).collect();
                first_diff(&got, &want).map(|(r, g, w, n)| ("value".to_string(), format!("row {r} (input {:?}): got {g} want {w} ({n} rows differ)", col.rows.get(r).copied().flatten().map(|h| show(&table[h as usize])))))
            })(),
        };
        match problem {
            None => st.outcome(if col.ascii { "substring_by_char:ascii-column:ok" } else { "substring_by_char:ok" }),
            Some((kind, detail)) => {
                if is_ref {
                    ref_bad[grp] = true;
                }
                let enc = (!is_ref && !ref_bad[grp]).then(|| col.enc_class());
                let a = if col.ascii { ":ascii-column" } else { "" };
                let base = if kind == "wf" { format!("wf:c20:substring_by_char{a}") } else { format!("c20:substring_by_char{a}:{kind}") };
                let fp = match enc {
                    Some(e) => format!("{base}:enc={e}"),
                    None => base,
                };
                st.violate(order_base + (((coi as u64) << 8) | ci as u64), fp, format!("substring_by_char({} column {:?}, start={start}, length={length:?}): {detail}", col.enc_class(), col.name), || {
                    json!({"sub": "substring_by_char", "column": col.name, "start": start, "length": length, "detail": detail})
                });
            }
        }
    }
}

// ---------------------------------------------------------------------------------------------
// length / bit_length

pub fn run_length(table: &[Vec<u8>], col: &Col, ci: usize, st: &mut Stats, order_base: u64) {
    for (which, name) in [(0, "length"), (1, "bit_length")] {
        let res = catch(|| if which == 0 { length(col.arr.as_ref()) } else { bit_length(col.arr.as_ref()) });
        st.add(name, col.len() as u64, col.rows.iter().filter(|r| r.is_some_and(|h| !table[h as usize].is_empty())).count() as u64);
        let problem: Option<(String, String)> = match res {
            Err(p) => Some((crate::util::pfp(&p), format!("panic {p:?}"))),
            Ok(Err(e)) => Some(("unexpected-error".into(), format!("Err({e})"))),
            Ok(Ok(out)) => (|| {
                if let Err(e) = out.to_data().validate_full() {
                    return Some(("wf".to_string(), format!("output fails validate_full: {e}")));
                }
                let large = matches!(col.kind, Kind::LargeUtf8 | Kind::LargeBinary);
                let vt = if large { DataType::Int64 } else { DataType::Int32 };
                let want_t = match col.arr.data_type() {
                    DataType::Dictionary(k, _) => DataType::Dictionary(k.clone(), Box::new(vt)),
                    _ => vt,
                };
                if out.data_type() != &want_t {
                    return Some(("type".into(), format!("output type {} want {want_t}", out.data_type())));
                }
                let got = match extract_ints(out.as_ref()) {
                    Ok(g) => g,
                    Err(e) => return Some(("type".into(), e)),
                };
                let mul = if which == 0 { 1 } else { 8 };
                let want: Vec<Option<i64>> = col.rows.iter().map(|r| r.map(|h| table[h as usize].len() as i64 * mul)).collect();
                first_diff(&got, &want).map(|(r, g, w, n)| ("value".to_string(), format!("row {r}: got {g} want {w} ({n} rows differ)")))
            })(),
        };
        match problem {
            None => st.outcome(&format!("{name}:ok")),
            Some((kind, detail)) => {
                let fp = if kind == "wf" { format!("wf:c20:{name}:enc={}", col.enc_class()) } else { format!("c20:{name}:{kind}:enc={}", col.enc_class()) };
                st.violate(order_base + ((ci as u64) << 1) + which, fp, format!("{name}({} column {:?}): {detail}", col.enc_class(), col.name), || json!({"sub": name, "column": col.name, "detail": detail}));
            }
        }
    }
}
