//! Alphabets, string tables and physical column encodings / layouts shared by the C20 sub-engines.
//!
//! Nothing here is sampled: a table is the complete set of strings of length <= L over an alphabet,
//! in a fixed order (shorter first, then lexicographic by alphabet index).
use arrow_array::builder::{BinaryViewBuilder, StringViewBuilder};
use arrow_array::types::{Int8Type, Int32Type};
use arrow_array::*;
use arrow_buffer::{Buffer, NullBuffer, OffsetBuffer};
use std::sync::Arc;

/// DESIGN alphabet Sigma (15 scalar values) ...
pub const SIGMA: [char; 15] = ['a', 'A', 'b', '\u{e9}', '\u{c9}', '\u{df}', 'k', 'K', '\u{212A}', '.', '*', '(', '\n', '\u{1D11E}', '\u{301}'];
/// ... plus the three LIKE metacharacters as *haystack* characters, so that escaped wildcards and a
/// trailing backslash can be matched positively (not only refuted).
pub const SIGMA_EXTRA: [char; 3] = ['\\', '%', '_'];
/// LIKE pattern symbols
/// (`k` is not in the DESIGN list: it is the ASCII pattern character whose regex case-fold class
/// contains a non-ASCII scalar value, U+212A, which is what separates the ASCII fast paths of ILIKE from
/// the regex definition)
pub const PAT_SYMS: [char; 9] = ['%', '_', '\\', 'a', 'A', 'k', '\u{e9}', '.', '\n'];
/// regex symbols
pub const RE_SYMS: [char; 9] = ['a', '.', '*', '^', '$', '(', ')', '|', '\u{e9}'];
/// fixed 13-byte affixes that force Utf8View values out of line (contain a regex meta character)
pub const LONG_PREFIX: &str = "xy-0123456789";
pub const LONG_SUFFIX: &str = "9876543210-yx";
/// byte alphabet for the binary variants
pub const BYTES: [u8; 5] = [0x00, 0x61, 0xC3, 0xA9, 0xFF];

pub fn haystack_alphabet() -> Vec<char> {
    SIGMA.iter().chain(SIGMA_EXTRA.iter()).copied().collect()
}

/// all sequences of length <= max_len over `alpha` (as index vectors), shorter first
pub fn sequences(alpha_len: usize, max_len: usize) -> Vec<Vec<u8>> {
    let mut out: Vec<Vec<u8>> = vec![vec![]];
    let mut start = 0;
    for _ in 0..max_len {
        let end = out.len();
        for i in start..end {
            for a in 0..alpha_len {
                let mut v = out[i].clone();
                v.push(a as u8);
                out.push(v);
            }
        }
        start = end;
    }
    out
}

pub fn strings_over(alpha: &[char], max_len: usize) -> Vec<String> {
    sequences(alpha.len(), max_len).into_iter().map(|s| s.into_iter().map(|i| alpha[i as usize]).collect()).collect()
}
pub fn bytes_over(alpha: &[u8], max_len: usize) -> Vec<Vec<u8>> {
    sequences(alpha.len(), max_len).into_iter().map(|s| s.into_iter().map(|i| alpha[i as usize]).collect()).collect()
}

#[derive(Clone, Copy, PartialEq, Eq, Debug)]
pub enum Kind {
    Utf8,
    LargeUtf8,
    Utf8View,
    Binary,
    LargeBinary,
    BinaryView,
}
impl Kind {
    pub fn is_str(self) -> bool {
        matches!(self, Kind::Utf8 | Kind::LargeUtf8 | Kind::Utf8View)
    }
    pub fn is_view(self) -> bool {
        matches!(self, Kind::Utf8View | Kind::BinaryView)
    }
    pub fn name(self) -> &'static str {
        match self {
            Kind::Utf8 => "utf8",
            Kind::LargeUtf8 => "largeutf8",
            Kind::Utf8View => "utf8view",
            Kind::Binary => "binary",
            Kind::LargeBinary => "largebinary",
            Kind::BinaryView => "binaryview",
        }
    }
}
#[derive(Clone, Copy, PartialEq, Eq, Debug)]
pub enum Dict {
    None,
    I8,
    I32,
}
#[derive(Clone, Copy, PartialEq, Eq, Debug)]
pub enum Layout {
    Compact,
    Sliced,
    Nulls,
    SlicedNulls,
}
impl Layout {
    pub fn sliced(self) -> bool {
        matches!(self, Layout::Sliced | Layout::SlicedNulls)
    }
    pub fn nulls(self) -> bool {
        matches!(self, Layout::Nulls | Layout::SlicedNulls)
    }
    pub fn name(self) -> &'static str {
        match self {
            Layout::Compact => "compact",
            Layout::Sliced => "sliced",
            Layout::Nulls => "nulls",
            Layout::SlicedNulls => "sliced+nulls",
        }
    }
}

/// Build a plain (non-dictionary) array. `valid[i] == false` produces a null slot that *keeps* the
/// bytes of `vals[i]` as hidden content (legal Arrow; what slicing / filtering kernels produce).
pub fn make_plain(kind: Kind, vals: &[&[u8]], valid: Option<&[bool]>) -> ArrayRef {
    let nulls = valid.map(|v| NullBuffer::from(v.to_vec()));
    match kind {
        Kind::Utf8 | Kind::LargeUtf8 | Kind::Binary | Kind::LargeBinary => {
            let mut data = Vec::with_capacity(vals.iter().map(|v| v.len()).sum());
            for v in vals {
                data.extend_from_slice(v);
            }
            let buf = Buffer::from(data);
            match kind {
                Kind::Utf8 => Arc::new(StringArray::new(OffsetBuffer::<i32>::from_lengths(vals.iter().map(|v| v.len())), buf, nulls)),
                Kind::LargeUtf8 => Arc::new(LargeStringArray::new(OffsetBuffer::<i64>::from_lengths(vals.iter().map(|v| v.len())), buf, nulls)),
                Kind::Binary => Arc::new(BinaryArray::new(OffsetBuffer::<i32>::from_lengths(vals.iter().map(|v| v.len())), buf, nulls)),
                _ => Arc::new(LargeBinaryArray::new(OffsetBuffer::<i64>::from_lengths(vals.iter().map(|v| v.len())), buf, nulls)),
            }
        }
        Kind::Utf8View => {
            let mut b = StringViewBuilder::with_capacity(vals.len());
            for v in vals {
                b.append_value(std::str::from_utf8(v).expect("string table entries are UTF-8"));
            }
            let (views, buffers, _) = b.finish().into_parts();
            Arc::new(StringViewArray::new(views, buffers, nulls))
        }
        Kind::BinaryView => {
            let mut b = BinaryViewBuilder::with_capacity(vals.len());
            for v in vals {
                b.append_value(v);
            }
            let (views, buffers, _) = b.finish().into_parts();
            Arc::new(BinaryViewArray::new(views, buffers, nulls))
        }
    }
}

/// Pattern / needle column with ordinary nulls (null slots are empty).
pub fn make_opt(kind: Kind, vals: &[Option<&[u8]>]) -> ArrayRef {
    let raw: Vec<&[u8]> = vals.iter().map(|v| v.unwrap_or(&[])).collect();
    if vals.iter().all(|v| v.is_some()) {
        make_plain(kind, &raw, None)
    } else {
        let valid: Vec<bool> = vals.iter().map(|v| v.is_some()).collect();
        make_plain(kind, &raw, Some(&valid))
    }
}

/// Same logical content as `make_opt`, dictionary-encoded with Int8 keys (distinct values in order of
/// first appearance; nulls are null keys). Panics if there are more than 127 distinct values.
pub fn make_opt_dict8(kind: Kind, vals: &[Option<&[u8]>]) -> ArrayRef {
    let mut distinct: Vec<&[u8]> = vec![];
    let mut keys: Vec<Option<i8>> = Vec::with_capacity(vals.len());
    for v in vals {
        match v {
            None => keys.push(None),
            Some(b) => {
                let k = match distinct.iter().position(|d| d == b) {
                    Some(k) => k,
                    None => {
                        distinct.push(b);
                        distinct.len() - 1
                    }
                };
                keys.push(Some(i8::try_from(k).expect("<=127 distinct")));
            }
        }
    }
    let values = make_plain(kind, &distinct, None);
    Arc::new(DictionaryArray::<Int8Type>::new(Int8Array::from(keys), values))
}

/// A haystack column in one physical encoding + layout, with its logical content.
pub struct Col {
    pub name: String,
    pub kind: Kind,
    pub dict: Dict,
    pub layout: Layout,
    pub arr: ArrayRef,
    /// logical content: table index per row (None = null row)
    pub rows: Vec<Option<u32>>,
    /// pattern / needle arrays for this column are dictionary encoded too
    pub pat_dict: bool,
    /// every value (visible or hidden) inside the column's range is ASCII
    pub ascii: bool,
    /// physical content that no logical row shows and that is *not* taken from the column's own table:
    /// (cause class, bytes). Used by the substring oracle to classify errors caused by invisible values.
    pub foreign: Option<(&'static str, Vec<u8>)>,
}
impl Col {
    pub fn len(&self) -> usize {
        self.rows.len()
    }
    /// code-path class used in fingerprints
    pub fn enc_class(&self) -> String {
        match self.dict {
            Dict::None => self.kind.name().to_string(),
            Dict::I8 => format!("dict8<{}>", self.kind.name()),
            Dict::I32 => format!("dict32<{}>", self.kind.name()),
        }
    }
}

fn junk(kind: Kind) -> &'static [u8] {
    if kind.is_str() { "\u{e9}\u{1D11E}x".as_bytes() } else { &[0xFF, 0x00, 0x61] }
}

fn coprime_step(n: usize) -> usize {
    for p in [7usize, 11, 13, 17, 19, 23, 29, 31] {
        if n % p != 0 {
            return p;
        }
    }
    1
}

/// Build one column over `sel` (indices into `table`).
pub fn make_col(kind: Kind, dict: Dict, layout: Layout, table: &[Vec<u8>], sel: &[u32], pat_dict: bool, tag: &str) -> Col {
    make_col_j(kind, dict, layout, table, sel, pat_dict, tag, junk(kind))
}

/// `make_col` with explicit filler content for the slots outside the slice, the unreferenced
/// dictionary value and the content hidden under the null dictionary value.
#[allow(clippy::too_many_arguments)]
pub fn make_col_j(kind: Kind, dict: Dict, layout: Layout, table: &[Vec<u8>], sel: &[u32], pat_dict: bool, tag: &str, junk: &[u8]) -> Col {
    let n = sel.len();
    let name = format!(
        "{}{}/{}{}",
        match dict {
            Dict::None => String::new(),
            Dict::I8 => "dict8:".into(),
            Dict::I32 => "dict32:".into(),
        },
        kind.name(),
        layout.name(),
        if tag.is_empty() { String::new() } else { format!("/{tag}") }
    );
    match dict {
        Dict::None => {
            let pre = if layout.sliced() { 3 } else { 0 };
            let post = if layout.sliced() { 2 } else { 0 };
            let mut vals: Vec<&[u8]> = Vec::with_capacity(n + pre + post);
            let mut valid: Vec<bool> = Vec::with_capacity(n + pre + post);
            for _ in 0..pre {
                vals.push(junk);
                valid.push(true);
            }
            let mut rows = Vec::with_capacity(n);
            for (i, &t) in sel.iter().enumerate() {
                vals.push(&table[t as usize]);
                let is_null = layout.nulls() && i % 5 == 2;
                valid.push(!is_null);
                rows.push(if is_null { None } else { Some(t) });
            }
            for _ in 0..post {
                vals.push(junk);
                valid.push(true);
            }
            let arr = make_plain(kind, &vals, if layout.nulls() { Some(&valid) } else { None });
            let arr = if layout.sliced() { arr.slice(pre, n) } else { arr };
            assert_eq!(arr.len(), n);
            Col { name, kind, dict, layout, arr, rows, pat_dict, ascii: false, foreign: None }
        }
        Dict::I8 | Dict::I32 => {
            // values: sel entries, then one unreferenced junk value, then (with nulls) a null value
            let mut vals: Vec<&[u8]> = sel.iter().map(|&t| table[t as usize].as_slice()).collect();
            vals.push(junk);
            let junk_idx = n;
            let mut valid = vec![true; n + 1];
            let null_idx = n + 1;
            if layout.nulls() {
                vals.push(junk);
                valid.push(false);
            }
            let values = make_plain(kind, &vals, if layout.nulls() { Some(&valid) } else { None });
            let step = coprime_step(n.max(1));
            let m = if n == 0 { 0 } else { n + n / 3 + 1 };
            let pre = if layout.sliced() { 2 } else { 0 };
            let mut keys: Vec<Option<i64>> = Vec::with_capacity(m + pre);
            let mut rows: Vec<Option<u32>> = Vec::with_capacity(m);
            for _ in 0..pre {
                keys.push(Some(junk_idx as i64));
            }
            for j in 0..m {
                if layout.nulls() && j % 7 == 3 {
                    keys.push(None);
                    rows.push(None);
                } else if layout.nulls() && j % 11 == 5 {
                    keys.push(Some(null_idx as i64));
                    rows.push(None);
                } else {
                    let k = (j * step + 1) % n;
                    keys.push(Some(k as i64));
                    rows.push(Some(sel[k]));
                }
            }
            let arr: ArrayRef = match dict {
                Dict::I8 => {
                    assert!(vals.len() <= 127, "dict8 column too large");
                    Arc::new(DictionaryArray::<Int8Type>::new(Int8Array::from(keys.iter().map(|k| k.map(|k| k as i8)).collect::<Vec<_>>()), values))
                }
                _ => Arc::new(DictionaryArray::<Int32Type>::new(Int32Array::from(keys.iter().map(|k| k.map(|k| k as i32)).collect::<Vec<_>>()), values)),
            };
            let arr = if layout.sliced() { arr.slice(pre, m) } else { arr };
            assert_eq!(arr.len(), m);
            Col { name, kind, dict, layout, arr, rows, pat_dict, ascii: false, foreign: None }
        }
    }
}

/// typed pattern / needle datum content for a column
pub fn make_pat_array(col: &Col, vals: &[Option<&[u8]>]) -> ArrayRef {
    if col.pat_dict { make_opt_dict8(col.kind, vals) } else { make_opt(col.kind, vals) }
}

pub fn to_bytes(strs: &[String]) -> Vec<Vec<u8>> {
    strs.iter().map(|s| s.as_bytes().to_vec()).collect()
}

/// lossy printable rendering for messages / replay files
pub fn show(b: &[u8]) -> String {
    match std::str::from_utf8(b) {
        Ok(s) => format!("{s:?}"),
        Err(_) => format!("{b:02x?}"),
    }
}
