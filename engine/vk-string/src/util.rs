//! Logical extraction of kernel outputs (typed accessors -> plain Rust values).
use arrow_array::cast::AsArray;
use arrow_array::types::{Int8Type, Int32Type, Int64Type};
use arrow_array::*;
use arrow_schema::DataType;

/// rows of a (possibly dictionary encoded) string / binary array as byte vectors
pub fn extract_bytes(arr: &dyn Array) -> Result<Vec<Option<Vec<u8>>>, String> {
    fn plain(arr: &dyn Array) -> Result<Vec<Option<Vec<u8>>>, String> {
        Ok(match arr.data_type() {
            DataType::Utf8 => arr.as_string::<i32>().iter().map(|v| v.map(|s| s.as_bytes().to_vec())).collect(),
            DataType::LargeUtf8 => arr.as_string::<i64>().iter().map(|v| v.map(|s| s.as_bytes().to_vec())).collect(),
            DataType::Utf8View => arr.as_string_view().iter().map(|v| v.map(|s| s.as_bytes().to_vec())).collect(),
            DataType::Binary => arr.as_binary::<i32>().iter().map(|v| v.map(|s| s.to_vec())).collect(),
            DataType::LargeBinary => arr.as_binary::<i64>().iter().map(|v| v.map(|s| s.to_vec())).collect(),
            DataType::BinaryView => arr.as_binary_view().iter().map(|v| v.map(|s| s.to_vec())).collect(),
            DataType::FixedSizeBinary(_) => arr.as_fixed_size_binary().iter().map(|v| v.map(|s| s.to_vec())).collect(),
            t => return Err(format!("unexpected output type {t}")),
        })
    }
    match arr.data_type() {
        DataType::Dictionary(k, _) => {
            let (keys, values): (Vec<Option<usize>>, _) = match **k {
                DataType::Int8 => {
                    let d = arr.as_dictionary::<Int8Type>();
                    (d.keys().iter().map(|k| k.map(|k| k as usize)).collect(), d.values().clone())
                }
                DataType::Int32 => {
                    let d = arr.as_dictionary::<Int32Type>();
                    (d.keys().iter().map(|k| k.map(|k| k as usize)).collect(), d.values().clone())
                }
                _ => return Err(format!("unexpected key type {k}")),
            };
            let vals = plain(values.as_ref())?;
            keys.into_iter()
                .map(|k| match k {
                    None => Ok(None),
                    Some(k) => vals.get(k).cloned().ok_or_else(|| format!("dictionary key {k} out of range {}", vals.len())),
                })
                .collect()
        }
        _ => plain(arr),
    }
}

/// rows of a (possibly dictionary encoded) Int32 / Int64 array
pub fn extract_ints(arr: &dyn Array) -> Result<Vec<Option<i64>>, String> {
    fn plain(arr: &dyn Array) -> Result<Vec<Option<i64>>, String> {
        Ok(match arr.data_type() {
            DataType::Int32 => arr.as_primitive::<Int32Type>().iter().map(|v| v.map(|v| v as i64)).collect(),
            DataType::Int64 => arr.as_primitive::<Int64Type>().iter().collect(),
            t => return Err(format!("unexpected output type {t}")),
        })
    }
    match arr.data_type() {
        DataType::Dictionary(k, _) => {
            let (keys, values): (Vec<Option<usize>>, _) = match **k {
                DataType::Int8 => {
                    let d = arr.as_dictionary::<Int8Type>();
                    (d.keys().iter().map(|k| k.map(|k| k as usize)).collect(), d.values().clone())
                }
                DataType::Int32 => {
                    let d = arr.as_dictionary::<Int32Type>();
                    (d.keys().iter().map(|k| k.map(|k| k as usize)).collect(), d.values().clone())
                }
                _ => return Err(format!("unexpected key type {k}")),
            };
            let vals = plain(values.as_ref())?;
            keys.into_iter()
                .map(|k| match k {
                    None => Ok(None),
                    Some(k) => vals.get(k).cloned().ok_or_else(|| format!("dictionary key {k} out of range {}", vals.len())),
                })
                .collect()
        }
        _ => plain(arr),
    }
}

/// first differing row between two logical columns
pub fn first_diff<T: PartialEq + std::fmt::Debug>(got: &[T], want: &[T]) -> Option<(usize, String, String, usize)> {
    if got.len() != want.len() {
        return Some((0, format!("len {}", got.len()), format!("len {}", want.len()), 1));
    }
    let mut first = None;
    let mut count = 0;
    for i in 0..got.len() {
        if got[i] != want[i] {
            count += 1;
            if first.is_none() {
                first = Some(i);
            }
        }
    }
    first.map(|i| (i, format!("{:?}", got[i]), format!("{:?}", want[i]), count))
}

/// panic fingerprint on one line: `panic@<file>:<first line of the message, digits stripped>`
pub fn pfp(p: &vcore::PanicInfo) -> String {
    p.fingerprint().lines().next().unwrap_or("panic").trim().to_string()
}
