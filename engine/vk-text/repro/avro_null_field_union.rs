//! c17:avro:writer:null-typed-field-written-as-union-null-null
//! A Null-typed (necessarily nullable) Arrow field becomes the Avro union ["null","null"], which the
//! Avro specification forbids ("Unions may not contain more than one schema with the same type");
//! other implementations reject the file.
use arrow_array::{NullArray, RecordBatch};
use arrow_schema::{DataType, Field, Schema};
use std::sync::Arc;
fn main() {
    let schema = Schema::new(vec![Field::new("c0", DataType::Null, true)]);
    let batch = RecordBatch::try_new(Arc::new(schema.clone()), vec![Arc::new(NullArray::new(2))]).unwrap();
    let mut w = arrow_avro::writer::AvroWriter::new(Vec::new(), schema).unwrap();
    w.write(&batch).unwrap();
    w.finish().unwrap();
    let bytes = w.into_inner();
    println!("header: {}", String::from_utf8_lossy(&bytes[..120]));
    println!("apache-avro: {:?}", apache_avro::Reader::new(&bytes[..]).map(|r| r.count()).map_err(|e| e.to_string()));
}
