//! c17:avro:writer:ocf-header-ignores-avro.schema-metadata-used-by-encoder
//! The writer documents that an Avro schema placed in the Arrow schema metadata (`avro.schema`) is used
//! verbatim. The encoder does use it, but the OCF header is regenerated from the Arrow fields
//! (AvroOcfFormat::start_stream passes strip_metadata=true, which skips the metadata branch), so header
//! and body disagree, e.g. for a `["boolean","null"]` union: `true` is read back as null.
use arrow_array::{BooleanArray, RecordBatch};
use arrow_schema::{DataType, Field, Schema};
use std::collections::HashMap;
use std::sync::Arc;
fn main() {
    let avro = r#"{"type":"record","name":"topLevelRecord","fields":[{"name":"c0","type":["boolean","null"]}]}"#;
    let mut md = HashMap::new();
    md.insert("avro.schema".to_string(), avro.to_string());
    let schema = Schema::new_with_metadata(vec![Field::new("c0", DataType::Boolean, true)], md);
    let batch = RecordBatch::try_new(Arc::new(schema.clone()), vec![Arc::new(BooleanArray::from(vec![Some(true)]))]).unwrap();
    let mut w = arrow_avro::writer::AvroWriter::new(Vec::new(), schema).unwrap();
    w.write(&batch).unwrap();
    w.finish().unwrap();
    let bytes = w.into_inner();
    println!("header: {}", String::from_utf8_lossy(&bytes[..130]));
    println!("apache-avro reads: {:?}", apache_avro::Reader::new(&bytes[..]).unwrap().collect::<Vec<_>>());
    // arrow-avro's own reader: the body has 2 bytes (branch 0 = boolean, true) but the header says
    // branch 0 = null, so one record consumes 1 byte of a 2-byte block; the reader then spins forever
    // (observed: 100% CPU for minutes), hence the watchdog thread.
    let b2 = bytes.clone();
    let (tx, rx) = std::sync::mpsc::channel();
    std::thread::spawn(move || {
        let back = arrow_avro::reader::ReaderBuilder::new().build(std::io::Cursor::new(&b2)).unwrap().next();
        let _ = tx.send(format!("{:?}", back.map(|b| b.map(|b| format!("{:?}", b.column(0))))));
    });
    match rx.recv_timeout(std::time::Duration::from_secs(5)) {
        Ok(s) => println!("arrow-avro reads: {s}"),
        Err(_) => println!("arrow-avro reader did not return within 5 s (wrote `true`)"),
    }
    std::process::exit(0);
}
