//! c17:avro:reader:utf8_view-replaces-null-strings-by-empty-strings
//! reader/record.rs flushes Decoder::StringView through `StringViewArray::from(Vec<&str>)` with ""
//! for null slots: the validity is lost.
use arrow_array::{Array, RecordBatch, StringArray};
use arrow_schema::{DataType, Field, Schema};
use std::sync::Arc;
fn main() {
    let schema = Schema::new(vec![Field::new("c0", DataType::Utf8, true)]);
    let batch = RecordBatch::try_new(Arc::new(schema.clone()), vec![Arc::new(StringArray::from(vec![Some("a"), None]))]).unwrap();
    let mut w = arrow_avro::writer::AvroWriter::new(Vec::new(), schema).unwrap();
    w.write(&batch).unwrap();
    w.finish().unwrap();
    let bytes = w.into_inner();
    for view in [false, true] {
        let b = arrow_avro::reader::ReaderBuilder::new().with_utf8_view(view).build(std::io::Cursor::new(&bytes)).unwrap().next().unwrap().unwrap();
        println!("utf8_view={view}: {:?} null_count={}", b.column(0), b.column(0).null_count());
    }
}
