//! c17:avro:reader:ocf-block-of-zero-byte-records-yields-no-rows
//! Records that encode to zero bytes (no fields, or only `null`-typed fields) give OCF blocks with a
//! positive count and size 0; arrow-avro returns no rows for them (apache-avro returns them).
use apache_avro::types::Value;
fn main() {
    let s = apache_avro::Schema::parse_str(r#"{"type":"record","name":"Row","fields":[{"name":"c0","type":"null"}]}"#).unwrap();
    let mut w = apache_avro::Writer::new(&s, Vec::new()).unwrap();
    for _ in 0..3 {
        w.append_value(Value::Record(vec![("c0".into(), Value::Null)])).unwrap();
    }
    let bytes = w.into_inner().unwrap();
    let n = apache_avro::Reader::new(&bytes[..]).unwrap().count();
    let rows: usize = arrow_avro::reader::ReaderBuilder::new().build(std::io::Cursor::new(&bytes)).unwrap().map(|b| b.unwrap().num_rows()).sum();
    println!("apache-avro reads {n} rows, arrow-avro reads {rows} rows");
}
