//! c17:csv:double_quote=false:escape-byte-in-field-not-escaped
//! Writer with `with_double_quote(false)` (escape = `\`), reader with the matching `with_escape(b'\\')`:
//! a value that contains the escape byte is written as-is inside quotes, so the reader takes it as the
//! start of an escape sequence. `a\` becomes unreadable, `\N` silently becomes `N`.
use arrow_array::{RecordBatch, StringArray};
use arrow_schema::{DataType, Field, Schema};
use std::sync::Arc;
fn main() {
    let schema = Arc::new(Schema::new(vec![Field::new("c0", DataType::Utf8, false)]));
    for v in ["a\\", "\\N", "C:\\dir"] {
        let batch = RecordBatch::try_new(schema.clone(), vec![Arc::new(StringArray::from(vec![v]))]).unwrap();
        let mut out = vec![];
        arrow_csv::WriterBuilder::new().with_header(false).with_double_quote(false).with_escape(b'\\').build(&mut out).write(&batch).unwrap();
        let r = arrow_csv::ReaderBuilder::new(schema.clone()).with_escape(b'\\').build(&out[..]).unwrap().collect::<Result<Vec<_>, _>>();
        println!("value {v:?} written as {:?} read back as {:?}", String::from_utf8_lossy(&out), r.map(|b| format!("{:?}", b[0].column(0))));
    }
}
