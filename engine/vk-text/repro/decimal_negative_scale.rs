//! c17:decimal-negative-scale:parse_decimal-ignores-negative-scale
//! c17:decimal-negative-scale:zero-formatted-as-000
//! Decimal128(10,-2): unscaled 1 means 100. The CSV / JSON writers print "100"; the readers parse "100"
//! into unscaled 100 (= 10000). Unscaled 0 is printed as "000", which is not a JSON number.
use arrow_array::{Array, Decimal128Array, RecordBatch};
use arrow_schema::{DataType, Field, Schema};
use std::sync::Arc;
fn main() {
    let schema = Arc::new(Schema::new(vec![Field::new("c0", DataType::Decimal128(10, -2), false)]));
    let a = Decimal128Array::from(vec![1i128, 0]).with_precision_and_scale(10, -2).unwrap();
    let batch = RecordBatch::try_new(schema.clone(), vec![Arc::new(a)]).unwrap();
    let mut out = vec![];
    arrow_csv::WriterBuilder::new().with_header(false).build(&mut out).write(&batch).unwrap();
    let back = arrow_csv::ReaderBuilder::new(schema.clone()).build(&out[..]).unwrap().next().unwrap().unwrap();
    println!("csv text {:?}; wrote {:?}; read {:?}", String::from_utf8_lossy(&out), batch.column(0), back.column(0));
    let mut out = vec![];
    let mut w = arrow_json::LineDelimitedWriter::new(&mut out);
    w.write(&batch).unwrap();
    w.finish().unwrap();
    println!("json text {:?}; serde_json on line 2: {:?}", String::from_utf8_lossy(&out), serde_json::from_str::<serde_json::Value>(std::str::from_utf8(&out).unwrap().lines().nth(1).unwrap()).map_err(|e| e.to_string()));
    println!("parse_decimal(\"100\", 10, -2) = {:?} (expected 1)", arrow_cast::parse::parse_decimal::<arrow_array::types::Decimal128Type>("100", 10, -2));
}
