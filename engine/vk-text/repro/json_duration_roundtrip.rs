//! c17:json:duration-written-as-iso8601-string-that-the-reader-cannot-parse
use arrow_array::{DurationSecondArray, RecordBatch};
use arrow_schema::{DataType, Field, Schema, TimeUnit};
use std::sync::Arc;
fn main() {
    let schema = Arc::new(Schema::new(vec![Field::new("c0", DataType::Duration(TimeUnit::Second), false)]));
    let batch = RecordBatch::try_new(schema.clone(), vec![Arc::new(DurationSecondArray::from(vec![1i64]))]).unwrap();
    let mut out = vec![];
    let mut w = arrow_json::LineDelimitedWriter::new(&mut out);
    w.write(&batch).unwrap();
    w.finish().unwrap();
    let r = arrow_json::ReaderBuilder::new(schema).build(&out[..]).unwrap().next().unwrap();
    println!("written {:?}; read back: {:?}", String::from_utf8_lossy(&out), r.map(|b| format!("{:?}", b.column(0))));
}
