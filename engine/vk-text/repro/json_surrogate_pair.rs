//! c17:json:reader:escaped-surrogate-pair-above-U+1FFFF-decoded-to-wrong-code-point
//! arrow-json/src/reader/tape.rs char_from_surrogate_pair computes
//! `((high - 0xD800) << 10) | (low - 0xDC00 + 0x10000)`; the `|` loses the carry once bit 16 of the
//! high part is set, i.e. for every code point >= U+20000 (CJK extension B, ...).
use arrow_array::cast::AsArray;
use arrow_schema::{DataType, Field, Schema};
use std::sync::Arc;
fn main() {
    let schema = Arc::new(Schema::new(vec![Field::new("a", DataType::Utf8, false)]));
    let doc = r#"{"a":"\uD840\uDC00"}"#; // U+20000
    let want: serde_json::Value = serde_json::from_str(doc).unwrap();
    let b = arrow_json::ReaderBuilder::new(schema).build(doc.as_bytes()).unwrap().next().unwrap().unwrap();
    let got = b.column(0).as_string::<i32>().value(0).to_string();
    println!("serde_json: {:?} = U+{:X}; arrow-json: {:?} = U+{:X}", want["a"], want["a"].as_str().unwrap().chars().next().unwrap() as u32, got, got.chars().next().unwrap() as u32);
}
